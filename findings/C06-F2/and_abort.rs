//! Triage demonstration of known finding C06-F2 (not a check): put into crux_core/tests/ and run
//! `cargo nextest run -p crux_core --test and_abort`. On the unchanged tree the first test FAILS (left: [], right: [Done(Second, 2)]),
//! the second passes.

use crux_core::{capability::Operation, Command, Request};
use serde::{Deserialize, Serialize};

#[derive(Debug, Clone, PartialEq, Serialize, Deserialize)]
enum Op {
    First,
    Second,
    Third,
}

impl Operation for Op {
    type Output = usize;
}

enum Effect {
    Op(Request<Op>),
}

impl From<Request<Op>> for Effect {
    fn from(value: Request<Op>) -> Self {
        Effect::Op(value)
    }
}

#[derive(Debug, PartialEq)]
enum Event {
    Done(Op, usize),
}

fn member(op: Op) -> Command<Effect, Event> {
    let tag = op.clone();
    Command::request_from_shell(op).then_send(move |out| Event::Done(tag, out))
}

fn take_requests(cmd: &mut Command<Effect, Event>) -> Vec<Request<Op>> {
    cmd.effects().map(|Effect::Op(req)| req).collect()
}

#[test]
fn aborting_the_left_operand_of_and_leaves_the_right_one_running() {
    let first = member(Op::First);
    let second = member(Op::Second);
    let first_handle = first.abort_handle();

    let mut cmd = first.and(second);
    let mut requests = take_requests(&mut cmd);
    assert_eq!(requests.len(), 2);

    first_handle.abort();

    requests[1].resolve(2).expect("to resolve");
    assert_eq!(
        cmd.events().collect::<Vec<_>>(),
        vec![Event::Done(Op::Second, 2)],
        "sibling of an aborted command must still deliver its event"
    );
}

#[test]
fn aborting_the_right_operand_of_and_leaves_the_left_one_running() {
    let first = member(Op::First);
    let second = member(Op::Second);
    let second_handle = second.abort_handle();

    let mut cmd = first.and(second);
    let mut requests = take_requests(&mut cmd);
    assert_eq!(requests.len(), 2);

    second_handle.abort();

    requests[0].resolve(1).expect("to resolve");
    assert_eq!(cmd.events().collect::<Vec<_>>(), vec![Event::Done(Op::First, 1)]);
}
