//! Triage demonstration of C02-F2 (fixed by 0d13234; not a check): crux_core/tests/double_resolve_bridge.rs.
//! Before the fix the second handle_response(1, ..) panicked with `Request with EffectId(1) not found.`

mod app {
    use crux_core::capability::{CapabilityContext, Operation};
    use crux_core::macros::{Capability, Effect};
    use crux_core::Command;
    use serde::{Deserialize, Serialize};

    #[derive(PartialEq, Eq, Clone, Serialize, Deserialize, Debug)]
    pub struct Fetch {
        pub key: u32,
    }

    #[derive(PartialEq, Eq, Clone, Serialize, Deserialize, Debug)]
    pub struct Fetched {
        pub value: u32,
        /// keys the app should fetch next
        pub more: Vec<u32>,
    }

    impl Operation for Fetch {
        type Output = Fetched;
    }

    #[derive(Capability)]
    pub struct Fetcher<E> {
        #[allow(dead_code)]
        context: CapabilityContext<Fetch, E>,
    }

    impl<E> Fetcher<E> {
        pub fn new(context: CapabilityContext<Fetch, E>) -> Self {
            Self { context }
        }
    }

    #[derive(Default)]
    pub struct App;

    #[derive(Serialize, Deserialize, Debug)]
    pub enum Event {
        Start(Vec<u32>),
        #[serde(skip)]
        Done(u32, Fetched),
    }

    #[derive(Default)]
    pub struct Model {
        /// (key the request was issued for, value the shell answered with)
        pub log: Vec<(u32, u32)>,
    }

    #[derive(Serialize, Deserialize, Debug, PartialEq, Eq)]
    pub struct ViewModel {
        pub log: Vec<(u32, u32)>,
    }

    #[derive(Effect)]
    #[allow(dead_code)]
    pub struct Capabilities {
        pub fetcher: Fetcher<Event>,
    }

    fn fetch_all(keys: Vec<u32>) -> Command<Effect, Event> {
        Command::all(keys.into_iter().map(|key| {
            Command::request_from_shell(Fetch { key })
                .then_send(move |fetched| Event::Done(key, fetched))
        }))
    }

    impl crux_core::App for App {
        type Event = Event;
        type Model = Model;
        type ViewModel = ViewModel;
        type Capabilities = Capabilities;
        type Effect = Effect;

        fn update(
            &self,
            event: Event,
            model: &mut Model,
            _caps: &Capabilities,
        ) -> Command<Effect, Event> {
            match event {
                Event::Start(keys) => fetch_all(keys),
                Event::Done(key, fetched) => {
                    model.log.push((key, fetched.value));
                    fetch_all(fetched.more)
                }
            }
        }

        fn view(&self, model: &Model) -> ViewModel {
            ViewModel {
                log: model.log.clone(),
            }
        }
    }
}


use app::{App, Event, Fetched};
use crux_core::bridge::Bridge;
use crux_core::Core;

#[test]
fn second_resolution_of_a_one_shot_over_the_bridge_is_rejected_with_an_error() {
    let bridge = Bridge::<App>::new(Core::new());
    let ev = bincode::serialize(&Event::Start(vec![10, 11])).unwrap();
    let _ = bridge.process_event(&ev).unwrap();
    let out = bincode::serialize(&Fetched { value: 1, more: vec![] }).unwrap();
    bridge.handle_response(1, &out).expect("first resolution is accepted");
    let second = bridge.handle_response(1, &out);
    assert!(second.is_err(), "second resolution must be rejected with an error value");
    let view: app::ViewModel = bincode::deserialize(&bridge.view().unwrap()).unwrap();
    assert_eq!(view.log, vec![(11, 1)], "the second resolution had no effect");
    bridge.handle_response(0, &out).expect("request 0 still resolves");
}
