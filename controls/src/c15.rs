use crux_http::http::{Response, StatusCode};

pub fn bad_status(code: u16) -> Response {
    Response::new(code)
}

pub fn good_status() -> Response {
    Response::new(StatusCode::Ok)
}

pub fn bad_header(name: &str, value: String) -> Response {
    let mut r = Response::new(StatusCode::Ok);
    r.append_header(name, value);
    r
}

/// control for C14 R14.g: editing a URL (must be matched by the who-may-call rule)
pub fn strip_fragment(mut url: crux_http::http::Url) -> crux_http::http::Url {
    url.set_fragment(None);
    url
}

/// control for C14 R14.i: choosing a media type by sniffing the content (must be matched by the who-may-call rule)
pub fn sniff_media_type(bytes: &[u8]) -> Option<crux_http::http::Mime> {
    crux_http::http::Mime::sniff(bytes).ok()
}

/// control for C17 R17.e: constructing a KeyValueError in the core (errors must come from the shell)
pub fn fabricate_kv_error() -> crux_kv::error::KeyValueError {
    crux_kv::error::KeyValueError::Other { message: "made up".to_string() }
}

/// control for C15 R15.k: a JSON document decoded through a hand-built Deserializer that never checks for trailing data
pub fn decode_json_prefix(bytes: &[u8]) -> Result<u32, serde_json::Error> {
    let mut de = serde_json::Deserializer::from_slice(bytes);
    serde::Deserialize::deserialize(&mut de)
}

/// control for C15 R15.k: the same with the trailing-data check (must stay quiet)
pub fn decode_json_whole(bytes: &[u8]) -> Result<u32, serde_json::Error> {
    let mut de = serde_json::Deserializer::from_slice(bytes);
    let v: u32 = serde::Deserialize::deserialize(&mut de)?;
    de.end()?;
    Ok(v)
}
