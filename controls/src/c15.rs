use crux_http::http::{Response, StatusCode};

pub fn bad_status(code: u16) -> Response {
    Response::new(code)
}

pub fn good_status() -> Response {
    Response::new(StatusCode::Ok)
}

pub fn bad_header(name: &str, value: String) -> Response {
    let mut r = Response::new(StatusCode::Ok);
    r.append_header(name, value);
    r
}
