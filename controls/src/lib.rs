//! Positive controls for the static rules (tiny functions every rule with an expected count
//! of zero must still match) and a probe app that instantiates crux's own proc-macros from the
//! current tree, so that macro *output* is analysed.
#![allow(dead_code, unused_variables, clippy::all)]

pub mod c01;
pub mod c10;
pub mod c11;
pub mod c15;
pub mod c19;
pub mod probe;
