//! Probe apps: instantiate crux's proc-macros from the current tree so their *output* is analysed.
use crux_core::render::{Render, RenderOperation};
use crux_core::{compose::Compose, Command};
use crux_http::protocol::HttpRequest;
use crux_kv::KeyValueOperation;
use crux_platform::PlatformRequest;
use crux_time::TimeRequest;
use serde::{Deserialize, Serialize};

/// App 1: legacy capabilities struct with `#[derive(Effect)]` and `#[derive(Export)]`
pub mod derived {
    use super::*;

    #[derive(Default)]
    pub struct App;

    #[derive(Serialize, Deserialize, Debug, PartialEq)]
    pub enum Event {
        Go,
        Value(u64),
    }

    #[derive(Serialize, Deserialize, Default)]
    pub struct ViewModel {
        pub text: String,
    }

    #[derive(crux_core::macros::Effect, crux_core::macros::Export)]
    pub struct Capabilities {
        pub render: Render<Event>,
        pub http: crux_http::Http<Event>,
        pub kv: crux_kv::KeyValue<Event>,
        pub time: crux_time::Time<Event>,
        pub platform: crux_platform::Platform<Event>,
        #[effect(skip)]
        pub compose: Compose<Event>,
    }

    impl crux_core::App for App {
        type Event = Event;
        type Model = ();
        type ViewModel = ViewModel;
        type Capabilities = Capabilities;
        type Effect = Effect;

        fn update(&self, _e: Event, _m: &mut (), _c: &Capabilities) -> Command<Effect, Event> {
            Command::done()
        }

        fn view(&self, _m: &()) -> ViewModel {
            ViewModel::default()
        }
    }
}

/// App 2: `#[effect(typegen)]` enum
pub mod attr {
    use super::*;

    #[derive(Default)]
    pub struct App;

    #[derive(Serialize, Deserialize, Debug, PartialEq)]
    pub enum Event {
        Go,
    }

    #[crux_core::macros::effect(typegen)]
    pub enum Effect {
        Render(RenderOperation),
        Http(HttpRequest),
        KeyValue(KeyValueOperation),
        Time(TimeRequest),
        Platform(PlatformRequest),
    }

    impl crux_core::App for App {
        type Event = Event;
        type Model = ();
        type ViewModel = ();
        type Capabilities = ();
        type Effect = Effect;

        fn update(&self, _e: Event, _m: &mut (), _c: &()) -> Command<Effect, Event> {
            Command::done()
        }

        fn view(&self, _m: &()) {}
    }
}
