use serde::{Deserialize, Serialize};

#[derive(Serialize, Deserialize)]
pub enum BadOrder {
    #[serde(skip)]
    Hidden(u8),
    Shown(u8),
}

#[derive(Serialize, Deserialize)]
pub struct NonNeutral {
    #[serde(skip_serializing_if = "Option::is_none")]
    pub maybe: Option<u8>,
}
