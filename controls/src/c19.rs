pub fn lossy_cast(x: u128) -> u64 {
    x as u64
}

pub fn sign_cast(x: i64) -> u64 {
    x as u64
}

pub fn widening_cast(x: u32) -> u64 {
    x as u64
}

pub fn plain_mul(a: u64, b: u64) -> u64 {
    a * b
}

pub fn wrapping(a: u64, b: u64) -> u64 {
    a.wrapping_mul(b)
}

pub fn checked_defaulted(a: u64, b: u64) -> u64 {
    a.checked_mul(b).unwrap_or(0)
}

pub fn checked_expected(a: u64, b: u64) -> u64 {
    a.checked_mul(b).expect("overflow")
}

pub struct Inst {
    pub seconds: u64,
    pub nanos: u32,
}

const LIMIT: u32 = 1_000_000_000;

pub fn guarded_build(seconds: u64, nanos: u32) -> Option<Inst> {
    if nanos >= LIMIT {
        return None;
    }
    Some(Inst { seconds, nanos })
}

pub fn unguarded_build(seconds: u64, nanos: u32) -> Inst {
    Inst { seconds, nanos }
}

pub fn wrong_side_guard(seconds: u64, nanos: u32) -> Option<Inst> {
    if nanos < LIMIT {
        return None;
    }
    Some(Inst { seconds, nanos })
}
