pub fn drops_effect<Effect>(e: Effect, keep: bool) -> Option<Effect> {
    if keep {
        Some(e)
    } else {
        None
    }
}

pub fn moves_effect<Effect>(e: Effect, out: &mut Vec<Effect>) {
    out.push(e);
}
