use std::collections::{BTreeMap, HashMap};

pub fn collect_vec(m: &HashMap<String, u32>) -> Vec<String> {
    m.keys().cloned().collect()
}

pub fn collect_sorted(m: &HashMap<String, u32>) -> Vec<String> {
    let mut v: Vec<String> = m.keys().cloned().collect();
    v.sort();
    v
}

pub fn zip_two(a: &HashMap<String, u32>, b: &HashMap<String, u32>) -> bool {
    a.iter().zip(b.iter()).all(|(x, y)| x == y)
}

pub fn count_only(m: &HashMap<String, u32>) -> usize {
    m.iter().count()
}

pub fn first_key(m: &HashMap<String, u32>) -> Option<&String> {
    m.keys().next()
}

pub fn loop_push(m: &HashMap<String, u32>) -> Vec<u32> {
    let mut out = Vec::new();
    for (_, v) in m {
        out.push(*v);
    }
    out
}

pub fn collect_map(m: &HashMap<String, u32>) -> BTreeMap<String, u32> {
    m.iter().map(|(k, v)| (k.clone(), *v)).collect()
}

pub fn ambient_clock() -> std::time::SystemTime {
    std::time::SystemTime::now()
}

pub fn ambient_addr(x: &u32) -> usize {
    x as *const u32 as usize
}
