//! Minimal JSON tree + writer (the driver has no cargo dependencies).

pub enum J {
    Null,
    Bool(bool),
    Int(i128),
    Str(String),
    Arr(Vec<J>),
    Obj(Vec<(&'static str, J)>),
}

impl J {
    pub fn s(x: impl Into<String>) -> J {
        J::Str(x.into())
    }
    pub fn obj(v: Vec<(&'static str, J)>) -> J {
        J::Obj(v)
    }
    pub fn push(&mut self, k: &'static str, v: J) {
        if let J::Obj(o) = self {
            o.push((k, v));
        }
    }
    pub fn to_string(&self) -> String {
        let mut s = String::new();
        self.write(&mut s);
        s
    }
    fn write(&self, out: &mut String) {
        match self {
            J::Null => out.push_str("null"),
            J::Bool(b) => out.push_str(if *b { "true" } else { "false" }),
            J::Int(i) => out.push_str(&i.to_string()),
            J::Str(s) => esc(s, out),
            J::Arr(a) => {
                out.push('[');
                for (i, x) in a.iter().enumerate() {
                    if i > 0 {
                        out.push(',');
                    }
                    x.write(out);
                }
                out.push(']');
            }
            J::Obj(o) => {
                out.push('{');
                for (i, (k, v)) in o.iter().enumerate() {
                    if i > 0 {
                        out.push(',');
                    }
                    esc(k, out);
                    out.push(':');
                    v.write(out);
                }
                out.push('}');
            }
        }
    }
}

fn esc(s: &str, out: &mut String) {
    out.push('"');
    for c in s.chars() {
        match c {
            '"' => out.push_str("\\\""),
            '\\' => out.push_str("\\\\"),
            '\n' => out.push_str("\\n"),
            '\r' => out.push_str("\\r"),
            '\t' => out.push_str("\\t"),
            c if (c as u32) < 0x20 => out.push_str(&format!("\\u{:04x}", c as u32)),
            c => out.push(c),
        }
    }
    out.push('"');
}
