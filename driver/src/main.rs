//! cruxfacts — a rustc_private fact extractor.
//!
//! Injected with RUSTC_WORKSPACE_WRAPPER under `cargo +nightly check`; for every workspace
//! member it writes one JSON file with: the serde-relevant attributes of every ADT (from the
//! expanded AST), ADT / impl / static tables (HIR + types), and two MIR views of every body
//! (`mir_built`, taken after expansion, and `mir_drops_elaborated_and_const_checked`, taken
//! after analysis).  It contains no rules: all verdicts are computed by /verif/rules.
#![feature(rustc_private)]
#![allow(clippy::all)]

extern crate rustc_abi;
extern crate rustc_ast;
extern crate rustc_ast_pretty;
extern crate rustc_driver;
extern crate rustc_hir;
extern crate rustc_interface;
extern crate rustc_middle;
extern crate rustc_span;

mod json;
use json::J;

use rustc_hir::def::DefKind;
use rustc_hir::def_id::{DefId, LocalDefId};
use rustc_middle::mir::{
    self, AggregateKind, BasicBlock, Body, Operand, Place, ProjectionElem, Rvalue, StatementKind,
    TerminatorKind, UnwindAction,
};
use rustc_middle::ty::print::PrintTraitRefExt;
use rustc_middle::ty::print::{with_crate_prefix, with_no_trimmed_paths, with_no_visible_paths};
use rustc_middle::ty::{self, Ty, TyCtxt};
use rustc_span::Span;

struct Cb {
    out_dir: Option<String>,
    config: String,
    ast: Option<J>,
    items: Option<J>,
    built: Option<J>,
    built_stolen: Option<J>,
    consts: Option<J>,
    elab: Option<J>,
    elab_stolen: i64,
    crate_name: String,
}

fn main() {
    let mut args: Vec<String> = std::env::args().collect();
    // wrapper mode: argv[1] is the path of the real rustc
    if args.len() > 1 && (args[1].ends_with("rustc") || args[1].contains("/rustc")) {
        args.remove(1);
    }
    let mut cb = Cb {
        out_dir: std::env::var("CRUXFACTS_OUT").ok(),
        config: std::env::var("CRUXFACTS_CONFIG").unwrap_or_else(|_| "default".into()),
        ast: None,
        items: None,
        built: None,
        built_stolen: None,
        consts: None,
        elab: None,
        elab_stolen: 0,
        crate_name: String::new(),
    };
    rustc_driver::run_compiler(&args, &mut cb);
}

fn skip_crate(name: &str) -> bool {
    name == "build_script_build" || name.starts_with("build_script_")
}

impl rustc_driver::Callbacks for Cb {
    fn after_expansion<'tcx>(
        &mut self,
        _c: &rustc_interface::interface::Compiler,
        tcx: TyCtxt<'tcx>,
    ) -> rustc_driver::Compilation {
        if self.out_dir.is_none() {
            return rustc_driver::Compilation::Continue;
        }
        let name = tcx.crate_name(rustc_hir::def_id::LOCAL_CRATE).to_string();
        self.crate_name = name.clone();
        CRATE.with(|c| *c.borrow_mut() = name.clone());
        if skip_crate(&name) {
            return rustc_driver::Compilation::Continue;
        }
        // 1. expanded AST, before anything lowers HIR
        self.ast = Some(ast_view::collect(tcx));
        // 2. built MIR: clone every body first (later queries may steal them); const fns
        //    first, because building another body may const-evaluate (and steal) them
        let mut owners: Vec<LocalDefId> = tcx
            .hir_body_owners()
            .filter(|d| {
                matches!(
                    tcx.def_kind(*d),
                    DefKind::Fn | DefKind::AssocFn | DefKind::Closure
                )
            })
            .collect();
        // const fns first (const evaluation steals them), then bodies that define opaque types (`-> impl Trait`,
        // async fns): type-checking a caller asks for the hidden type, which borrow-checks (and steals) them
        owners.sort_by_key(|d| {
            let k = tcx.def_kind(*d);
            let is_const = matches!(k, DefKind::Fn | DefKind::AssocFn) && tcx.is_const_fn(d.to_def_id());
            let defines_opaque = !tcx.opaque_types_defined_by(*d).is_empty();
            (!is_const, !defines_opaque)
        });
        // Type-checking a body that uses another local function's `impl Trait` / async future may need its hidden type (auto-trait
        // leakage), which borrow-checks -- and steals the built MIR of -- that function.  So a body is taken after every local function it
        // mentions, as far as the HIR tells without type information: resolved paths by DefId, method calls and type-relative paths by name.
        {
            use rustc_hir::intravisit::{self, Visitor};
            struct Mentions<'t> {
                tcx: TyCtxt<'t>,
                dids: Vec<DefId>,
                names: Vec<rustc_span::Symbol>,
            }
            impl<'v> Visitor<'v> for Mentions<'v> {
                // closures are nested bodies: walk into them
                type NestedFilter = rustc_middle::hir::nested_filter::OnlyBodies;
                fn maybe_tcx(&mut self) -> Self::MaybeTyCtxt {
                    self.tcx
                }
                fn visit_expr(&mut self, e: &'v rustc_hir::Expr<'v>) {
                    match &e.kind {
                        rustc_hir::ExprKind::MethodCall(seg, ..) => self.names.push(seg.ident.name),
                        rustc_hir::ExprKind::Path(rustc_hir::QPath::Resolved(_, path)) => {
                            if let rustc_hir::def::Res::Def(_, did) = path.res {
                                self.dids.push(did);
                            }
                        }
                        rustc_hir::ExprKind::Path(rustc_hir::QPath::TypeRelative(_, seg)) => self.names.push(seg.ident.name),
                        _ => {}
                    }
                    intravisit::walk_expr(self, e);
                }
            }
            // only non-closure owners have a HIR body of their own to start from; closures are visited as part of their parent
            let fn_owners: Vec<LocalDefId> = owners.iter().copied().filter(|d| !matches!(tcx.def_kind(*d), DefKind::Closure)).collect();
            let mut by_name: std::collections::HashMap<rustc_span::Symbol, Vec<LocalDefId>> = std::collections::HashMap::new();
            for d in &fn_owners {
                if let Some(n) = tcx.opt_item_name(d.to_def_id()) {
                    by_name.entry(n).or_default().push(*d);
                }
            }
            let mut deps: std::collections::HashMap<LocalDefId, Vec<LocalDefId>> = std::collections::HashMap::new();
            for d in &fn_owners {
                let mut m = Mentions { tcx, dids: Vec::new(), names: Vec::new() };
                if let Some(body) = tcx.hir_maybe_body_owned_by(*d) {
                    m.visit_body(body);
                }
                let mut v: Vec<LocalDefId> = Vec::new();
                for did in m.dids {
                    if let Some(l) = did.as_local() {
                        if l != *d && fn_owners.contains(&l) && !v.contains(&l) {
                            v.push(l);
                        }
                    }
                }
                for n in m.names {
                    if let Some(ls) = by_name.get(&n) {
                        for l in ls {
                            if *l != *d && !v.contains(l) {
                                v.push(*l);
                            }
                        }
                    }
                }
                deps.insert(*d, v);
            }
            fn root_fn(tcx: TyCtxt<'_>, mut d: LocalDefId) -> LocalDefId {
                while matches!(tcx.def_kind(d), DefKind::Closure) {
                    d = tcx.local_parent(d);
                }
                d
            }
            let mut order: Vec<LocalDefId> = Vec::new();
            let mut state: std::collections::HashMap<LocalDefId, u8> = std::collections::HashMap::new();
            fn visit(
                d: LocalDefId,
                deps: &std::collections::HashMap<LocalDefId, Vec<LocalDefId>>,
                state: &mut std::collections::HashMap<LocalDefId, u8>,
                order: &mut Vec<LocalDefId>,
            ) {
                if state.get(&d).copied().unwrap_or(0) != 0 {
                    return;
                }
                state.insert(d, 1);
                if let Some(v) = deps.get(&d) {
                    for x in v.clone() {
                        visit(x, deps, state, order);
                    }
                }
                state.insert(d, 2);
                order.push(d);
            }
            // keep the coarse order above as the tie-break: visit roots in that order
            let mut seen_roots: Vec<LocalDefId> = Vec::new();
            for d in &owners {
                let r = root_fn(tcx, *d);
                if !seen_roots.contains(&r) {
                    seen_roots.push(r);
                }
            }
            for r in &seen_roots {
                visit(*r, &deps, &mut state, &mut order);
            }
            let rank: std::collections::HashMap<LocalDefId, usize> = order.iter().enumerate().map(|(i, d)| (*d, i)).collect();
            owners.sort_by_key(|d| rank.get(&root_fn(tcx, *d)).copied().unwrap_or(usize::MAX));
        }
        // 2a. initialisers of named consts and statics (tables the rules read, e.g. a list of status codes): before
        //     anything else, because building a function body may const-evaluate (and steal) them
        let const_owners: Vec<LocalDefId> = tcx
            .hir_body_owners()
            .filter(|d| matches!(tcx.def_kind(*d), DefKind::Const { .. } | DefKind::AssocConst { .. } | DefKind::Static { .. }))
            .collect();
        let mut const_bodies: Vec<(LocalDefId, Body<'tcx>)> = Vec::new();
        for d in &const_owners {
            let steal = tcx.mir_built(*d);
            if !steal.is_stolen() {
                const_bodies.push((*d, steal.borrow().clone()));
            }
        }
        let mut bodies: Vec<(LocalDefId, Body<'tcx>)> = Vec::new();
        let mut stolen: Vec<J> = Vec::new();
        for d in &owners {
            let steal = tcx.mir_built(*d);
            if steal.is_stolen() {
                stolen.push(J::s(path_of(tcx, d.to_def_id())));
                continue;
            }
            bodies.push((*d, steal.borrow().clone()));
        }
        self.built_stolen = Some(J::Arr(stolen));
        // 2b. drop-elaborated MIR, taken right away: later queries (coroutine layout, lints) may
        //     run the optimisation pipeline on some bodies, which steals this stage
        let mut elab_bodies: Vec<(LocalDefId, Body<'tcx>)> = Vec::new();
        let mut elab_stolen = 0i64;
        // closures and coroutine bodies first (deepest first): elaborating a parent may ask for the
        // layout of a coroutine it creates, which optimises (and steals) the coroutine's body
        let mut elab_order = owners.clone();
        elab_order.sort_by_key(|d| {
            let depth = tcx.def_path(d.to_def_id()).data.len();
            std::cmp::Reverse((matches!(tcx.def_kind(*d), DefKind::Closure), depth))
        });
        // ... and, more generally, every body after the local closures / coroutines whose TYPE it mentions (a call of an
        // `async fn` helper puts that helper's coroutine type into the caller's locals, wherever the helper is declared):
        // depth-first over that relation, read from the built MIR cloned above
        {
            let mut deps: std::collections::HashMap<LocalDefId, Vec<LocalDefId>> = std::collections::HashMap::new();
            for (d, body) in &bodies {
                let mut v: Vec<LocalDefId> = Vec::new();
                for decl in body.local_decls.iter() {
                    for arg in decl.ty.walk() {
                        if let Some(t) = arg.as_type() {
                            let did = match t.kind() {
                                ty::Closure(did, _) | ty::Coroutine(did, _) | ty::CoroutineClosure(did, _) => Some(*did),
                                _ => None,
                            };
                            if let Some(l) = did.and_then(|x| x.as_local()) {
                                if l != *d && !v.contains(&l) {
                                    v.push(l);
                                }
                            }
                        }
                    }
                }
                // a call of a local `async fn` (or any local fn returning an opaque future) hides the coroutine behind an opaque type:
                // depend on the closure-like children of every local function this body calls
                for bbdata in body.basic_blocks.iter() {
                    if let Some(term) = &bbdata.terminator {
                        if let TerminatorKind::Call { func, .. } = &term.kind {
                            if let ty::FnDef(fdid, _) = func.ty(body, tcx).kind() {
                                if let Some(fl) = fdid.as_local() {
                                    for o in &owners {
                                        if matches!(tcx.def_kind(*o), DefKind::Closure) && tcx.local_parent(*o) == fl && *o != *d && !v.contains(o) {
                                            v.push(*o);
                                        }
                                    }
                                }
                            }
                        }
                    }
                }
                deps.insert(*d, v);
            }
            let mut ordered: Vec<LocalDefId> = Vec::new();
            let mut state: std::collections::HashMap<LocalDefId, u8> = std::collections::HashMap::new();
            fn visit(
                d: LocalDefId,
                deps: &std::collections::HashMap<LocalDefId, Vec<LocalDefId>>,
                state: &mut std::collections::HashMap<LocalDefId, u8>,
                ordered: &mut Vec<LocalDefId>,
            ) {
                if state.get(&d).copied().unwrap_or(0) != 0 {
                    return;
                }
                state.insert(d, 1);
                if let Some(v) = deps.get(&d) {
                    for x in v.clone() {
                        visit(x, deps, state, ordered);
                    }
                }
                state.insert(d, 2);
                ordered.push(d);
            }
            for d in &elab_order {
                visit(*d, &deps, &mut state, &mut ordered);
            }
            elab_order = ordered;
        }
        for d in &elab_order {
            let steal = tcx.mir_drops_elaborated_and_const_checked(*d);
            if steal.is_stolen() {
                elab_stolen += 1;
                continue;
            }
            elab_bodies.push((*d, steal.borrow().clone()));
        }
        self.elab_stolen = elab_stolen;
        // 3. HIR items
        self.items = Some(items_view(tcx));
        let mut fns = Vec::new();
        let proc_macro = tcx.crate_types().iter().any(|t| format!("{:?}", t) == "ProcMacro");
        for (d, body) in &bodies {
            if proc_macro {
                break;
            }
            fns.push(fn_view(tcx, *d, body));
        }
        self.built = Some(J::Arr(fns));
        let mut cfns = Vec::new();
        for (d, body) in &const_bodies {
            if proc_macro {
                break;
            }
            cfns.push(fn_view(tcx, *d, body));
        }
        self.consts = Some(J::Arr(cfns));
        let mut efns = Vec::new();
        for (d, body) in &elab_bodies {
            if proc_macro {
                break;
            }
            efns.push(fn_view(tcx, *d, body));
        }
        self.elab = Some(J::Arr(efns));
        rustc_driver::Compilation::Continue
    }

    fn after_analysis<'tcx>(
        &mut self,
        _c: &rustc_interface::interface::Compiler,
        tcx: TyCtxt<'tcx>,
    ) -> rustc_driver::Compilation {
        let Some(out_dir) = self.out_dir.clone() else {
            return rustc_driver::Compilation::Continue;
        };
        if skip_crate(&self.crate_name) || self.built.is_none() {
            return rustc_driver::Compilation::Continue;
        }
        let crate_types: Vec<J> = tcx
            .crate_types()
            .iter()
            .map(|t| J::s(format!("{:?}", t)))
            .collect();
        let doc = J::obj(vec![
            ("crate", J::s(&self.crate_name)),
            ("config", J::s(&self.config)),
            ("crate_types", J::Arr(crate_types)),
            ("ast", self.ast.take().unwrap_or(J::Null)),
            ("items", self.items.take().unwrap_or(J::Null)),
            ("built", self.built.take().unwrap_or(J::Null)),
            ("built_stolen", self.built_stolen.take().unwrap_or(J::Null)),
            ("consts", self.consts.take().unwrap_or(J::Null)),
            ("elab", self.elab.take().unwrap_or(J::Null)),
            ("elab_stolen", J::Int(self.elab_stolen as i128)),
        ]);
        let path = format!(
            "{}/{}.{}.{}.json",
            out_dir,
            self.crate_name,
            self.config,
            std::process::id()
        );
        let tmp = format!("{}.tmp", path);
        std::fs::write(&tmp, doc.to_string()).expect("cruxfacts: cannot write facts");
        std::fs::rename(&tmp, &path).expect("cruxfacts: cannot rename facts");
        rustc_driver::Compilation::Continue
    }
}

// ---------------------------------------------------------------------------------------
// helpers

thread_local! {
    static CRATE: std::cell::RefCell<String> = std::cell::RefCell::new(String::new());
}

/// `crate::a::b` -> `<crate name>::a::b`
fn fix_crate(s: String) -> String {
    if !s.contains("crate::") {
        return s;
    }
    let name = CRATE.with(|c| c.borrow().clone());
    let mut out = String::with_capacity(s.len() + 16);
    let b = s.as_bytes();
    let mut i = 0;
    while i < b.len() {
        if s[i..].starts_with("crate::")
            && (i == 0 || !(b[i - 1].is_ascii_alphanumeric() || b[i - 1] == b'_'))
        {
            out.push_str(&name);
            out.push_str("::");
            i += 7;
        } else {
            let ch = s[i..].chars().next().unwrap();
            out.push(ch);
            i += ch.len_utf8();
        }
    }
    out
}

fn path_of(tcx: TyCtxt<'_>, did: DefId) -> String {
    fix_crate(with_no_visible_paths!(with_no_trimmed_paths!(with_crate_prefix!(tcx.def_path_str(did)))))
}

fn ty_s(ty: Ty<'_>) -> String {
    fix_crate(with_no_visible_paths!(with_no_trimmed_paths!(with_crate_prefix!(ty.to_string()))))
}

fn pr_s(s: String) -> String {
    fix_crate(s)
}

fn span_j(tcx: TyCtxt<'_>, span: Span) -> J {
    let sm = tcx.sess.source_map();
    let cs = span.source_callsite();
    let lo = sm.lookup_char_pos(cs.lo());
    let hi = sm.lookup_char_pos(cs.hi());
    let file = match &lo.file.name {
        rustc_span::FileName::Real(r) => r
            .local_path()
            .map(|p| p.display().to_string())
            .unwrap_or_else(|| format!("{:?}", r)),
        other => format!("{:?}", other),
    };
    J::s(format!("{}:{}:{}", file, lo.line, hi.line))
}

fn line_of(tcx: TyCtxt<'_>, span: Span) -> i128 {
    let sm = tcx.sess.source_map();
    sm.lookup_char_pos(span.source_callsite().lo()).line as i128
}

/// names of the macros / desugarings this span comes from, innermost first
fn expansion_of(span: Span) -> Option<J> {
    if !span.from_expansion() {
        return None;
    }
    let mut names = Vec::new();
    for data in span.macro_backtrace() {
        let n = match data.kind {
            rustc_span::ExpnKind::Macro(_, sym) => sym.to_string(),
            rustc_span::ExpnKind::Desugaring(k) => format!("desugar:{:?}", k),
            rustc_span::ExpnKind::AstPass(k) => format!("astpass:{:?}", k),
            rustc_span::ExpnKind::Root => "root".to_string(),
        };
        names.push(J::s(n));
    }
    Some(J::Arr(names))
}

// ---------------------------------------------------------------------------------------
// items (HIR + types)

fn vis_s(tcx: TyCtxt<'_>, did: DefId) -> String {
    match tcx.visibility(did) {
        ty::Visibility::Public => "pub".to_string(),
        ty::Visibility::Restricted(m) => {
            if m.is_crate_root() {
                "crate".to_string()
            } else {
                format!("in:{}", path_of(tcx, m))
            }
        }
    }
}

fn items_view<'tcx>(tcx: TyCtxt<'tcx>) -> J {
    let mut adts = Vec::new();
    let mut impls = Vec::new();
    let mut statics = Vec::new();
    let mut consts = Vec::new();
    let mut traits = Vec::new();
    for id in tcx.hir_free_items() {
        let item = tcx.hir_item(id);
        let did = item.owner_id.to_def_id();
        match item.kind {
            rustc_hir::ItemKind::Struct(..)
            | rustc_hir::ItemKind::Enum(..)
            | rustc_hir::ItemKind::Union(..) => {
                let adt = tcx.adt_def(did);
                let mut variants = Vec::new();
                for (vi, v) in adt.variants().iter_enumerated() {
                    let mut fields = Vec::new();
                    for f in v.fields.iter() {
                        let raw = tcx.type_of(f.did).instantiate_identity();
                        let te = ty::TypingEnv::non_body_analysis(tcx, did);
                        let fty = match tcx.try_normalize_erasing_regions(te, raw) {
                            Ok(t) => t,
                            Err(_) => raw.skip_norm_wip(),
                        };
                        fields.push(J::obj(vec![
                            ("name", J::s(f.name.to_string())),
                            ("ty", J::s(ty_s(fty))),
                            ("vis", J::s(vis_s(tcx, f.did))),
                            ("adts", J::Arr(adts_in(tcx, fty).into_iter().map(J::s).collect())),
                        ]));
                    }
                    variants.push(J::obj(vec![
                        ("name", J::s(v.name.to_string())),
                        ("idx", J::Int(vi.as_u32() as i128)),
                        ("ctor", J::s(format!("{:?}", v.ctor_kind()))),
                        ("fields", J::Arr(fields)),
                    ]));
                }
                let generics: Vec<J> = tcx
                    .generics_of(did)
                    .own_params
                    .iter()
                    .map(|p| J::s(p.name.to_string()))
                    .collect();
                adts.push(J::obj(vec![
                    ("path", J::s(path_of(tcx, did))),
                    (
                        "kind",
                        J::s(if adt.is_enum() {
                            "enum"
                        } else if adt.is_union() {
                            "union"
                        } else {
                            "struct"
                        }),
                    ),
                    ("vis", J::s(vis_s(tcx, did))),
                    ("generics", J::Arr(generics)),
                    ("variants", J::Arr(variants)),
                    ("span", span_j(tcx, item.span)),
                    ("exp", expansion_of(item.span).unwrap_or(J::Null)),
                ]));
            }
            rustc_hir::ItemKind::Impl(imp) => {
                let trait_ref = tcx.impl_opt_trait_ref(did).map(|t| t.instantiate_identity().skip_norm_wip());
                let self_ty = tcx.type_of(did).instantiate_identity().skip_norm_wip();
                let self_adt = match self_ty.kind() {
                    ty::Adt(a, _) => J::s(path_of(tcx, a.did())),
                    _ => J::Null,
                };
                let mut assoc = Vec::new();
                for it in tcx.associated_items(did).in_definition_order() {
                    let mut a = J::obj(vec![
                        ("name", J::s(it.opt_name().map(|n| n.to_string()).unwrap_or_default())),
                        ("path", J::s(path_of(tcx, it.def_id))),
                        ("kind", J::s(format!("{:?}", it.kind).split('{').next().unwrap_or("").trim().to_string())),
                    ]);
                    if matches!(it.kind, ty::AssocKind::Type { .. }) && it.opt_name().is_some() {
                        let raw = tcx.type_of(it.def_id).instantiate_identity();
                        let te = ty::TypingEnv::non_body_analysis(tcx, did);
                        let aty = match tcx.try_normalize_erasing_regions(te, raw) {
                            Ok(t) => t,
                            Err(_) => raw.skip_norm_wip(),
                        };
                        a.push("ty", J::s(ty_s(aty)));
                        a.push("adts", J::Arr(adts_in(tcx, aty).into_iter().map(J::s).collect()));
                    }
                    assoc.push(a);
                }
                let is_unsafe = match imp.of_trait {
                    Some(t) => matches!(t.safety, rustc_hir::Safety::Unsafe),
                    None => false,
                };
                impls.push(J::obj(vec![
                    ("path", J::s(path_of(tcx, did))),
                    (
                        "trait",
                        match trait_ref {
                            Some(t) => J::s(path_of(tcx, t.def_id)),
                            None => J::Null,
                        },
                    ),
                    (
                        "trait_full",
                        match trait_ref {
                            Some(t) => J::s(pr_s(with_no_visible_paths!(with_no_trimmed_paths!(
                                with_crate_prefix!(t.print_only_trait_path().to_string())
                            )))),
                            None => J::Null,
                        },
                    ),
                    (
                        "trait_args",
                        match trait_ref {
                            Some(t) => J::Arr(t.args.iter().map(|a| J::s(pr_s(with_no_visible_paths!(with_no_trimmed_paths!(with_crate_prefix!(a.to_string())))))).collect()),
                            None => J::Null,
                        },
                    ),
                    ("self_ty", J::s(ty_s(self_ty))),
                    ("self_adt", self_adt),
                    ("derived", J::Bool(tcx.is_automatically_derived(did))),
                    ("unsafe", J::Bool(is_unsafe)),
                    ("items", J::Arr(assoc)),
                    ("span", span_j(tcx, item.span)),
                    ("exp", expansion_of(item.span).unwrap_or(J::Null)),
                ]));
            }
            rustc_hir::ItemKind::Static(..) => {
                let sty = tcx.type_of(did).instantiate_identity().skip_norm_wip();
                let te = ty::TypingEnv::non_body_analysis(tcx, did);
                statics.push(J::obj(vec![
                    ("path", J::s(path_of(tcx, did))),
                    ("ty", J::s(ty_s(sty))),
                    ("mutable", J::Bool(tcx.is_mutable_static(did))),
                    ("freeze", J::Bool(sty.is_freeze(tcx, te))),
                    ("span", span_j(tcx, item.span)),
                    ("exp", expansion_of(item.span).unwrap_or(J::Null)),
                ]));
            }
            rustc_hir::ItemKind::Const(..) => {
                let sty = tcx.type_of(did).instantiate_identity().skip_norm_wip();
                consts.push(J::obj(vec![
                    ("path", J::s(path_of(tcx, did))),
                    ("ty", J::s(ty_s(sty))),
                    ("span", span_j(tcx, item.span)),
                ]));
            }
            rustc_hir::ItemKind::Trait { .. } => {
                let mut assoc = Vec::new();
                for it in tcx.associated_items(did).in_definition_order() {
                    assoc.push(J::obj(vec![
                        ("name", J::s(it.opt_name().map(|n| n.to_string()).unwrap_or_default())),
                        ("path", J::s(path_of(tcx, it.def_id))),
                        ("default", J::Bool(it.defaultness(tcx).has_value())),
                    ]));
                }
                traits.push(J::obj(vec![
                    ("path", J::s(path_of(tcx, did))),
                    ("items", J::Arr(assoc)),
                    ("span", span_j(tcx, item.span)),
                ]));
            }
            _ => {}
        }
    }
    // unsafe blocks (HIR)
    let unsafe_blocks = unsafe_view::collect(tcx);
    J::obj(vec![
        ("adts", J::Arr(adts)),
        ("impls", J::Arr(impls)),
        ("statics", J::Arr(statics)),
        ("consts", J::Arr(consts)),
        ("traits", J::Arr(traits)),
        ("unsafe_blocks", unsafe_blocks),
    ])
}

/// def paths of every ADT mentioned anywhere inside a type
fn adts_in<'tcx>(tcx: TyCtxt<'tcx>, ty: Ty<'tcx>) -> Vec<String> {
    let mut out = Vec::new();
    for arg in ty.walk() {
        if let Some(t) = arg.as_type() {
            if let ty::Adt(a, _) = t.kind() {
                let p = path_of(tcx, a.did());
                if !out.contains(&p) {
                    out.push(p);
                }
            }
        }
    }
    out
}

mod unsafe_view {
    use super::*;
    use rustc_hir::intravisit::{self, Visitor};

    struct V<'tcx> {
        tcx: TyCtxt<'tcx>,
        out: Vec<J>,
    }
    impl<'tcx> Visitor<'tcx> for V<'tcx> {
        type NestedFilter = rustc_middle::hir::nested_filter::OnlyBodies;
        fn maybe_tcx(&mut self) -> Self::MaybeTyCtxt {
            self.tcx
        }
        fn visit_block(&mut self, b: &'tcx rustc_hir::Block<'tcx>) {
            if let rustc_hir::BlockCheckMode::UnsafeBlock(src) = b.rules {
                self.out.push(J::obj(vec![
                    ("span", span_j(self.tcx, b.span)),
                    ("user", J::Bool(matches!(src, rustc_hir::UnsafeSource::UserProvided))),
                    ("exp", expansion_of(b.span).unwrap_or(J::Null)),
                ]));
            }
            intravisit::walk_block(self, b);
        }
    }
    pub fn collect<'tcx>(tcx: TyCtxt<'tcx>) -> J {
        let mut v = V { tcx, out: Vec::new() };
        tcx.hir_visit_all_item_likes_in_crate(&mut v);
        J::Arr(v.out)
    }
}

// ---------------------------------------------------------------------------------------
// expanded AST: attributes of ADTs, variants and fields (serde helper attributes live here)

mod ast_view {
    use super::*;
    use rustc_ast::visit::{self, Visitor};
    use rustc_ast::{ast, ItemKind, VariantData};

    struct V {
        mods: Vec<String>,
        out: Vec<J>,
    }

    fn attrs_j(attrs: &[ast::Attribute]) -> J {
        let mut v = Vec::new();
        for a in attrs {
            if a.is_doc_comment() {
                continue;
            }
            v.push(J::s(rustc_ast_pretty::pprust::attribute_to_string(a)));
        }
        J::Arr(v)
    }

    fn fields_j(vd: &VariantData) -> J {
        let fields: &[ast::FieldDef] = match vd {
            VariantData::Struct { fields, .. } => fields,
            VariantData::Tuple(fields, _) => fields,
            VariantData::Unit(_) => &[],
        };
        J::Arr(
            fields
                .iter()
                .enumerate()
                .map(|(i, f)| {
                    J::obj(vec![
                        (
                            "name",
                            J::s(f.ident.map(|i| i.to_string()).unwrap_or_else(|| i.to_string())),
                        ),
                        ("attrs", attrs_j(&f.attrs)),
                        ("ty", J::s(rustc_ast_pretty::pprust::ty_to_string(&f.ty))),
                    ])
                })
                .collect(),
        )
    }

    impl<'ast> Visitor<'ast> for V {
        fn visit_item(&mut self, i: &'ast ast::Item) {
            match &i.kind {
                ItemKind::Mod(_, ident, _) => {
                    self.mods.push(ident.to_string());
                    visit::walk_item(self, i);
                    self.mods.pop();
                    return;
                }
                ItemKind::Struct(ident, _, vd) | ItemKind::Union(ident, _, vd) => {
                    self.out.push(J::obj(vec![
                        ("mod", J::s(self.mods.join("::"))),
                        ("name", J::s(ident.to_string())),
                        ("kind", J::s("struct")),
                        ("attrs", attrs_j(&i.attrs)),
                        ("fields", fields_j(vd)),
                    ]));
                }
                ItemKind::Enum(ident, _, def) => {
                    let variants = def
                        .variants
                        .iter()
                        .map(|v| {
                            J::obj(vec![
                                ("name", J::s(v.ident.to_string())),
                                ("attrs", attrs_j(&v.attrs)),
                                ("fields", fields_j(&v.data)),
                            ])
                        })
                        .collect();
                    self.out.push(J::obj(vec![
                        ("mod", J::s(self.mods.join("::"))),
                        ("name", J::s(ident.to_string())),
                        ("kind", J::s("enum")),
                        ("attrs", attrs_j(&i.attrs)),
                        ("variants", J::Arr(variants)),
                    ]));
                }
                ItemKind::Impl(imp) => {
                    // record hand-written vs derived impl headers as text (trait path + self type)
                    let tr = imp
                        .of_trait
                        .as_ref()
                        .map(|t| rustc_ast_pretty::pprust::path_to_string(&t.trait_ref.path));
                    self.out.push(J::obj(vec![
                        ("mod", J::s(self.mods.join("::"))),
                        ("kind", J::s("impl")),
                        ("trait", tr.map(J::s).unwrap_or(J::Null)),
                        ("self_ty", J::s(rustc_ast_pretty::pprust::ty_to_string(&imp.self_ty))),
                        ("attrs", attrs_j(&i.attrs)),
                    ]));
                }
                _ => {}
            }
            visit::walk_item(self, i);
        }
    }

    pub fn collect(tcx: TyCtxt<'_>) -> J {
        let resolver_and_krate = tcx.resolver_for_lowering().borrow();
        let krate = &*resolver_and_krate.1;
        let mut v = V { mods: Vec::new(), out: Vec::new() };
        visit::walk_crate(&mut v, krate);
        J::Arr(v.out)
    }
}

// ---------------------------------------------------------------------------------------
// MIR

struct Cx<'a, 'tcx> {
    tcx: TyCtxt<'tcx>,
    body: &'a Body<'tcx>,
    te: ty::TypingEnv<'tcx>,
    upvars: Vec<String>,
}

fn fn_view<'tcx>(tcx: TyCtxt<'tcx>, d: LocalDefId, body: &Body<'tcx>) -> J {
    let did = d.to_def_id();
    let kind = tcx.def_kind(d);
    let te = ty::TypingEnv::post_analysis(tcx, did);
    // captured variable names for closures / coroutines
    let mut upvars = Vec::new();
    let mut upvars_j = Vec::new();
    if matches!(kind, DefKind::Closure) {
        for cap in tcx.closure_captures(d) {
            let n = cap.to_symbol().to_string();
            upvars.push(n.clone());
            upvars_j.push(J::obj(vec![
                ("name", J::s(n)),
                ("by", J::s(format!("{:?}", cap.info.capture_kind))),
                ("ty", J::s(ty_s(cap.place.ty()))),
            ]));
        }
    }
    let cx = Cx { tcx, body, te, upvars };

    let mut assoc = J::Null;
    if matches!(kind, DefKind::AssocFn) {
        let parent = tcx.parent(did);
        if matches!(tcx.def_kind(parent), DefKind::Impl { .. }) {
            let self_ty = tcx.type_of(parent).instantiate_identity().skip_norm_wip();
            let tr = tcx.impl_opt_trait_ref(parent).map(|t| t.instantiate_identity().skip_norm_wip());
            assoc = J::obj(vec![
                ("impl", J::s(path_of(tcx, parent))),
                ("self_ty", J::s(ty_s(self_ty))),
                (
                    "self_adt",
                    match self_ty.kind() {
                        ty::Adt(a, _) => J::s(path_of(tcx, a.did())),
                        _ => J::Null,
                    },
                ),
                (
                    "trait",
                    match tr {
                        Some(t) => J::s(path_of(tcx, t.def_id)),
                        None => J::Null,
                    },
                ),
                ("derived", J::Bool(tcx.is_automatically_derived(parent))),
            ]);
        } else if matches!(tcx.def_kind(parent), DefKind::Trait) {
            assoc = J::obj(vec![
                ("impl", J::Null),
                ("self_ty", J::s("Self")),
                ("self_adt", J::Null),
                ("trait", J::s(path_of(tcx, parent))),
                ("default_method", J::Bool(true)),
            ]);
        }
    }

    // the enclosing non-closure item
    let mut root = did;
    while matches!(tcx.def_kind(root), DefKind::Closure) {
        root = tcx.parent(root);
    }
    let parent = if matches!(kind, DefKind::Closure) { J::s(path_of(tcx, tcx.parent(did))) } else { J::Null };

    let locals: Vec<J> = body
        .local_decls
        .iter()
        .map(|l| J::s(ty_s(l.ty)))
        .collect();
    let user_locals: Vec<J> = body
        .local_decls
        .iter_enumerated()
        .filter(|(_, l)| matches!(l.local_info, mir::ClearCrossCrate::Set(_)) && l.is_user_variable())
        .map(|(i, _)| J::Int(i.as_u32() as i128))
        .collect();
    let mut debug = Vec::new();
    for v in &body.var_debug_info {
        if let mir::VarDebugInfoContents::Place(p) = &v.value {
            debug.push(J::obj(vec![("name", J::s(v.name.to_string())), ("place", cx.place(*p))]));
        }
    }

    let mut blocks = Vec::new();
    for (bb, data) in body.basic_blocks.iter_enumerated() {
        let mut stmts = Vec::new();
        for st in &data.statements {
            if let Some(j) = cx.stmt(st) {
                stmts.push(j);
            }
        }
        let term = cx.term(data.terminator());
        blocks.push(J::obj(vec![
            ("i", J::Int(bb.as_u32() as i128)),
            ("cleanup", J::Bool(data.is_cleanup)),
            ("st", J::Arr(stmts)),
            ("t", term),
        ]));
    }

    J::obj(vec![
        ("path", J::s(path_of(tcx, did))),
        ("root", J::s(path_of(tcx, root))),
        ("parent", parent),
        ("kind", J::s(format!("{:?}", kind))),
        (
            "coroutine",
            match tcx.coroutine_kind(did) {
                Some(k) => J::s(format!("{:?}", k)),
                None => J::Null,
            },
        ),
        ("vis", if matches!(kind, DefKind::Fn | DefKind::AssocFn) { J::s(vis_s(tcx, did)) } else { J::Null }),
        ("assoc", assoc),
        ("span", span_j(tcx, body.span)),
        ("exp", expansion_of(body.span).unwrap_or(J::Null)),
        ("argc", J::Int(body.arg_count as i128)),
        ("locals", J::Arr(locals)),
        ("user_locals", J::Arr(user_locals)),
        ("debug", J::Arr(debug)),
        ("upvars", J::Arr(upvars_j)),
        ("blocks", J::Arr(blocks)),
    ])
}

impl<'a, 'tcx> Cx<'a, 'tcx> {
    fn place(&self, p: Place<'tcx>) -> J {
        let tcx = self.tcx;
        let mut pty = mir::PlaceTy::from_ty(self.body.local_decls[p.local].ty);
        let mut toks = Vec::new();
        for elem in p.projection.iter() {
            let tok = match elem {
                ProjectionElem::Deref => "*".to_string(),
                ProjectionElem::Field(f, _) => {
                    let name = match pty.ty.kind() {
                        ty::Adt(adt, _) => {
                            let vi = pty.variant_index.unwrap_or(rustc_abi::FIRST_VARIANT);
                            adt.variant(vi).fields[f].name.to_string()
                        }
                        ty::Closure(..) | ty::Coroutine(..) | ty::CoroutineClosure(..) => {
                            match self.upvars.get(f.as_usize()) {
                                Some(n) => format!("^{}", n),
                                None => format!("^{}", f.as_u32()),
                            }
                        }
                        _ => f.as_u32().to_string(),
                    };
                    format!(".{}", name)
                }
                ProjectionElem::Index(l) => format!("[_{}]", l.as_u32()),
                ProjectionElem::ConstantIndex { offset, from_end, .. } => {
                    format!("[c{}{}]", if from_end { "-" } else { "" }, offset)
                }
                ProjectionElem::Subslice { from, to, from_end } => {
                    format!("[{}..{}{}]", from, if from_end { "-" } else { "" }, to)
                }
                ProjectionElem::Downcast(name, vi) => match name {
                    Some(n) => format!("as {}", n),
                    None => format!("as #{}", vi.as_u32()),
                },
                ProjectionElem::OpaqueCast(_) => "opaque".to_string(),
                ProjectionElem::UnwrapUnsafeBinder(_) => "unbind".to_string(),
            };
            toks.push(J::s(tok));
            pty = pty.projection_ty(tcx, elem);
        }
        let mut fields = vec![("l", J::Int(p.local.as_u32() as i128)), ("p", J::Arr(toks)), ("t", J::s(ty_s(pty.ty)))];
        if let ty::Adt(a, _) = pty.ty.kind() {
            fields.push(("adt", J::s(path_of(tcx, a.did()))));
        }
        J::obj(fields)
    }

    fn operand(&self, o: &Operand<'tcx>) -> J {
        match o {
            Operand::Copy(p) => {
                let mut j = self.place(*p);
                j.push("o", J::s("copy"));
                j
            }
            Operand::Move(p) => {
                let mut j = self.place(*p);
                j.push("o", J::s("move"));
                j
            }
            Operand::Constant(c) => {
                let ty = c.const_.ty();
                if let ty::FnDef(did, args) = ty.kind() {
                    return J::obj(vec![
                        ("o", J::s("const")),
                        ("fn", J::s(path_of(self.tcx, *did))),
                        ("fnargs", self.generic_args(args)),
                    ]);
                }
                let mut fields = vec![
                    ("o", J::s("const")),
                    ("s", J::s(pr_s(with_no_visible_paths!(with_no_trimmed_paths!(with_crate_prefix!(format!("{}", c.const_)))))),
                    ),
                    ("t", J::s(ty_s(ty))),
                ];
                if let Some(sdid) = c.check_static_ptr(self.tcx) {
                    fields.push(("static", J::s(path_of(self.tcx, sdid))));
                }
                match ty.kind() {
                    ty::Bool | ty::Int(_) | ty::Uint(_) | ty::Char => {
                        if let Some(si) = c.const_.try_eval_scalar_int(self.tcx, self.te) {
                            let size = si.size();
                            let bits = si.to_bits(size);
                            let v: i128 = if matches!(ty.kind(), ty::Int(_)) {
                                size.sign_extend(bits) as i128
                            } else {
                                bits as i128
                            };
                            fields.push(("v", J::Int(v)));
                        }
                    }
                    _ => {}
                }
                J::obj(fields)
            }
            _ => J::obj(vec![("o", J::s("other")), ("s", J::s(format!("{:?}", o)))]),
        }
    }

    fn generic_args(&self, args: ty::GenericArgsRef<'tcx>) -> J {
        J::Arr(
            args.iter()
                .filter(|a| a.as_region().is_none())
                .map(|a| J::s(pr_s(with_no_visible_paths!(with_no_trimmed_paths!(with_crate_prefix!(a.to_string()))))))
                .collect(),
        )
    }

    fn stmt(&self, st: &mir::Statement<'tcx>) -> Option<J> {
        let tcx = self.tcx;
        let sp = st.source_info.span;
        let mut j = match &st.kind {
            StatementKind::Assign(b) => {
                let (place, rv) = &**b;
                J::obj(vec![("k", J::s("assign")), ("d", self.place(*place)), ("rv", self.rvalue(rv))])
            }
            StatementKind::SetDiscriminant { place, variant_index } => J::obj(vec![
                ("k", J::s("setdiscr")),
                ("d", self.place(**place)),
                ("variant", J::Int(variant_index.as_u32() as i128)),
            ]),
            StatementKind::Intrinsic(i) => J::obj(vec![("k", J::s("intrinsic")), ("s", J::s(format!("{:?}", i)))]),
            StatementKind::FakeRead(b) => {
                let (cause, place) = &**b;
                J::obj(vec![
                    ("k", J::s("fakeread")),
                    ("cause", J::s(format!("{:?}", cause).split('(').next().unwrap_or("").to_string())),
                    ("d", self.place(*place)),
                ])
            }
            StatementKind::PlaceMention(p) => J::obj(vec![("k", J::s("mention")), ("d", self.place(**p))]),
            StatementKind::StorageDead(l) => J::obj(vec![("k", J::s("dead")), ("l", J::Int(l.as_u32() as i128))]),
            _ => return None,
        };
        j.push("ln", J::Int(line_of(tcx, sp)));
        if let Some(e) = expansion_of(sp) {
            j.push("x", e);
        }
        Some(j)
    }

    fn rvalue(&self, rv: &Rvalue<'tcx>) -> J {
        let tcx = self.tcx;
        match rv {
            Rvalue::Use(op, ..) => J::obj(vec![("k", J::s("use")), ("a", self.operand(op))]),
            Rvalue::Repeat(op, _) => J::obj(vec![("k", J::s("repeat")), ("a", self.operand(op))]),
            Rvalue::Ref(_, bk, p) => J::obj(vec![
                ("k", J::s("ref")),
                ("mut", J::Bool(matches!(bk, mir::BorrowKind::Mut { .. }))),
                ("bk", J::s(format!("{:?}", bk).split(|c| c == '{' || c == '(').next().unwrap_or("").trim().to_string())),
                ("a", self.place(*p)),
            ]),
            Rvalue::RawPtr(_, p) => J::obj(vec![("k", J::s("rawptr")), ("a", self.place(*p))]),
            Rvalue::ThreadLocalRef(d) => J::obj(vec![("k", J::s("tls")), ("path", J::s(path_of(tcx, *d)))]),
            Rvalue::Cast(kind, op, ty) => {
                let from = op.ty(self.body, tcx);
                J::obj(vec![
                    ("k", J::s("cast")),
                    ("ck", J::s(format!("{:?}", kind).split('(').next().unwrap_or("").to_string())),
                    ("ckfull", J::s(format!("{:?}", kind))),
                    ("a", self.operand(op)),
                    ("from", J::s(ty_s(from))),
                    ("to", J::s(ty_s(*ty))),
                ])
            }
            Rvalue::BinaryOp(op, b) => {
                let (l, r) = &**b;
                J::obj(vec![
                    ("k", J::s("binop")),
                    ("op", J::s(format!("{:?}", op))),
                    ("a", self.operand(l)),
                    ("b", self.operand(r)),
                    ("lt", J::s(ty_s(l.ty(self.body, tcx)))),
                ])
            }
            Rvalue::UnaryOp(op, a) => J::obj(vec![
                ("k", J::s("unop")),
                ("op", J::s(format!("{:?}", op))),
                ("a", self.operand(a)),
                ("lt", J::s(ty_s(a.ty(self.body, tcx)))),
            ]),
            Rvalue::Discriminant(p) => J::obj(vec![("k", J::s("discr")), ("a", self.place(*p))]),
            Rvalue::CopyForDeref(p) => {
                let mut pj = self.place(*p);
                pj.push("o", J::s("copy"));
                J::obj(vec![("k", J::s("use")), ("a", pj), ("cfd", J::Bool(true))])
            }
            Rvalue::Aggregate(kind, ops) => {
                let ops_j = J::Arr(ops.iter().map(|o| self.operand(o)).collect());
                match &**kind {
                    AggregateKind::Adt(did, vi, args, _, active) => {
                        let adt = tcx.adt_def(*did);
                        let v = adt.variant(*vi);
                        let names: Vec<J> = match active {
                            Some(f) => vec![J::s(v.fields[*f].name.to_string())],
                            None => v.fields.iter().map(|f| J::s(f.name.to_string())).collect(),
                        };
                        J::obj(vec![
                            ("k", J::s("agg")),
                            ("ak", J::s("adt")),
                            ("adt", J::s(path_of(tcx, *did))),
                            ("variant", J::s(v.name.to_string())),
                            ("vidx", J::Int(vi.as_u32() as i128)),
                            ("targs", self.generic_args(args)),
                            ("fields", J::Arr(names)),
                            ("ops", ops_j),
                        ])
                    }
                    AggregateKind::Closure(did, _) | AggregateKind::Coroutine(did, _) | AggregateKind::CoroutineClosure(did, _) => {
                        let caps: Vec<J> = match did.as_local() {
                            Some(l) => tcx.closure_captures(l).iter().map(|c| J::s(c.to_symbol().to_string())).collect(),
                            None => vec![],
                        };
                        J::obj(vec![
                            ("k", J::s("agg")),
                            ("ak", J::s(match &**kind {
                                AggregateKind::Closure(..) => "closure",
                                AggregateKind::Coroutine(..) => "coroutine",
                                _ => "coroutine_closure",
                            })),
                            ("def", J::s(path_of(tcx, *did))),
                            ("fields", J::Arr(caps)),
                            ("ops", ops_j),
                        ])
                    }
                    AggregateKind::Tuple => J::obj(vec![("k", J::s("agg")), ("ak", J::s("tuple")), ("ops", ops_j)]),
                    AggregateKind::Array(_) => J::obj(vec![("k", J::s("agg")), ("ak", J::s("array")), ("ops", ops_j)]),
                    AggregateKind::RawPtr(..) => J::obj(vec![("k", J::s("agg")), ("ak", J::s("rawptr")), ("ops", ops_j)]),
                }
            }
            other => J::obj(vec![("k", J::s("other")), ("s", J::s(format!("{:?}", other)))]),
        }
    }

    fn bb(&self, b: BasicBlock) -> J {
        J::Int(b.as_u32() as i128)
    }

    fn unwind(&self, u: &UnwindAction) -> J {
        match u {
            UnwindAction::Cleanup(b) => self.bb(*b),
            _ => J::Null,
        }
    }

    fn callee(&self, func: &Operand<'tcx>, j: &mut J) {
        let tcx = self.tcx;
        let fty = func.ty(self.body, tcx);
        match fty.kind() {
            ty::FnDef(did, args) => {
                j.push("callee", J::s(path_of(tcx, *did)));
                j.push("targs", self.generic_args(args));
                j.push("ckind", J::s(format!("{:?}", tcx.def_kind(*did))));
                // the trait / impl the callee belongs to
                if let Some(parent) = tcx.opt_parent(*did) {
                    match tcx.def_kind(parent) {
                        DefKind::Trait => j.push("ctrait", J::s(path_of(tcx, parent))),
                        DefKind::Impl { .. } => {
                            let st = tcx.type_of(parent).instantiate_identity().skip_norm_wip();
                            if let ty::Adt(a, _) = st.kind() {
                                j.push("cself", J::s(path_of(tcx, a.did())));
                            }
                            if let Some(t) = tcx.impl_opt_trait_ref(parent) {
                                j.push("ctrait", J::s(path_of(tcx, t.skip_binder().def_id)));
                            }
                        }
                        _ => {}
                    }
                }
                // self type of the call (first generic arg for trait methods)
                if let Some(parent) = tcx.opt_parent(*did) {
                    if matches!(tcx.def_kind(parent), DefKind::Trait) && args.len() > 0 {
                        if let Some(t) = args[0].as_type() {
                            j.push("self_ty", J::s(ty_s(t)));
                        }
                    }
                }
                let resolved = std::panic::catch_unwind(std::panic::AssertUnwindSafe(|| {
                    ty::Instance::try_resolve(tcx, self.te, *did, args)
                }));
                if let Ok(Ok(Some(inst))) = resolved {
                    let rd = inst.def_id();
                    j.push("resolved", J::s(path_of(tcx, rd)));
                    let ik = format!("{:?}", inst.def);
                    j.push("rkind", J::s(ik.split(|c| c == '(' || c == '{').next().unwrap_or("").trim().to_string()));
                    if let Some(parent) = tcx.opt_parent(rd) {
                        if let DefKind::Impl { .. } = tcx.def_kind(parent) {
                            let st = tcx.type_of(parent).instantiate_identity().skip_norm_wip();
                            if let ty::Adt(a, _) = st.kind() {
                                j.push("rself", J::s(path_of(tcx, a.did())));
                            }
                        }
                    }
                }
            }
            _ => {
                j.push("callee", J::Null);
                j.push("fty", J::s(ty_s(fty)));
            }
        }
    }

    fn term(&self, t: &mir::Terminator<'tcx>) -> J {
        let tcx = self.tcx;
        let sp = t.source_info.span;
        let mut j = match &t.kind {
            TerminatorKind::Goto { target } => J::obj(vec![("k", J::s("goto")), ("tg", self.bb(*target))]),
            TerminatorKind::SwitchInt { discr, targets } => {
                let mut arms = Vec::new();
                for (v, b) in targets.iter() {
                    arms.push(J::Arr(vec![J::Int(v as i128), self.bb(b)]));
                }
                J::obj(vec![
                    ("k", J::s("switch")),
                    ("a", self.operand(discr)),
                    ("arms", J::Arr(arms)),
                    ("otherwise", self.bb(targets.otherwise())),
                ])
            }
            TerminatorKind::UnwindResume => J::obj(vec![("k", J::s("resume"))]),
            TerminatorKind::UnwindTerminate(_) => J::obj(vec![("k", J::s("terminate"))]),
            TerminatorKind::Return => J::obj(vec![("k", J::s("return"))]),
            TerminatorKind::Unreachable => J::obj(vec![("k", J::s("unreachable"))]),
            TerminatorKind::Drop { place, target, unwind, .. } => J::obj(vec![
                ("k", J::s("drop")),
                ("d", self.place(*place)),
                ("tg", self.bb(*target)),
                ("uw", self.unwind(unwind)),
            ]),
            TerminatorKind::Call { func, args, destination, target, unwind, fn_span, .. } => {
                let is_fndef = matches!(func.ty(self.body, tcx).kind(), ty::FnDef(..));
                let mut j = J::obj(vec![
                    ("k", J::s("call")),
                    ("f", if is_fndef { J::Null } else { self.operand(func) }),
                    ("args", J::Arr(args.iter().map(|a| self.operand(&a.node)).collect())),
                    ("d", self.place(*destination)),
                    ("tg", match target { Some(b) => self.bb(*b), None => J::Null }),
                    ("uw", self.unwind(unwind)),
                    ("fln", J::Int(line_of(tcx, *fn_span))),
                ]);
                self.callee(func, &mut j);
                j
            }
            TerminatorKind::TailCall { func, args, .. } => {
                let mut j = J::obj(vec![
                    ("k", J::s("tailcall")),
                    ("f", self.operand(func)),
                    ("args", J::Arr(args.iter().map(|a| self.operand(&a.node)).collect())),
                ]);
                self.callee(func, &mut j);
                j
            }
            TerminatorKind::Assert { cond, expected, msg, target, unwind } => J::obj(vec![
                ("k", J::s("assert")),
                ("a", self.operand(cond)),
                ("expected", J::Bool(*expected)),
                ("msg", J::s(format!("{:?}", msg).split('(').next().unwrap_or("").to_string())),
                ("tg", self.bb(*target)),
                ("uw", self.unwind(unwind)),
            ]),
            TerminatorKind::Yield { value, resume, drop, .. } => J::obj(vec![
                ("k", J::s("yield")),
                ("a", self.operand(value)),
                ("tg", self.bb(*resume)),
                ("dropbb", match drop { Some(b) => self.bb(*b), None => J::Null }),
            ]),
            TerminatorKind::CoroutineDrop => J::obj(vec![("k", J::s("coroutine_drop"))]),
            TerminatorKind::FalseEdge { real_target, imaginary_target } => J::obj(vec![
                ("k", J::s("falseedge")),
                ("tg", self.bb(*real_target)),
                ("imag", self.bb(*imaginary_target)),
            ]),
            TerminatorKind::FalseUnwind { real_target, unwind } => J::obj(vec![
                ("k", J::s("falseunwind")),
                ("tg", self.bb(*real_target)),
                ("uw", self.unwind(unwind)),
            ]),
            TerminatorKind::InlineAsm { .. } => J::obj(vec![("k", J::s("asm"))]),
        };
        j.push("ln", J::Int(line_of(tcx, sp)));
        if let Some(e) = expansion_of(sp) {
            j.push("x", e);
        }
        j
    }
}
