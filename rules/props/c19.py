"""C19 — time values convert exactly or are rejected explicitly (structural clauses)."""
import re

from rules.facts import norm, path_matches, origins, flows_to, call_matches, last_seg
from rules.common import CHAIN_OK, TERMINAL_OK, failure_reaches_error, is_fallible_ty, in_expansion

CONFIGS = {'quick': ['default', 'timechrono', 'controls'], 'thorough': ['allfeat']}
TECHNIQUE = 'MIR value-range shape rules (lossy casts, unchecked arithmetic, validating-constructor bypass, error-edge discipline) over crux_time::protocol in default and chrono configurations'
EXPLANATION = (
    'Decides structural necessary conditions of C19 on every path of every function of crux_time::protocol '
    '(default build and the chrono feature, which the test build never compiles): R19.a no integer cast that '
    'narrows or changes signedness and no float cast; R19.b no unchecked/wrapping/saturating integer arithmetic and '
    'every checked_* result reaches a panic or an Err; R19.c every construction of Instant is guarded by the '
    'nanos < 1e9 test or takes nanos from a source that guarantees the range; R19.d in every TryFrom impl each '
    'fallible intermediate result reaches the Err return. Decides these shapes, not numerical exactness of std/chrono. R19.b also rejects rounding / normalising third-party conversions (float routes, milli/microsecond accessors, chrono rounding, chrono\'s DateTime <-> SystemTime).')

INT_BITS = {'u8': 8, 'u16': 16, 'u32': 32, 'u64': 64, 'u128': 128, 'i8': 8, 'i16': 16, 'i32': 32, 'i64': 64,
            'i128': 128}


def int_info(t):
    """(signed, min_bits, max_bits) for an integer type name, None otherwise"""
    if t in INT_BITS:
        return (t[0] == 'i', INT_BITS[t], INT_BITS[t])
    if t == 'usize':
        return (False, 32, 64)
    if t == 'isize':
        return (True, 32, 64)
    return None


def cast_lossless(frm, to):
    a, b = int_info(frm), int_info(to)
    if a is None or b is None:
        return False
    fs, _, fmax = a
    ts, tmin, _ = b
    if fs == ts:
        return tmin >= fmax
    if not fs and ts:
        return tmin > fmax
    return False  # signed -> unsigned always loses the sign


NUMERIC_CASTS = ('IntToInt', 'FloatToInt', 'IntToFloat', 'FloatToFloat')
ARITH_OPS = ('Add', 'Sub', 'Mul', 'Shl', 'AddWithOverflow', 'SubWithOverflow', 'MulWithOverflow', 'AddUnchecked',
             'SubUnchecked', 'MulUnchecked', 'ShlUnchecked', 'Neg')
BAD_NUM_CALL = re.compile(r'^core::num::.*::((wrapping_|saturating_|overflowing_|unchecked_|unbounded_)\w+|unsigned_abs|abs|abs_diff|signum|'
                          r'cast_unsigned|cast_signed|rem_euclid|div_euclid|isqrt|ilog\w*|pow|next_power_of_two|reverse_bits|swap_bytes|rotate_\w+|'
                          r'from_(be|le|ne)_bytes|to_(be|le|ne)_bytes)$')
# clamping silently normalises an out-of-range value instead of rejecting it
CLAMP_CALL = re.compile(r'^core::cmp::Ord::(min|max|clamp)$|^core::cmp::(min|max)$')
CHECKED_CALL = re.compile(r'^core::num::.*::checked_\w+$')


def is_derive_generated(fn):
    x = fn.j.get('exp')
    return bool(x)


def lossy_casts(fn):
    for bb, idx, s in fn.stmts('assign'):
        rv = s['rv']
        if rv['k'] != 'cast' or rv['ck'] not in NUMERIC_CASTS:
            continue
        if in_expansion(s):
            continue
        if rv['ck'] == 'IntToInt' and cast_lossless(rv['from'], rv['to']):
            yield bb, s, True
        elif rv['ck'] == 'IntToInt' and (int_info(rv['from']) is None or int_info(rv['to']) is None):
            # bool/char/enum discriminant casts: not a value conversion of a time quantity
            yield bb, s, True
        else:
            yield bb, s, False


def origin_keys(fn, operand):
    return set(origin_key(o) for o in origins(fn, operand))


def unchecked_arith(fn):
    for bb, idx, s in fn.stmts('assign'):
        rv = s['rv']
        if in_expansion(s):
            continue
        if rv['k'] == 'binop' and rv['op'] in ARITH_OPS and int_info(rv['lt']) is not None:
            yield bb, 'operator %s on %s' % (rv['op'], rv['lt'])
        if rv['k'] == 'unop' and rv['op'] == 'Neg' and int_info(rv['lt']) is not None:
            yield bb, 'operator Neg on %s' % rv['lt']
        if rv['k'] == 'binop' and rv['op'] in ('Div', 'Rem', 'Shr', 'ShrUnchecked') and int_info(rv['lt']) is not None:
            # a quotient is exact only together with the matching remainder (a / c with a % c): alone it truncates
            twin = 'Rem' if rv['op'] == 'Div' else ('Div' if rv['op'] == 'Rem' else None)
            paired = twin is not None and any(s2['rv']['k'] == 'binop' and s2['rv']['op'] == twin and s2['rv']['b'].get('v') == rv['b'].get('v') and
                                              origin_keys(fn, s2['rv']['a']) == origin_keys(fn, rv['a']) for _, _, s2 in fn.stmts('assign'))
            if not paired:
                yield bb, 'operator %s on %s (truncates: no matching %s of the same value)' % (rv['op'], rv['lt'], twin or 'remainder')
    for bb, t in fn.calls():
        if t.get('x') and in_expansion(t):
            continue
        c = norm(t.get('callee') or '')
        if BAD_NUM_CALL.match(c):
            yield bb, 'call %s' % c
        elif CLAMP_CALL.match(c) and any(int_info(norm(x)) is not None for x in (t.get('targs') or [])):
            yield bb, 'call %s (clamps instead of rejecting)' % c
        else:
            why = normalising_call(t)
            if why:
                yield bb, 'call %s (%s)' % (c, why)
    for bb, what in carrying_on_instant(fn):
        yield bb, what


LOSSY_TIME_CALL = re.compile(
    r'^(core::time::Duration::(from_secs_f32|from_secs_f64|try_from_secs_f32|try_from_secs_f64|as_secs_f32|as_secs_f64|mul_f32|mul_f64|div_f32|div_f64|'
    r'as_millis|as_micros|subsec_millis|subsec_micros)|'
    r'chrono::round::(SubsecRound|DurationRound)::\w+|chrono::traits::Timelike::with_nanosecond|'
    r'chrono::datetime::DateTime::(timestamp_millis|timestamp_micros|timestamp_subsec_millis|timestamp_subsec_micros)|'
    r'chrono::time_delta::TimeDelta::(num_milliseconds|num_microseconds|subsec_millis|subsec_micros|abs))$')


CARRYING = re.compile(r'^chrono::time_delta::TimeDelta::(nanoseconds|microseconds|milliseconds|try_milliseconds)$')


def carrying_on_instant(fn):
    """in a conversion FROM an Instant (seconds + a sub-second part that must stay below one second) a carrying constructor applied to
    the sub-second part folds an out-of-range value into the seconds instead of rejecting it (the same constructor on a Duration's total
    nanoseconds is exact and is not reported)"""
    if len(fn.locals) < 2 or not norm(fn.locals[1]).lstrip('&').startswith('crux_time::protocol::instant::Instant'):
        return
    for bb, t in fn.calls():
        if CARRYING.match(norm(t.get('callee') or '')):
            yield bb, 'call %s (carries a sub-second part >= 1 s into the seconds instead of rejecting it)' % norm(t['callee'])


def normalising_call(t):
    """third-party conversions that round, truncate or silently normalise a time value (so that an unrepresentable input is not
    rejected): float routes, milli/microsecond accessors, chrono rounding, and chrono's DateTime -> SystemTime (which folds a leap
    second's sub-second part >= 1e9 into the seconds)"""
    c = norm(t.get('callee') or '')
    if LOSSY_TIME_CALL.match(c):
        return 'rounds / truncates the value'
    ta = [norm(x) for x in (t.get('targs') or [])]
    if c in ('core::convert::From::from', 'core::convert::Into::into') and len(ta) >= 2:
        pair = set(x.split('<')[0] for x in ta[:2])
        if pair == {'std::time::SystemTime', 'chrono::datetime::DateTime'}:
            return 'chrono\'s DateTime <-> SystemTime conversion normalises a leap second instead of rejecting it'
    return None


NANOS_LIMIT = 1_000_000_000


def nanos_guard_ok(fn, agg_bb, nanos_operand):
    """the aggregate in agg_bb is reachable only along the in-range edge of a comparison of the same value
    with 1e9"""
    src = origins(fn, nanos_operand)
    src_keys = set(origin_key(o) for o in src)
    for bb, t in fn.terms('switch'):
        for o in origins(fn, t['a']):
            if o.kind != 'rvalue' or o.stmt['rv']['k'] != 'binop':
                continue
            rv = o.stmt['rv']
            op = rv['op']
            if op not in ('Ge', 'Gt', 'Lt', 'Le'):
                continue
            ak = set(origin_key(x) for x in origins(fn, rv['a']))
            bk = set(origin_key(x) for x in origins(fn, rv['b']))
            ac = const_val(fn, rv['a'])
            bc = const_val(fn, rv['b'])
            inrange_when = None  # value of the comparison when nanos is in range
            if ak & src_keys and bc is not None:
                if op == 'Ge' and bc == NANOS_LIMIT:
                    inrange_when = False
                elif op == 'Lt' and bc == NANOS_LIMIT:
                    inrange_when = True
                elif op == 'Gt' and bc == NANOS_LIMIT - 1:
                    inrange_when = False
                elif op == 'Le' and bc == NANOS_LIMIT - 1:
                    inrange_when = True
            elif bk & src_keys and ac is not None:
                if op == 'Le' and ac == NANOS_LIMIT:
                    inrange_when = False
                elif op == 'Gt' and ac == NANOS_LIMIT:
                    inrange_when = True
                elif op == 'Lt' and ac == NANOS_LIMIT - 1:
                    inrange_when = False
                elif op == 'Ge' and ac == NANOS_LIMIT - 1:
                    inrange_when = True
            if inrange_when is None:
                continue
            false_bb = [a[1] for a in t['arms'] if a[0] == 0]
            true_bb = t['otherwise']
            if not false_bb:
                continue
            good = true_bb if inrange_when else false_bb[0]
            bad = false_bb[0] if inrange_when else true_bb
            # aggregate must not be reachable once the in-range edge is removed
            r = fn.reachable([0], removed_edges=[(bb, good)])
            if agg_bb not in r and good != bad:
                return True
    return False


def origin_key(o):
    if o.kind == 'arg':
        return ('arg', o.n, tuple(o.suffix))
    if o.kind == 'call':
        return ('call', o.bb, tuple(o.suffix))
    if o.kind in ('rvalue', 'agg'):
        return (o.kind, o.bb, id(o.stmt), tuple(o.suffix))
    if o.kind == 'const':
        return ('const', o.s)
    return (o.kind,)


def const_val(fn, operand):
    vals = set()
    for o in origins(fn, operand, through_casts=True):
        if o.kind == 'const' and o.v is not None:
            vals.add(o.v)
        else:
            return None
    if len(vals) == 1:
        return vals.pop()
    return None


NANOS_SAFE_SOURCES = ['core::time::Duration::subsec_nanos']


def scope_fns(crate):
    return [f for f in crate.built if '::protocol::' in f.npath and not is_derive_generated(f)]


def check_crate(rep, crate, cfg, counts):
    fns = scope_fns(crate)
    for fn in fns:
        site = '%s[%s]' % (fn.kpath, cfg)
        # R19.a
        for bb, s, ok in lossy_casts(fn):
            rv = s['rv']
            key = '%s|%s->%s' % (fn.kpath, rv['from'], rv['to'])
            counts['a'] += 1
            rep.expect('R19.a', ok, key, 'cast %s -> %s is value-preserving' % (rv['from'], rv['to']),
                       'lossy cast `%s as %s` at %s' % (rv['from'], rv['to'], fn.where(bb)), site=key + '@' + cfg)
        # R19.b
        bad = list(unchecked_arith(fn))
        for bb, what in bad:
            rep.bad('R19.b', '%s|%s' % (fn.kpath, what), 'unchecked arithmetic (%s) at %s' % (what, fn.where(bb)))
        if not bad:
            rep.ok('R19.b', site, 'no primitive integer +,-,*,<< and no wrapping/saturating/overflowing/unchecked, sign-discarding or clamping call')
        for bb, t in fn.calls():
            c = norm(t.get('callee') or '')
            if CHECKED_CALL.match(c):
                ok, why = failure_reaches_error(fn, t['d']['l'], allow_panic=True)
                rep.expect('R19.b', ok, '%s|%s' % (fn.kpath, last_seg(c)),
                           '%s: None reaches a panic or an Err' % last_seg(c),
                           '%s result mishandled at %s: %s' % (last_seg(c), fn.where(bb), why),
                           site='%s|%s@%s' % (fn.kpath, last_seg(c), cfg))
        # R19.d
        if path_matches(fn.assoc.get('trait'), 'core::convert::TryFrom') or \
                (fn.kind == 'Closure' and 'TryFrom' in (fn.root or '')):
            for bb, t in fn.calls():
                if not is_fallible_ty(t['d']['t']):
                    continue
                if call_matches(t, CHAIN_OK + ['core::ops::try_trait::Try::from_output']):
                    continue
                if t.get('x') and in_expansion(t):
                    continue
                c = norm(t.get('callee') or '?')
                ok, why = failure_reaches_error(fn, t['d']['l'], allow_panic=False)
                rep.expect('R19.d', ok, '%s|%s' % (fn.kpath, last_seg(c)),
                           'failure of %s reaches the Err return' % last_seg(c),
                           'in %s the failure of %s does not reach the Err return: %s' % (fn.where(bb), c, why),
                           site='%s|%s@%s' % (fn.kpath, last_seg(c), cfg))
            for bb, t in fn.calls('core::option::Option::unwrap_or', 'core::option::Option::unwrap_or_else',
                                  'core::option::Option::unwrap_or_default', 'core::result::Result::unwrap_or',
                                  'core::result::Result::unwrap_or_else', 'core::result::Result::unwrap_or_default'):
                rep.bad('R19.d', '%s|%s' % (fn.kpath, last_seg(t['callee'])),
                        'fallible conversion substitutes a default at %s' % fn.where(bb))
    # R19.c: constructions of Instant anywhere in the crate (fields are pub(crate))
    for fn in crate.built:
        if is_derive_generated(fn):
            continue
        for bb, idx, s in fn.stmts('assign'):
            rv = s['rv']
            if rv['k'] != 'agg' or rv.get('ak') != 'adt' or not path_matches(rv['adt'], 'protocol::instant::Instant'):
                continue
            names = rv['fields']
            if 'nanos' not in names:
                rep.bad('R19.c', '%s|no-nanos-field' % fn.kpath, 'Instant no longer has a `nanos` field; rule needs review')
                continue
            nop = rv['ops'][names.index('nanos')]
            counts['c'] += 1
            key = '%s|Instant{..}' % fn.kpath
            if nanos_guard_ok(fn, bb, nop):
                rep.ok('R19.c', key + '@' + cfg, 'construction is reachable only along the nanos < 1_000_000_000 edge')
                continue
            srcs = origins(fn, nop)
            if srcs and all(o.kind == 'call' and call_matches(o.term, NANOS_SAFE_SOURCES) and not o.suffix for o in srcs):
                rep.ok('R19.c', key + '@' + cfg, 'nanos comes from core::time::Duration::subsec_nanos (always < 1e9)')
                continue
            desc = ', '.join(sorted(set(
                (norm(o.term.get('callee') or '?') if o.kind == 'call' else o.kind) for o in srcs))) or 'unknown'
            rep.bad('R19.c', key, 'Instant built at %s with nanos from [%s], not guarded by the nanos < 1e9 test'
                    % (fn.where(bb), desc), site=key + '@' + cfg)
    # derived Deserialize bypasses the validating constructor
    inst = crate.ast_adt('Instant', 'protocol::instant')
    if inst is None:
        rep.missing('R19.c', 'AST of crux_time::protocol::instant::Instant')
    else:
        attrs = ' '.join(inst['attrs'])
        derived_de = any(i['derived'] and path_matches(i['trait'], 'serde::de::Deserialize')
                         and path_matches(i['self_adt'], 'protocol::instant::Instant') for i in crate.impls)
        validated = ('try_from' in attrs) or ('deserialize_with' in ' '.join(
            ' '.join(f['attrs']) for f in inst.get('fields', [])))
        key = 'crux_time::protocol::instant::Instant|derived-deserialize-unvalidated'
        if derived_de and not validated:
            rep.bad('R19.c', key, 'derived Deserialize builds Instant from the wire without the nanos < 1e9 test '
                    '(no serde try_from / deserialize_with)', site=key + '@' + cfg)
        else:
            rep.ok('R19.c', key + '@' + cfg, 'Deserialize is validated or hand-written')


def check(ctx, rep):
    rep.rule('R19.a', 'no integer cast that narrows or changes signedness, and no float cast, in crux_time::protocol', floor=2)
    rep.rule('R19.b', 'no unchecked integer arithmetic in crux_time::protocol; checked_* results reach a panic or Err', floor=5)
    rep.rule('R19.c', 'every construction of Instant is guarded by nanos < 1e9 or takes nanos from a range-safe source', floor=3)
    rep.rule('R19.d', 'in every TryFrom impl each fallible intermediate reaches the Err return', floor=3)
    counts = {'a': 0, 'c': 0}
    for cfg in ['default', 'timechrono'] + (['allfeat'] if ctx.has('allfeat') else []):
        crate = ctx.crate(cfg, 'crux_time')
        if crate is None:
            rep.missing('R19.a', 'crux_time facts in configuration %s' % cfg)
            continue
        check_crate(rep, crate, cfg, counts)
    # the chrono module must really have been analysed
    chrono = ctx.crate('timechrono', 'crux_time')
    n = len([f for f in chrono.built if '::protocol::chrono::' in f.npath]) if chrono else 0
    rep.expect('R19.d', n >= 4, 'chrono-module-analysed', '%d functions of protocol::chrono analysed' % n,
               'protocol::chrono not present in the chrono configuration (%d functions)' % n)
    controls(ctx, rep)
    rep.assume('std::time::Duration::{as_secs,subsec_nanos,from_nanos,new}, SystemTime arithmetic and chrono '
               'from_timestamp/num_nanoseconds/timestamp compute what they document (trusted)')
    rep.assume('rustc MIR construction: every `as` is an Rvalue::Cast, every primitive arithmetic operator a BinaryOp')


def controls(ctx, rep):
    c = ctx.crate('controls', 'crux_verif_controls')
    if c is None:
        rep.control('controls crate analysed', False)
        return

    def f(name):
        fs = c.find('c19::' + name)
        return fs[0] if fs else None
    fn = f('lossy_cast')
    rep.control('R19.a fires on `u128 as u64`', fn is not None and any(not ok for _, _, ok in lossy_casts(fn)))
    fn = f('sign_cast')
    rep.control('R19.a fires on `i64 as u64`', fn is not None and any(not ok for _, _, ok in lossy_casts(fn)))
    fn = f('widening_cast')
    rep.control('R19.a quiet on `u32 as u64`', fn is not None and all(ok for _, _, ok in lossy_casts(fn))
                and len(list(lossy_casts(fn))) == 1)
    fn = f('plain_mul')
    rep.control('R19.b fires on `a * b`', fn is not None and len(list(unchecked_arith(fn))) >= 1)
    fn = f('wrapping')
    rep.control('R19.b fires on wrapping_mul', fn is not None and len(list(unchecked_arith(fn))) >= 1)
    fn = f('checked_defaulted')
    ok = None
    if fn is not None:
        for bb, t in fn.calls():
            if CHECKED_CALL.match(norm(t.get('callee') or '')):
                ok, _ = failure_reaches_error(fn, t['d']['l'], allow_panic=True)
    rep.control('R19.b fires on checked_mul(..).unwrap_or(..)', ok is False)
    fn = f('checked_expected')
    ok = None
    if fn is not None:
        for bb, t in fn.calls():
            if CHECKED_CALL.match(norm(t.get('callee') or '')):
                ok, _ = failure_reaches_error(fn, t['d']['l'], allow_panic=True)
    rep.control('R19.b quiet on checked_mul(..).expect(..)', ok is True)
    # guard recogniser
    for name, want in (('guarded_build', True), ('unguarded_build', False), ('wrong_side_guard', False)):
        fn = f(name)
        got = None
        if fn is not None:
            for bb, idx, s in fn.stmts('assign'):
                rv = s['rv']
                if rv['k'] == 'agg' and rv.get('ak') == 'adt' and path_matches(rv['adt'], 'c19::Inst'):
                    got = nanos_guard_ok(fn, bb, rv['ops'][rv['fields'].index('nanos')])
        rep.control('R19.c guard recogniser on %s is %s' % (name, want), got is want, 'got %r' % got)


def thorough_extra(ctx, rep):
    from rules import witness
    witness.report(rep, 'W19')
