"""C04 — command combinators and builder chains mean what they say (the structural clauses only)."""
import re

from rules.facts import norm, path_matches, origins, flows_to, call_matches, last_seg
from rules.props import c01

CONFIGS = {'quick': ['default', 'controls'], 'thorough': []}
TECHNIQUE = ('static analysis: exact-mapping rule on the CommandOutput matches of map_effect/map_event, await-dominance rule for '
             '`then`, every-sub-command-is-hosted rule plus the shared linear-resource rule for and/all/then/from_iter')
EXPLANATION = (
    'Only three clauses of C04 are visible in the shape of the code and are decided: R04.a in map_effect the Effect arm calls the '
    'user function exactly once on the payload and re-wraps the result as Effect while the Event arm is re-wrapped untouched (mirror '
    'image for map_event); R04.b in `then` the call that hosts `other` is dominated by the Ready edge of the await of the future '
    'hosting `self`; R04.c in and/all/then/from_iter every sub-command captured by the task closure flows into host(..), each host '
    'call forwards into the parent\'s own effect and event senders, and no Command value is dropped outside the exception table. '
    'Equivalence to the reference semantics, the algebraic laws and the behaviour of then_request/then_stream under every resolution '
    'order quantify over expressions x schedules and are NOT decided.')

HOST = 'crux_core::command::stream::CommandStreamExt::host'
POLL = 'core::future::future::Future::poll'


def ready_edge_of_await(fn, fut_call_bb):
    """the edge taken when the await of the future created at fut_call_bb completes"""
    for bb, t in fn.calls(POLL):
        if any(o.kind == 'call' and o.bb == fut_call_bb for o in origins(fn, t['args'][0])):
            res = t['d']['l']
            for sb, st in fn.terms('switch'):
                for o in origins(fn, st['a']):
                    if o.kind == 'rvalue' and o.stmt['rv']['k'] == 'discr' and o.stmt['rv']['a']['l'] == res:
                        for v, b in st['arms']:
                            if v == 0:
                                return (sb, b)
    return None


def upvar_names(fn, operand):
    out = set()
    for o in origins(fn, operand):
        if o.kind == 'arg' and o.n == 1:
            for tok in o.suffix:
                if tok.startswith('.^'):
                    out.add(tok[2:])
    return out


def check(ctx, rep):
    rep.rule('R04.a', 'map_effect / map_event apply the user function exactly once to their own kind and leave the other kind untouched', floor=4)
    rep.rule('R04.b', '`then` hosts the second command only after the await of the first completed', floor=1)
    rep.rule('R04.c', 'and/all/then/from_iter host every sub-command on the parent\'s channels; no Command is dropped', floor=5)
    core = ctx.crate('default', 'crux_core')
    if core is None:
        rep.missing('R04.a', 'crux_core facts')
        return
    # R04.a
    for name, own, other in (('map_effect', 'Effect', 'Event'), ('map_event', 'Event', 'Effect')):
        fs = [f for f in core.built if f.kind == 'Closure' and (f.root or '').endswith('Command::<Effect, Event>::' + name)
              and c01.command_output_matches(f)]
        if len(fs) != 1:
            rep.missing('R04.a', 'the CommandOutput match inside Command::%s' % name)
            continue
        f = fs[0]
        scrut = c01.command_output_matches(f)[0]
        user_calls = [(bb, t) for bb, t in f.calls('core::ops::function::Fn::call', 'core::ops::function::FnMut::call_mut',
                                                   'core::ops::function::FnOnce::call_once')]
        own_ok = False
        if len(user_calls) == 1:
            bb, t = user_calls[0]
            arg_from_own = False
            for o in origins(f, t['args'][1]):
                if o.kind == 'agg' and o.stmt['rv'].get('ak') == 'tuple':
                    arg_from_own = c01._moves_from(f, o.stmt['rv']['ops'][0], scrut, own)
            rewrapped = any(s['rv']['variant'] == own and any(o.kind == 'call' and o.bb == bb for o in origins(f, s['rv']['ops'][0]))
                            for b2, i2, s in f.stmts('assign') if s['rv']['k'] == 'agg' and
                            path_matches(s['rv'].get('adt'), 'crux_core::command::stream::CommandOutput'))
            own_ok = arg_from_own and rewrapped and not f.in_cycle(bb)
        rep.expect('R04.a', own_ok, '%s|%s-arm' % (name, own), 'map is called once with the %s payload and its result re-wrapped as %s' % (own, own),
                   'Command::%s: the %s arm does not call the user function exactly once on the payload and re-wrap the result' % (name, own))
        untouched = any(s['rv']['variant'] == other and c01._moves_from(f, s['rv']['ops'][0], scrut, other)
                        for b2, i2, s in f.stmts('assign') if s['rv']['k'] == 'agg' and
                        path_matches(s['rv'].get('adt'), 'crux_core::command::stream::CommandOutput'))
        rep.expect('R04.a', untouched, '%s|%s-arm' % (name, other), 'the %s payload is re-wrapped untouched' % other,
                   'Command::%s: the %s arm no longer passes its payload through untouched' % (name, other))

    # R04.b / R04.c
    def host_sites(fn_name):
        out = []
        for f in core.built:
            if f.kind != 'Closure' or not re.search(r'Command::<Effect, Event>::%s(::|$)' % re.escape(fn_name), f.root or '') \
                    and not (fn_name == 'from_iter' and 'FromIterator' in (f.root or '')):
                continue
            for bb, t in f.calls(HOST):
                out.append((f, bb, t))
        return out
    then_sites = host_sites('then')
    if len(then_sites) != 2:
        rep.bad('R04.b', 'then|hosts', 'Command::then: expected two host(..) calls, found %d' % len(then_sites))
    else:
        f = then_sites[0][0]
        by_cmd = {}
        for g, bb, t in then_sites:
            for n in upvar_names(g, t['args'][0]):
                by_cmd[n] = (bb, t)
        if set(by_cmd) != {'self', 'other'}:
            rep.bad('R04.b', 'then|operands', 'Command::then hosts %s, expected self and other' % sorted(by_cmd))
        else:
            edge = ready_edge_of_await(f, by_cmd['self'][0])
            ok = edge is not None and by_cmd['other'][0] not in f.reachable([0], removed_edges=[edge]) and \
                by_cmd['other'][0] in f.reachable([0])
            rep.expect('R04.b', ok, 'then|sequencing', 'host(other) is reachable only through the Ready edge of awaiting host(self)',
                       'Command::then can start hosting `other` before the future hosting `self` has completed')
    for fn_name, want in (('and', {'other'}), ('all', {'c'}), ('then', {'self', 'other'}), ('from_iter', None)):
        sites = host_sites(fn_name)
        hosted = set()
        chan_ok = True
        for g, bb, t in sites:
            hosted |= upvar_names(g, t['args'][0]) or {'<param>'}
            eff = c01.field_of_receiver(g, t['args'][1], through_clone=True)
            evt = c01.field_of_receiver(g, t['args'][2], through_clone=True)
            if not any('effects' in x for x in eff) or not any('events' in x for x in evt) or any('events' in x for x in eff):
                chan_ok = False
        key = 'hosted|%s' % fn_name
        if fn_name == 'from_iter':
            # from_iter delegates to Command::all
            fs = [f for f in core.built if f.name == 'from_iter' and path_matches(f.assoc.get('trait'), 'core::iter::traits::collect::FromIterator')
                  and path_matches(f.assoc.get('self_adt'), 'crux_core::command::Command')]
            ok = len(fs) == 1 and any(True for _ in fs[0].calls('crux_core::command::Command::all'))
            rep.expect('R04.c', ok, key, 'FromIterator delegates to Command::all', 'Command::from_iter no longer delegates to Command::all')
            continue
        rep.expect('R04.c', bool(sites) and (want is None or want <= hosted) and chan_ok, key,
                   'sub-commands %s are hosted on the parent\'s effect and event senders' % sorted(hosted),
                   'Command::%s: hosted sub-commands %s (expected %s); channels wired to (effects, events): %s' % (
                       fn_name, sorted(hosted), sorted(want or []), chan_ok))
    # Command::all iterates its argument directly (no skip/take/filter in between), and spawns inside the loop
    fs = [f for f in core.built if f.kind == 'AssocFn' and f.name == 'all' and path_matches(f.assoc.get('self_adt'), 'crux_core::command::Command')]
    if len(fs) != 1:
        rep.missing('R04.c', 'Command::all')
    else:
        f = fs[0]
        nexts = [(bb, t) for bb, t in f.calls('core::iter::traits::iterator::Iterator::next')]
        spawns = [(bb, t) for bb, t in f.calls('crux_core::command::Command::spawn')]
        direct = False
        if len(nexts) == 1:
            src = origins(f, nexts[0][1]['args'][0], extra_identity=[])
            direct = bool(src) and all(o.kind == 'arg' and o.n == 1 and not [s for s in o.steps if s[0] == 'idcall' and s[2] != 'into_iter']
                                       for o in src)
        in_loop = len(spawns) == 1 and len(nexts) == 1 and f.in_cycle(spawns[0][0]) and \
            all(c01._moves_from(f, {'l': o.stmt['rv']['ops'][0]['l'], 'p': o.stmt['rv']['ops'][0].get('p', [])}, nexts[0][1]['d']['l'], 'Some')
                for o in origins(f, spawns[0][1]['args'][1]) if o.kind == 'agg' and o.stmt['rv'].get('ak') == 'closure') if spawns else False
        rep.expect('R04.c', direct and in_loop, 'all|every-item', 'every item of the argument iterator is spawned (no adaptor, spawn inside the loop)',
                   'Command::all does not spawn every item of its argument (iterator adapted or spawn outside the loop)')
    counts = c01.check_linear(rep, core, 'default', rid='R04.c', only=lambda f, ty: 'crux_core::command::Command<' in ty)
    rep.assume('futures StreamExt::forward/map and CommandSink deliver every item exactly once in order (checked for CommandSink in C01)')
    rep.assume('NOT DECIDED: reference semantics, algebraic laws, then_request/then_stream chaining under every resolution order')
