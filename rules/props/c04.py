"""C04 — command combinators and builder chains mean what they say (the structural clauses only)."""
import re

from rules.facts import norm, path_matches, origins, flows_to, call_matches, last_seg
from rules.props import c01

CONFIGS = {'quick': ['default', 'controls'], 'thorough': []}
TECHNIQUE = ('static analysis: exact-mapping rule on the CommandOutput matches of map_effect/map_event, await-dominance rule for '
             '`then`, every-sub-command-is-hosted rule plus the shared linear-resource rule for and/all/then/from_iter')
EXPLANATION = (
    'Only three clauses of C04 are visible in the shape of the code and are decided: R04.a in map_effect the Effect arm calls the '
    'user function exactly once on the payload and re-wraps the result as Effect while the Event arm is re-wrapped untouched (mirror '
    'image for map_event); R04.b in `then` the call that hosts `other` is dominated by the Ready edge of the await of the future '
    'hosting `self`; R04.c in and/all/then/from_iter every sub-command captured by the task closure flows into host(..), each host '
    'call forwards into the parent\'s own effect and event senders, and no Command value is dropped outside the exception table; R04.d-f builder '
    'chains contain no lossy adaptor and no concurrency limit, then_send emits one event per output, each stage feeds the item once to the '
    'user callback; R04.g crux-provided futures keep the poll\'s waker; R04.h done / event / notify_shell / request_from_shell / '
    'stream_from_shell make exactly the one context call they stand for, on every path, with their own argument; R04.i every task leaving a command wakes its join handles. '
    'Equivalence to the reference semantics, the algebraic laws and the behaviour of then_request/then_stream under every resolution '
    'order quantify over expressions x schedules and are NOT decided. R04.j a hosted command returns Pending only after both output queues were found empty and ends only when done (shared with C07 R07.e). R04.n the body of a combinator never drives an operand (is_done, effects, events, settle, poll_next): composing runs nothing. R04.m the closure given to the `new` of a builder only builds the future: no notify_shell, send_event or spawn (which act at the call) in its own body, in crux_core and the capability crates. R04.l each chaining method is built on the adaptor that gives its documented order, judged over its whole family (body, closures, builder functions it calls): a request chained to a request or to a stream goes through a sequential stage (`then`) and no concurrent or flattening adaptor; streams chained to a stream are flattened concurrently (`flatten_unordered`) and never serially. R04.o adaptors that keep clones of the task waker are used only where tabled (shared with C07 R07.i): `then` / `all` finishing after a DROPPED request rests on the eviction test.')

HOST = 'crux_core::command::stream::CommandStreamExt::host'
POLL = 'core::future::future::Future::poll'


# adaptors that drop, duplicate, reorder, batch or truncate items: none may sit between a stage and its consumer
LOSSY_ADAPTORS = {'filter', 'filter_map', 'skip', 'take', 'step_by', 'take_while', 'skip_while', 'take_until', 'zip', 'chunks', 'ready_chunks',
                  'peekable', 'cycle', 'rev', 'scan', 'fuse_once', 'dedup', 'buffered', 'buffer_unordered', 'try_filter', 'nth', 'last',
                  'select_next_some', 'abortable', 'catch_unwind', 'map_while', 'enumerate'}
# adaptor -> index of its limit argument (impl Into<Option<usize>>)
LIMITED_ADAPTORS = {'flatten_unordered': 1, 'for_each_concurrent': 1, 'try_for_each_concurrent': 1, 'flat_map_unordered': 1}
USER_CALLS = ['core::ops::function::Fn::call', 'core::ops::function::FnMut::call_mut', 'core::ops::function::FnOnce::call_once']


def then_send_for_each(core, roots_):
    """StreamBuilder::then_send written with StreamExt::for_each: the closure given to for_each calls the user's function once with
    its item, sends the result as an event on every path, and the for_each future — over the builder's own stream — is awaited.
    Returns (None, '') when the form does not apply"""
    fam = [g for r_ in roots_ for g in [r_] + core.closures_of(r_)]
    for h in fam:
        for bb, t in h.calls('futures_util::stream::stream::StreamExt::for_each'):
            clos = [core.by_exact(o.stmt['rv']['def']) for o in origins(h, t['args'][1]) if o.kind == 'agg' and o.stmt['rv'].get('ak') == 'closure']
            clos = [g for g in clos if g is not None and not g.coroutine]
            if len(clos) != 1:
                continue
            g = clos[0]
            sends = [(b2, t2) for b2, t2 in g.calls('crux_core::command::context::CommandContext::send_event')]
            users = [(b2, t2) for b2, t2 in g.calls(*USER_CALLS)]
            if not sends:
                continue
            over_own = any(o.kind == 'call' and call_matches(o.term, ['crux_core::command::builder::StreamBuilder::into_stream']) for o in origins(h, t['args'][0]))
            awaited = any(any(o.kind == 'call' and o.bb == bb for o in origins(h, t2['args'][0])) for b2, t2 in h.calls(POLL))
            one = len(sends) == 1 and len(users) == 1
            ev_ok = arg_ok = always = False
            if one:
                sb, st = sends[0]
                ub, ut = users[0]
                ev_ok = bool(origins(g, st['args'][1])) and all(o.kind == 'call' and o.bb == ub for o in origins(g, st['args'][1]))
                for o in origins(g, ut['args'][1]):
                    if o.kind == 'agg' and o.stmt['rv'].get('ak') == 'tuple':
                        inner = origins(g, o.stmt['rv']['ops'][0])
                        arg_ok = bool(inner) and all(x.kind == 'arg' and x.n == 2 and not x.suffix for x in inner)
                always = not any(r in g.reachable([0], removed_blocks=[sb]) for r in g.return_blocks()) and not g.in_cycle(sb)
            ok = one and ev_ok and arg_ok and always and over_own and awaited
            return ok, 'for_each over the builder\'s stream, awaited: %s / %s; per item: event is callback(item): %s, %s; sent exactly once on every path: %s' % (
                over_own, awaited, ev_ok, arg_ok, always)
    return None, ''


def check_builders(rep, core):
    rep.rule('R04.d', 'builder chains contain no adaptor that drops, duplicates, reorders or truncates items', floor=10)
    rep.rule('R04.e', 'then_send emits exactly one event for a request output and one per stream item', floor=2)
    rep.rule('R04.f', 'each stage closure feeds the item to the user callback once and returns the next stage hosted on the same context', floor=3)
    scope = [f for f in core.built if not f.j.get('exp') and (f.npath.startswith('crux_core::command::builder::') or
             (f.npath.startswith('crux_core::command::Command::') and f.kind == 'Closure') or f.npath.startswith('crux_core::command::stream::'))]
    for f in scope:
        bad = []
        for bb, t in f.calls():
            tr = norm(t.get('ctrait') or '')
            if tr in ('futures_util::stream::stream::StreamExt', 'futures_util::future::future::FutureExt', 'core::iter::traits::iterator::Iterator',
                      'futures_util::stream::try_stream::TryStreamExt', 'futures_util::sink::SinkExt') and last_seg(t['callee']) in LOSSY_ADAPTORS:
                bad.append((bb, norm(t['callee'])))
        # adaptors that take a concurrency limit must be given None: with a bound, once that many inner streams are open the outer
        # stream is no longer polled and its later items never reach the next stage
        for bb, t in f.calls():
            if last_seg(t.get('callee') or '') in LIMITED_ADAPTORS and norm(t.get('ctrait') or '').startswith('futures_util::'):
                lim = origins(f, t['args'][LIMITED_ADAPTORS[last_seg(t['callee'])]])
                unbounded = bool(lim) and all(o.kind == 'agg' and o.stmt['rv'].get('adt') == 'core::option::Option' and o.stmt['rv'].get('variant') == 'None'
                                              for o in lim)
                rep.expect('R04.d', unbounded, '%s|%s-unbounded' % (f.kpath, last_seg(t['callee'])), 'the concurrency limit is None',
                           '%s gives %s a concurrency limit: once that many inner streams are open the outer stream is not polled and its '
                           'later outputs never reach the next stage' % (f.where(bb), norm(t['callee'])))
        if bad:
            for bb, c in bad:
                rep.bad('R04.d', '%s|%s' % (f.kpath, last_seg(c)), '%s puts the adaptor %s into a command chain: items can be dropped, duplicated, '
                        'reordered or truncated' % (f.where(bb), c))
        elif any(True for _ in f.calls()):
            rep.ok('R04.d', f.kpath, 'no lossy adaptor')
    # then_send
    for adt, many in (('RequestBuilder', False), ('StreamBuilder', True)):
        roots_ = [f for f in core.built if f.kind == 'AssocFn' and f.name == 'then_send' and path_matches(f.assoc.get('self_adt'), 'crux_core::command::builder::' + adt)]
        # the async body of then_send: a coroutine among its closures (also when it lives in an async helper spliced into them)
        fs = [g for r_ in roots_ for g in core.closures_of(r_) if g.coroutine and list(g.calls('crux_core::command::context::CommandContext::send_event'))]
        key = '%s::then_send' % adt
        if len(fs) != 1 and many:
            # the per-item form: `stream.for_each(move |out| { ctx.send_event(event(out)); ready(()) }).await`
            ok_fe, detail_fe = then_send_for_each(core, roots_)
            if ok_fe is not None:
                rep.expect('R04.e', ok_fe, key, detail_fe, '%s no longer sends event(output) for every item (%s)' % (key, detail_fe))
                continue
        if len(fs) != 1:
            rep.missing('R04.e', key)
            continue
        f = fs[0]
        sends = [(bb, t) for bb, t in f.calls('crux_core::command::context::CommandContext::send_event')]
        users = [(bb, t) for bb, t in f.calls(*USER_CALLS)]
        polls = [(bb, t) for bb, t in f.calls(POLL)]
        ok = len(sends) == 1 and len(users) == 1 and len(polls) == 1
        detail = ''
        if ok:
            sb, st = sends[0]
            ub, ut = users[0]
            # the event sent is the callback's result; the callback's argument is the awaited output
            ev_ok = all(o.kind == 'call' and o.bb == ub for o in origins(f, st['args'][1])) and bool(origins(f, st['args'][1]))
            arg_ok = False
            for o in origins(f, ut['args'][1]):
                if o.kind == 'agg' and o.stmt['rv'].get('ak') == 'tuple':
                    inner = origins(f, o.stmt['rv']['ops'][0])
                    arg_ok = bool(inner) and all(x.kind == 'call' and any(s2[0] == 'await' for s2 in x.steps) for x in inner)
            edge = None
            res = polls[0][1]['d']['l']
            for sw, swt in f.terms('switch'):
                if any(o.kind == 'rvalue' and o.stmt['rv']['k'] == 'discr' and o.stmt['rv']['a']['l'] == res for o in origins(f, swt['a'])):
                    for v, b in swt['arms']:
                        if v == 0:
                            edge = (sw, b)
            rets = f.return_blocks()
            if not many:
                # every path from the Ready edge to the return sends the event, exactly once (not in a cycle after the await)
                after = f.reachable([edge[1]]) if edge else set()
                once = edge is not None and all(r not in f.reachable([edge[1]], removed_blocks=[sb]) for r in rets) and \
                    sb not in f.reachable_after(sb)
            else:
                # for every Some(item): a send before the next poll; the loop ends only on None
                once = edge is not None and f.in_cycle(sb) and polls[0][0] in f.reachable_after(sb) and \
                    polls[0][0] not in f.reachable([edge[1]], removed_blocks=[sb] + none_targets(f, edge[1]))
            ok = ev_ok and arg_ok and once
            detail = 'event is callback(result): %s; callback gets the awaited output: %s; emitted %s: %s' % (
                ev_ok, arg_ok, 'per item' if many else 'once', once)
        rep.expect('R04.e', ok, key, detail or 'shape', '%s no longer sends event(output) %s (%s)' % (key, 'for every item' if many else 'exactly once', detail))
    # stage closures
    n = 0
    for f in core.built:
        if f.kind != 'Closure' or f.coroutine or not f.npath.startswith('crux_core::command::builder::'):
            continue
        users = [(bb, t) for bb, t in f.calls(*USER_CALLS)]
        nxt = [(bb, t) for bb, t in f.calls('crux_core::command::builder::RequestBuilder::into_future', 'crux_core::command::builder::StreamBuilder::into_stream')]
        if not users or not nxt:
            continue
        if any('make_next_builder' not in ' '.join(c01.field_of_receiver(f, t['args'][0])) for bb, t in users):
            continue
        n += 1
        ub, ut = users[0]
        nb, nt = nxt[-1]
        item_ok = False
        for o in origins(f, ut['args'][1]):
            if o.kind == 'agg' and o.stmt['rv'].get('ak') == 'tuple':
                inner = origins(f, o.stmt['rv']['ops'][0])
                item_ok = bool(inner) and all(x.kind == 'arg' and x.n == 2 and not x.suffix for x in inner)
        chained = all(o.kind == 'call' and o.bb == ub for o in origins(f, nt['args'][0])) and bool(origins(f, nt['args'][0]))
        ctx_ok = any('ctx' in x for x in c01.field_of_receiver(f, nt['args'][1], through_clone=True))
        returned = any(o.kind == 'call' and o.bb == nb for o in origins(f, {'l': 0, 'p': []}, extra_identity=[('alloc::boxed::Box::pin', 0)]))
        once = len(users) == 1 and not f.in_cycle(ub)
        rep.expect('R04.f', item_ok and chained and ctx_ok and returned and once, f.kpath,
                   'callback(item) -> next builder -> hosted on the captured context and returned',
                   '%s: the stage closure does not pass its item to the callback once and return the next stage hosted on the captured '
                   'context (item: %s, chained: %s, ctx: %s, returned: %s, once: %s)' % (f.path, item_ok, chained, ctx_ok, returned, once))
    if n < 3:
        rep.bad('R04.f', 'sites', 'expected at least 3 stage closures (then_request / then_stream), found %d' % n)


# what a futures adaptor does to the order in which a stage's work runs
SEQUENTIAL_STAGE = {'then', 'and_then', 'or_else'}                      # the stage of item n finishes before item n+1 is taken
CONCURRENT = {'flatten_unordered', 'flat_map_unordered', 'buffer_unordered', 'buffered', 'for_each_concurrent', 'try_for_each_concurrent',
              'try_buffer_unordered', 'try_buffered', 'try_flatten_unordered', 'select', 'select_all', 'select_with_strategy'}
SERIAL_FLATTEN = {'flatten', 'flat_map', 'try_flatten', 'flatten_stream'}   # inner stream n is drained before inner stream n+1 is started
# chaining method -> (one of these must be used, none of these may be used, what is lost otherwise)
STAGE_ORDER = {
    ('RequestBuilder', 'then_request'): (SEQUENTIAL_STAGE, CONCURRENT,
                                         'the chained request starts only with the output of the first one'),
    ('StreamBuilder', 'then_request'): (SEQUENTIAL_STAGE, CONCURRENT | SERIAL_FLATTEN,
                                        'the request chained to item n is finished before item n+1 is taken, so results keep the order of the stream and only one chained request is outstanding'),
    ('StreamBuilder', 'then_stream'): (CONCURRENT, SERIAL_FLATTEN | SEQUENTIAL_STAGE,
                                       'the inner streams of all items run side by side: a long-lived inner stream does not hold back the items after it'),
}


def check_stage_order(rep, rid, core):
    """the order in which a chain runs its stages is fixed by the adaptor the chaining method is built on; the family of a method is its
    body, its closures and every function of the builder module it calls (so `then_request` implemented through `then_stream` counts as
    using flatten_unordered)"""
    from rules.common import CallGraph
    cg = CallGraph([core])
    for (adt, name), (need, forbid, why) in sorted(STAGE_ORDER.items()):
        roots = [f for f in core.built if f.kind == 'AssocFn' and f.name == name and path_matches(f.assoc.get('self_adt'), 'crux_core::command::builder::' + adt)]
        key = '%s::%s|stage-order' % (adt, name)
        if len(roots) != 1:
            rep.missing(rid, key)
            continue
        fam = cg.reach(roots, stop=lambda g: not g.npath.startswith('crux_core::command::builder::'))
        used = {}
        for g in fam:
            for bb, t in g.calls():
                if norm(t.get('ctrait') or '').startswith('futures_util::'):
                    used.setdefault(last_seg(t['callee']), g.where(bb))
        bad = sorted(set(used) & forbid)
        have = sorted(set(used) & need)
        rep.expect(rid, bool(have) and not bad, key, 'built on %s (adaptors in its family: %s)' % (have, sorted(used)),
                   '%s::%s is no longer built on %s%s: %s' % (adt, name, '/'.join(sorted(need)),
                                                             (' but on %s (%s)' % (bad, used[bad[0]])) if bad else ' (adaptors: %s)' % sorted(used), why))


EAGER_CONTEXT_CALLS = ['crux_core::command::context::CommandContext::notify_shell', 'crux_core::command::context::CommandContext::send_event',
                       'crux_core::command::context::CommandContext::spawn']


def check_builders_lazy(rep, rid, crates):
    """a builder describes work; nothing happens until the future it makes is polled.  The closure given to NotificationBuilder /
    RequestBuilder / StreamBuilder::new only BUILDS that future: a notification, an event or a spawn — which take effect at the call —
    may be made inside the future (an async block, a combinator closure) but never in the body of the make-task closure itself
    (request_from_shell / stream_from_shell only create a future that sends at its first poll: C01 R01.f)"""
    from rules.common import Summaries
    sm = Summaries(crates)
    n = 0
    for c in crates:
        for f in c.built:
            if f.j.get('exp') or '::testing' in f.npath or '::tests' in f.npath:
                continue
            for bb, t in f.calls():
                cal = norm(t.get('callee') or '')
                if not (cal.startswith('crux_core::command::builder::') and last_seg(cal) == 'new' and t.get('args')):
                    continue
                for o in origins(f, t['args'][0]):
                    if not (o.kind == 'agg' and o.stmt['rv'].get('ak') == 'closure'):
                        continue
                    g = c.by_exact(o.stmt['rv']['def'])
                    if g is None or g.coroutine:
                        continue
                    n += 1
                    eager = sm.sites(g, EAGER_CONTEXT_CALLS, 'may')
                    key = '%s|%s|lazy' % (c.host_root(f), last_seg(cal.rsplit('::', 1)[0]))
                    rep.expect(rid, not eager, key, 'the make-task closure only builds the future',
                               '%s: the closure given to %s acts when the future is BUILT (%s), not when it runs: the output appears ahead of the '
                               'stages before it, and also when the future is dropped unpolled' % (
                                   f.path, cal, [g.where(b) for b in eager]))
    if n < 10:
        rep.bad(rid, 'sites', 'expected at least 10 builder constructions with a make-task closure, found %d' % n)


# where an adaptor built on FuturesUnordered may be used: (function) -> why
WAKER_RETAINING_OK = {
    'crux_core::command::builder::StreamBuilder::then_stream': 'the documented concurrency of chained streams needs it',
}


def check_waker_retaining_adaptors(rep, rid, core):
    """flatten_unordered, buffer_unordered, select_all and friends poll their inner futures with wakers of their own, each holding a clone
    of the task's waker for as long as the adaptor lives.  The executor evicts a task that can never be woken again by counting the
    clones of the waker it handed out (C07): a task parked behind such an adaptor on a request the shell dropped is never evicted, its
    future and everything it captured are never released, and its command never becomes done.  Who-may-call: in the command runtime
    these adaptors appear only where tabled."""
    n = 0
    for f in core.built:
        if f.j.get('exp') or '::testing' in f.npath or '::command::' not in f.npath:
            continue
        for bb, t in f.calls():
            if norm(t.get('ctrait') or '').startswith('futures_util::') and last_seg(t.get('callee') or '') in CONCURRENT:
                n += 1
                host = core.host_root(f)
                key = '%s|%s' % (host, last_seg(t['callee']))
                rep.expect(rid, host in WAKER_RETAINING_OK, key, 'tabled: ' + WAKER_RETAINING_OK.get(host, ''),
                           '%s uses %s at %s: the adaptor keeps clones of the task\'s waker, so a task waiting there on a request that was dropped '
                           'is never evicted and never released' % (host, last_seg(t['callee']), f.where(bb)))
    if n < 1:
        rep.bad(rid, 'sites', 'the tabled use of flatten_unordered in StreamBuilder::then_stream was not found')


def fold_of_and(f):
    """`iter.into_iter().fold(<fresh command>, Command::and)`: every item is and-ed onto a fresh command (Command::and hosts its right
    operand on its left one and returns the left one).  Returns the fold call block or None"""
    for bb, t in f.calls('core::iter::traits::iterator::Iterator::fold'):
        if len(t['args']) != 3:
            continue
        src = origins(f, t['args'][0])
        direct = bool(src) and all(o.kind == 'arg' and o.n == 1 and not [s_ for s_ in o.steps if s_[0] == 'idcall' and s_[2] != 'into_iter'] for o in src)
        init = origins(f, t['args'][1])
        fresh = bool(init) and all(o.kind == 'call' and call_matches(o.term, ['crux_core::command::Command::done', 'crux_core::command::Command::new']) for o in init)
        fop = t['args'][2]
        is_and = fop.get('o') == 'const' and path_matches(fop.get('fn') or '', 'crux_core::command::Command::and')
        if direct and fresh and is_and:
            return bb
    return None


def none_targets(fn, start):
    return []


def ready_edge_of_await(fn, fut_call_bb):
    """the edge taken when the await of the future created at fut_call_bb completes"""
    for bb, t in fn.calls(POLL):
        if any(o.kind == 'call' and o.bb == fut_call_bb for o in origins(fn, t['args'][0])):
            res = t['d']['l']
            for sb, st in fn.terms('switch'):
                for o in origins(fn, st['a']):
                    if o.kind == 'rvalue' and o.stmt['rv']['k'] == 'discr' and o.stmt['rv']['a']['l'] == res:
                        for v, b in st['arms']:
                            if v == 0:
                                return (sb, b)
    return None


_CTX = {}


def rep_ctx_time(core):
    return _CTX.get('time')


def upvar_names(fn, operand):
    out = set()
    for o in origins(fn, operand):
        if o.kind == 'arg' and o.n == 1:
            for tok in o.suffix:
                if tok.startswith('.^'):
                    out.add(tok[2:])
    return out


def check(ctx, rep):
    rep.rule('R04.a', 'map_effect / map_event apply the user function exactly once to their own kind and leave the other kind untouched', floor=4)
    rep.rule('R04.b', '`then` hosts the second command only after the await of the first completed', floor=1)
    rep.rule('R04.c', 'and/all/then/from_iter host every sub-command on the parent\'s channels; no Command is dropped', floor=5)
    core = ctx.crate('default', 'crux_core')
    _CTX['time'] = ctx.crate('default', 'crux_time')
    if core is None or _CTX['time'] is None:
        rep.missing('R04.a', 'crux_core / crux_time facts')
        return
    # R04.a
    from rules.props import prims as _prims
    USER = ['core::ops::function::Fn::call', 'core::ops::function::FnMut::call_mut', 'core::ops::function::FnOnce::call_once']
    for name, own, other in (('map_effect', 'Effect', 'Event'), ('map_event', 'Event', 'Effect')):
        roots = [r for r in core.built if r.kind == 'AssocFn' and r.name == name and path_matches(r.assoc.get('self_adt'), 'crux_core::command::Command')]
        fs = [g for r in roots for g in core.closures_of(r) if c01.command_output_matches(g)] if len(roots) == 1 else []
        if len(fs) != 1:
            rep.missing('R04.a', 'the CommandOutput match inside Command::%s' % name)
            continue
        root, f = roots[0], fs[0]
        scrut = c01.command_output_matches(f)[0]
        aggs = [s_ for b2, i2, s_ in f.stmts('assign') if s_['rv']['k'] == 'agg' and path_matches(s_['rv'].get('adt'), 'crux_core::command::stream::CommandOutput')]

        def arm(variant):
            """what becomes of the payload of this arm: 'untouched', 'user' (the function given to map_effect / map_event, once, result
            re-wrapped in the same variant), 'identity' (passed through core::convert::identity and re-wrapped) or None"""
            if any(s_['rv']['variant'] == variant and c01._moves_from(f, s_['rv']['ops'][0], scrut, variant) for s_ in aggs):
                return 'untouched'
            for bb, t in f.calls(*USER):
                fed = False
                for o in origins(f, t['args'][1]):
                    if o.kind == 'agg' and o.stmt['rv'].get('ak') == 'tuple':
                        fed = c01._moves_from(f, o.stmt['rv']['ops'][0], scrut, variant)
                if not fed:
                    continue
                rewrapped = any(s_['rv']['variant'] == variant and any(o.kind == 'call' and o.bb == bb for o in origins(f, s_['rv']['ops'][0])) for s_ in aggs)
                if not rewrapped or f.in_cycle(bb):
                    return None
                # which function is called: followed through the captures into map_effect / map_event itself
                tr = _prims.trace_to_root(core, f, t['args'][0], root)
                if tr and all(h is root and o.kind == 'arg' and o.n >= 2 for h, o in tr):
                    return 'user'
                if tr and all(o.kind == 'const' and norm(getattr(o, 'fn', None) or '') == 'core::convert::identity' for h, o in tr):
                    return 'identity'
                return None
            return None
        got_own, got_other = arm(own), arm(other)
        rep.expect('R04.a', got_own == 'user', '%s|%s-arm' % (name, own), 'map is called once with the %s payload and its result re-wrapped as %s' % (own, own),
                   'Command::%s: the %s arm does not call the user function exactly once on the payload and re-wrap the result (%s)' % (name, own, got_own))
        rep.expect('R04.a', got_other in ('untouched', 'identity'), '%s|%s-arm' % (name, other), 'the %s payload is re-wrapped %s' % (other, got_other),
                   'Command::%s: the %s arm no longer passes its payload through untouched (%s)' % (name, other, got_other))

    # R04.b / R04.c
    def host_sites(fn_name):
        out = []
        for f in core.built:
            if f.kind != 'Closure' or not re.search(r'Command::<Effect, Event>::%s(::|$)' % re.escape(fn_name), f.root or '') \
                    and not (fn_name == 'from_iter' and 'FromIterator' in (f.root or '')):
                continue
            for bb, t in f.calls(HOST):
                out.append((f, bb, t))
        return out
    # R04.b on the family of `then` (its body, its closures, helpers spliced in): the two hosted commands are named by the position of the
    # parameter they come from (1 = self, 2 = other), not by the names of the variables that carry them
    then_roots = [r for r in core.built if r.kind == 'AssocFn' and r.name == 'then' and path_matches(r.assoc.get('self_adt'), 'crux_core::command::Command')
                  and not r.assoc.get('trait')]
    then_sites = [(g, bb, t) for r in then_roots for g in [r] + core.closures_of(r) for bb, t in g.calls(HOST)] if len(then_roots) == 1 else []
    if len(then_sites) != 2:
        rep.bad('R04.b', 'then|hosts', 'Command::then: expected two host(..) calls, found %d' % len(then_sites))
    else:
        f = then_sites[0][0]
        by_pos = {}
        for g, bb, t in then_sites:
            tr = _prims.trace_to_root(core, g, t['args'][0], then_roots[0])
            pos = set(o.n for h, o in tr if h is then_roots[0] and o.kind == 'arg')
            if len(pos) == 1 and len(tr) and all(h is then_roots[0] and o.kind == 'arg' for h, o in tr):
                by_pos[pos.pop()] = (bb, t)
        if set(by_pos) != {1, 2} or then_sites[0][0] is not then_sites[1][0]:
            rep.bad('R04.b', 'then|operands', 'Command::then hosts the parameters %s, expected self (1) and other (2) in one task' % sorted(by_pos))
        else:
            edge = ready_edge_of_await(f, by_pos[1][0])
            ok = edge is not None and by_pos[2][0] not in f.reachable([0], removed_edges=[edge]) and \
                by_pos[2][0] in f.reachable([0])
            rep.expect('R04.b', ok, 'then|sequencing', 'host(other) is reachable only through the Ready edge of awaiting host(self)',
                       'Command::then can start hosting `other` before the future hosting `self` has completed')
    def hosted_of(fn_name):
        """(sites, what is hosted) judged on the method's family — its body, its closures, those of helpers spliced into them: each
        hosted command is traced back through the captures to a parameter of the method (its position) or to an item taken from one"""
        roots = [r for r in core.built if r.kind == 'AssocFn' and r.name == fn_name and path_matches(r.assoc.get('self_adt'), 'crux_core::command::Command')
                 and not r.assoc.get('trait')]
        if len(roots) != 1:
            return [], set()
        r = roots[0]
        sites_, what = [], set()
        for g in [r] + core.closures_of(r):
            for bb, t in g.calls(HOST):
                sites_.append((g, bb, t))
                for h, o in _prims.trace_to_root(core, g, t['args'][0], r):
                    if h is r and o.kind == 'arg':
                        what.add(o.n)
                    elif o.kind == 'call' and last_seg(o.term.get('callee') or '') == 'next':
                        what.add('item')
                    elif h.kind == 'Closure' and o.kind == 'arg' and o.n >= 2:
                        what.add('item')      # the parameter of a closure run for every item (for_each / fold)
                    else:
                        what.add('?')
        return sites_, what
    for fn_name, want in (('and', {2}), ('all', {'item'}), ('then', {1, 2}), ('from_iter', None)):
        sites, hosted = hosted_of(fn_name) if want is not None else (host_sites(fn_name), set())
        chan_ok = True
        for g, bb, t in sites:
            eff = c01.field_of_receiver(g, t['args'][1], through_clone=True)
            evt = c01.field_of_receiver(g, t['args'][2], through_clone=True)
            if not any('effects' in x for x in eff) or not any('events' in x for x in evt) or any('events' in x for x in eff):
                chan_ok = False
        key = 'hosted|%s' % fn_name
        if fn_name == 'all' and not sites:
            fa = [f for f in core.built if f.kind == 'AssocFn' and f.name == 'all' and path_matches(f.assoc.get('self_adt'), 'crux_core::command::Command')]
            if len(fa) == 1 and fold_of_and(fa[0]) is not None:
                rep.ok('R04.c', key, 'Command::all folds Command::and over its argument onto a fresh command (hosting checked for `and`)')
                continue
        if fn_name == 'from_iter':
            # from_iter delegates to Command::all
            fs = [f for f in core.built if f.name == 'from_iter' and path_matches(f.assoc.get('trait'), 'core::iter::traits::collect::FromIterator')
                  and path_matches(f.assoc.get('self_adt'), 'crux_core::command::Command')]
            ok = len(fs) == 1 and any(True for _ in fs[0].calls('crux_core::command::Command::all'))
            rep.expect('R04.c', ok, key, 'FromIterator delegates to Command::all', 'Command::from_iter no longer delegates to Command::all')
            continue
        rep.expect('R04.c', bool(sites) and (want is None or (want <= hosted and '?' not in hosted)) and chan_ok, key,
                   'sub-commands %s (parameter positions / items) are hosted on the parent\'s effect and event senders' % sorted(map(str, hosted)),
                   'Command::%s: hosted sub-commands %s (expected %s: parameter positions / items of the argument); channels wired to (effects, events): %s' % (
                       fn_name, sorted(map(str, hosted)), sorted(map(str, want or [])), chan_ok))
    # Command::all iterates its argument directly (no skip/take/filter in between), and spawns inside the loop
    fs = [f for f in core.built if f.kind == 'AssocFn' and f.name == 'all' and path_matches(f.assoc.get('self_adt'), 'crux_core::command::Command')]
    if len(fs) != 1:
        rep.missing('R04.c', 'Command::all')
    else:
        f = fs[0]
        nexts = [(bb, t) for bb, t in f.calls('core::iter::traits::iterator::Iterator::next')]
        spawns = [(bb, t) for bb, t in f.calls('crux_core::command::Command::spawn')]
        direct = False
        if len(nexts) == 1:
            src = origins(f, nexts[0][1]['args'][0], extra_identity=[])
            direct = bool(src) and all(o.kind == 'arg' and o.n == 1 and not [s for s in o.steps if s[0] == 'idcall' and s[2] != 'into_iter']
                                       for o in src)
        in_loop = len(spawns) == 1 and len(nexts) == 1 and f.in_cycle(spawns[0][0]) and \
            all(c01._moves_from(f, {'l': o.stmt['rv']['ops'][0]['l'], 'p': o.stmt['rv']['ops'][0].get('p', [])}, nexts[0][1]['d']['l'], 'Some')
                for o in origins(f, spawns[0][1]['args'][1]) if o.kind == 'agg' and o.stmt['rv'].get('ak') == 'closure') if spawns else False
        if not (direct and in_loop):
            # the same thing written with for_each: commands.into_iter().for_each(|c| command.spawn(..c..))
            fes = [(bb, t) for bb, t in f.calls('core::iter::traits::iterator::Iterator::for_each')]
            if len(fes) == 1 and not nexts:
                src = origins(f, fes[0][1]['args'][0])
                direct = bool(src) and all(o.kind == 'arg' and o.n == 1 and not [s_ for s_ in o.steps if s_[0] == 'idcall' and s_[2] != 'into_iter'] for o in src)
                in_loop = False
                for o in origins(f, fes[0][1]['args'][1]):
                    if o.kind == 'agg' and o.stmt['rv'].get('ak') == 'closure':
                        g = core.by_exact(o.stmt['rv']['def'])
                        if g is None:
                            continue
                        sp = [(bb, t) for bb, t in g.calls('crux_core::command::Command::spawn')]
                        if len(sp) == 1 and not g.in_cycle(sp[0][0]):
                            # the spawned closure captures the item (parameter 2 of the for_each closure)
                            for x in origins(g, sp[0][1]['args'][1]):
                                if x.kind == 'agg' and x.stmt['rv'].get('ak') == 'closure' and x.stmt['rv']['ops']:
                                    item = origins(g, x.stmt['rv']['ops'][0])
                                    in_loop = bool(item) and all(y.kind == 'arg' and y.n == 2 and not y.suffix for y in item)
        if not (direct and in_loop) and fold_of_and(f) is not None:
            direct = in_loop = True
        rep.expect('R04.c', direct and in_loop, 'all|every-item', 'every item of the argument iterator is spawned (no adaptor, spawn inside the loop)',
                   'Command::all does not spawn every item of its argument (iterator adapted or spawn outside the loop)')
    counts = c01.check_linear(rep, core, 'default', rid='R04.c', only=lambda f, ty: 'crux_core::command::Command<' in ty)
    check_builders(rep, core)
    # R04.n: composing commands runs nothing: the body of a combinator (not the task it creates) never drives one of its operands — is_done(),
    # effects(), events(), run_until_settled() and poll_next all run the operand's tasks up to their first await, so `a.then(b)` would start b
    # before a has finished
    rep.rule('R04.n', 'a combinator does not run its operands while composing them (no is_done / effects / events / settle in its own body)', floor=6)
    DRIVES = ['crux_core::command::Command::is_done', 'crux_core::command::Command::effects', 'crux_core::command::Command::events',
              'crux_core::command::Command::run_until_settled', 'futures_core::stream::Stream::poll_next', 'futures_util::stream::stream::StreamExt::poll_next_unpin',
              'crux_core::command::Command::run_task', 'crux_core::command::Command::spawn_new_tasks']
    from rules.props import c06 as _c06
    from rules.common import Summaries as _Sm
    _smn = _Sm([core])
    for name_ in _c06.COMBINATORS:
        for f_ in [x for x in core.built if x.kind == 'AssocFn' and x.name == name_ and path_matches(x.assoc.get('self_adt'), 'crux_core::command::Command')]:
            drv = _smn.sites(f_, DRIVES, 'may')
            rep.expect('R04.n', not drv, 'Command::%s|composes-only' % name_, 'builds the combined command without running anything',
                       'Command::%s drives one of its operands while composing (%s): the operand\'s tasks run up to their first await before the '
                       'combined command is ever polled — `then` would start its second part before the first has finished' % (name_, [f_.where(b) for b in drv]))
    rep.rule('R04.m', 'a builder\'s make-task closure only builds its future: notifications, events and spawns happen when the future runs', floor=10)
    check_builders_lazy(rep, 'R04.m', [c_ for c_ in (core, ctx.crate('default', 'crux_http'), ctx.crate('default', 'crux_kv'), _CTX['time']) if c_ is not None])
    rep.rule('R04.l', 'each chaining method is built on the adaptor that gives its documented order: sequential for a chained request, concurrent for chained streams', floor=3)
    check_stage_order(rep, 'R04.l', core)
    # R04.g: spawn/join/select inside a command rely on every crux-provided future keeping the waker of the current poll (shared with C05 R05.c)
    from rules.props import c05
    rep.rule('R04.g', 'every future crux provides to tasks (JoinHandle, shell requests and streams, timers) keeps the current poll\'s waker when it stays Pending', floor=5)
    time = rep_ctx_time(core)
    c05.check_pending_wakers(rep, 'R04.g', core, time)
    # R04.i: a JoinHandle awaited inside a command completes whenever its task leaves the command (shared with C07 R07.b)
    from rules.props import c07
    rep.rule('R04.i', 'every task that leaves a command — finished, aborted or evicted — publishes `finished` and wakes its join handles', floor=2)
    c07.check_finish_notify(rep, 'R04.i', core)
    # R04.o: `a.then(b)` starts b, and all/and finish, when a chain whose first request was DROPPED ends: that rests on the eviction test,
    # which reads the number of clones of the poll's waker — adaptors that keep clones are used only where tabled (shared with C07 R07.i /
    # C13 R13.h; seeded: RequestBuilder::then_stream on flatten_unordered "to match" StreamBuilder::then_stream)
    rep.rule('R04.o', 'adaptors that keep clones of the task waker (flatten_unordered, buffer_unordered, select_all, ..) are used only where tabled', floor=1)
    check_waker_retaining_adaptors(rep, 'R04.o', core)
    # R04.k: the combinators host commands inside tasks; a hosting task is kept alive only by its wakers doing the whole job however they
    # are woken (shared with C05 R05.b)
    from rules.props import c05 as _c05
    rep.rule('R04.k', 'every way of waking a task waker enqueues the task, marks it woken and wakes the parent, on every path', floor=5)
    _c05.check_wake_impls(rep, 'R04.k', core, rep_ctx_time(core))
    # R04.j: hosting forwards every output: the hosted stream yields while anything is queued (shared with C07 R07.e)
    rep.rule('R04.j', 'a hosted command yields an item whenever one is queued: Pending only after both output queues were found empty, end only when done', floor=3)
    c07.check_stream_end(rep, 'R04.j', core)
    # R04.h: done / event / notify / request / stream primitives produce exactly their single output
    from rules.props import prims
    rep.rule('R04.h', 'done / event / notify_shell / request_from_shell / stream_from_shell make exactly the one context call they stand for, '
             'on every path of their task body, with their own argument', floor=9)
    prims.check_primitives(rep, 'R04.h', core)
    rep.assume('futures StreamExt::forward/map and CommandSink deliver every item exactly once in order (checked for CommandSink in C01)')
    rep.assume('NOT DECIDED: reference semantics, algebraic laws, then_request/then_stream chaining under every resolution order')
