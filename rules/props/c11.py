"""C11 — the core is a deterministic function of its input history (structural clauses)."""
import re

from rules.facts import norm, path_matches, origins, flows_to, call_matches, last_seg

CONFIGS = {'quick': ['default', 'controls'], 'thorough': ['allfeat']}
TECHNIQUE = ('static analysis: source-to-sink dataflow from hash-ordered iteration to order-sensitive consumers, ambient '
             'nondeterminism who-may-call scan, field coverage of hand-written equality, interior-mutable statics table')
EXPLANATION = (
    'R11.a: every iteration over a std HashMap/HashSet or over http_types Headers (a HashMap with a random seed) in the runtime '
    'crates is followed forwards through iterator adaptors to its consumer; the consumer must be order-insensitive (all/any/'
    'count/sum/min/max, collect into a map or set, collect + sort before any other use, a loop whose body only inserts into '
    'another map) or the function must merely forward the iterator to its caller (documented "arbitrary order" API); anything '
    'else, or anything unrecognised, is a violation. R11.b: no library function calls a clock, rand, thread identity, the '
    'environment, a pointer-to-integer cast or fmt::Pointer. R11.c: hand-written PartialEq impls read every field of the type '
    '(or the field is tabled). R11.e: a hand-written equality consumes a header\'s HeaderValues only as a whole list (never its first / last value). R11.d: the only interior-mutable statics are the timer counter and the cleared-timer set. '
    'Does not decide byte-identical replays nor determinism inside url/serde_json/http_types. R11.b also covers futures\' select! (pseudo-random first arm) and scans macro-generated closures inside hand-written functions.')

RUNTIME_CRATES = ['crux_core', 'crux_http', 'crux_kv', 'crux_time', 'crux_platform']
HT = 'http_types_red_badger_temporary_fork'

SOURCE_CALLS = [
    'std::collections::hash::map::HashMap::iter', 'std::collections::hash::map::HashMap::iter_mut',
    'std::collections::hash::map::HashMap::keys', 'std::collections::hash::map::HashMap::values',
    'std::collections::hash::map::HashMap::values_mut', 'std::collections::hash::map::HashMap::drain',
    'std::collections::hash::map::HashMap::into_keys', 'std::collections::hash::map::HashMap::into_values',
    'std::collections::hash::map::HashMap::extract_if',
    'std::collections::hash::set::HashSet::iter', 'std::collections::hash::set::HashSet::drain',
    'std::collections::hash::set::HashSet::difference', 'std::collections::hash::set::HashSet::symmetric_difference',
    'std::collections::hash::set::HashSet::intersection', 'std::collections::hash::set::HashSet::union',
    'std::collections::hash::set::HashSet::extract_if',
    HT + '::headers::headers::Headers::iter', HT + '::headers::headers::Headers::iter_mut',
    HT + '::headers::headers::Headers::names', HT + '::headers::headers::Headers::values',
    HT + '::request::Request::iter', HT + '::request::Request::iter_mut',
    HT + '::request::Request::header_names', HT + '::request::Request::header_values',
    HT + '::response::Response::iter', HT + '::response::Response::iter_mut',
    HT + '::response::Response::header_names', HT + '::response::Response::header_values',
]
# IntoIterator::into_iter is a source when its receiver is one of these
SOURCE_INTO_ITER_SELF = re.compile(
    r'(std::collections::hash::map::HashMap|std::collections::hash::set::HashSet|%s::headers::headers::Headers|'
    r'%s::request::Request|%s::response::Response)\b' % (HT, HT, HT))

ADAPTORS = {'map', 'flat_map', 'filter', 'filter_map', 'cloned', 'copied', 'chain', 'inspect', 'by_ref', 'peekable',
            'flatten', 'fuse', 'map_while', 'into_iter', 'iter'}
INSENSITIVE = {'all', 'any', 'count', 'sum', 'product', 'min', 'max', 'min_by', 'max_by', 'min_by_key', 'max_by_key',
               'for_each_insensitive'}
ORDERED = {'zip', 'enumerate', 'next', 'last', 'nth', 'position', 'rposition', 'fold', 'try_fold', 'reduce', 'eq', 'ne',
           'cmp', 'partial_cmp', 'lt', 'le', 'gt', 'ge', 'take', 'skip', 'step_by', 'find', 'find_map', 'take_while',
           'skip_while', 'scan', 'collect_seq', 'collect_map', 'collect_str', 'for_each', 'try_for_each', 'unzip',
           'partition', 'is_sorted', 'rev', 'cycle', 'next_back', 'advance_by'}
UNORDERED_CONTAINERS = re.compile(
    r'^(std::collections::hash::map::HashMap|std::collections::hash::set::HashSet|alloc::collections::btree::map::BTreeMap|'
    r'alloc::collections::btree::set::BTreeSet|%s::headers::headers::Headers|http::header::map::HeaderMap)\b' % HT)
# only *stable* sorts make a collected hash-ordered sequence deterministic: elements with equal keys (the values of one header name)
# keep their pre-sort order, which is the Vec order of that map entry; an unstable sort may permute them depending on the
# input permutation, i.e. on the hash seed
SORTS = ['alloc::slice::<impl [T]>::sort', 'alloc::slice::<impl [T]>::sort_by', 'alloc::slice::<impl [T]>::sort_by_key',
         'alloc::slice::<impl [T]>::sort_by_cached_key']
UNSTABLE_SORTS = ['core::slice::<impl [T]>::sort_unstable', 'core::slice::<impl [T]>::sort_unstable_by',
                  'core::slice::<impl [T]>::sort_unstable_by_key', 'core::slice::<impl [T]>::select_nth_unstable',
                  'core::slice::<impl [T]>::select_nth_unstable_by', 'core::slice::<impl [T]>::select_nth_unstable_by_key']

# calls allowed inside a loop over a hash-ordered iterator: conversions and inserts into another unordered container
LOOP_BODY_OK = {'next', 'into_iter', 'iter', 'as_str', 'as_bytes', 'from_bytes', 'from_str', 'unwrap', 'expect', 'clone',
                'deref', 'deref_mut', 'into', 'from', 'to_string', 'as_ref', 'borrow', 'to_owned', 'branch', 'from_residual'}
# pure lookups / comparisons a loop may make while it evaluates a quantified predicate over the items
LOOP_LOOKUP_OK = {'get', 'contains_key', 'contains', 'eq', 'ne', 'is_some_and', 'is_none_or', 'is_some', 'is_none', 'is_ok', 'is_err', 'len', 'count', 'is_empty',
                  'names', 'values', 'cmp', 'partial_cmp', 'map', 'as_deref', 'copied', 'cloned', 'last', 'first'}
LOOP_BODY_INSERTS = re.compile(r'(HeaderMap|HashMap|HashSet|BTreeMap|BTreeSet|Headers)(::<[^>]*>)?::(append|insert|entry)$')


HASH_CONTAINER_T = re.compile(r'std::collections::hash::(set::HashSet|map::HashMap)<')
# operations on a hash container (or on a guard / reference to it) whose result does not depend on iteration order
HASH_POINT_OPS = {'insert', 'remove', 'contains', 'contains_key', 'get', 'get_mut', 'get_key_value', 'len', 'is_empty', 'entry', 'clear', 'take', 'replace',
                  'reserve', 'shrink_to_fit', 'deref', 'deref_mut', 'clone', 'clone_from', 'default', 'drop', 'eq', 'ne', 'borrow', 'borrow_mut', 'as_ref',
                  'as_mut', 'unwrap', 'expect', 'lock', 'read', 'write', 'fmt'}
HASH_WRAPPER_OK = ('std::sync::poison::mutex::Mutex::new', 'std::sync::poison::rwlock::RwLock::new', 'std::sync::lazy_lock::LazyLock::new',
                   'alloc::sync::Arc::new', 'core::cell::RefCell::new', 'std::sync::once_lock::OnceLock::')


def is_source_call(t, wrappers):
    if call_matches(t, SOURCE_CALLS):
        return True
    if call_matches(t, ['core::iter::traits::collect::IntoIterator::into_iter']):
        st = t.get('self_ty') or ''
        res = t.get('resolved') or ''
        if SOURCE_INTO_ITER_SELF.search(norm(st) or '') or SOURCE_INTO_ITER_SELF.search(norm(res) or ''):
            # `into_iter` on an iterator type is the identity, not a new source
            if 'hash::map::Iter' in st or 'headers::iter' in st:
                return False
            return True
    c = norm(t.get('callee') or '')
    r = norm(t.get('resolved') or '')
    return c in wrappers or r in wrappers


def classify(fn, local, crate, seen=None, depth=0):
    """follow a hash-ordered iterator value forwards; returns list of (verdict, what, bb) with verdict in
    ok | forward | bad | unclassified"""
    out = []
    if depth > 12:
        return [('unclassified', 'adaptor chain too deep', None)]
    sinks = flows_to(fn, local, whole_only=True)
    for s in sinks:
        kind = s[0]
        if kind == 'return':
            out.append(('forward', 'returned to the caller', None))
        elif kind == 'drop':
            continue
        elif kind == 'callarg':
            _, bb, t, k, via = s
            name = last_seg(t.get('callee') or '?')
            c = norm(t.get('callee') or '?')
            trait = norm(t.get('ctrait') or '')
            is_iter_method = trait in ('core::iter::traits::iterator::Iterator', 'core::iter::traits::collect::IntoIterator',
                                       'core::iter::traits::double_ended::DoubleEndedIterator')
            if k == 0 and is_iter_method and name in ADAPTORS:
                out += classify(fn, t['d']['l'], crate, seen, depth + 1)
            elif k == 0 and is_iter_method and name in INSENSITIVE:
                out.append(('ok', 'consumed by order-insensitive Iterator::%s' % name, bb))
            elif k == 0 and is_iter_method and name == 'collect':
                target = norm((t.get('targs') or ['', '?'])[1])
                if UNORDERED_CONTAINERS.match(target):
                    out.append(('ok', 'collected into %s' % target.split('<')[0], bb))
                elif sorted_before_use(fn, t['d']['l'], bb):
                    out.append(('ok', 'collected into %s and stably sorted before any other use' % target, bb))
                elif any(s2[0] == 'callarg' and call_matches(s2[2], UNSTABLE_SORTS) for s2 in flows_to(fn, t['d']['l'], whole_only=True)):
                    out.append(('bad', 'collected into %s and sorted with an UNSTABLE sort: elements with equal keys end up in an order that depends '
                                'on the hash-ordered input permutation' % target, bb))
                else:
                    out.append(('bad', 'collected into ordered %s without a sort before use' % target, bb))
            elif k == 0 and is_iter_method and name == 'next':
                if fn.in_cycle(bb) and 'desugar:ForLoop' in (t.get('x') or []):
                    out.append(loop_body(fn, bb))
                else:
                    out.append(('bad', 'Iterator::next takes the first element in hash order', bb))
            elif name in ('extend', 'from_iter') and k >= (1 if name == 'extend' else 0):
                target = norm(t['args'][0]['t'].lstrip('&').replace('mut ', '')) if name == 'extend' else norm(t['d']['t'])
                if UNORDERED_CONTAINERS.match(target):
                    out.append(('ok', '%s into %s' % (name, target.split('<')[0]), bb))
                else:
                    out.append(('bad', '%s into ordered %s' % (name, target), bb))
            elif name in ORDERED:
                out.append(('bad', 'order-sensitive consumer %s' % c, bb))
            else:
                out.append(('unclassified', 'passed to %s (argument %d)' % (c, k), bb))
        elif kind == 'field':
            out.append(('unclassified', 'stored into a field', s[1]))
        elif kind == 'yield':
            continue
        else:
            out.append(('unclassified', 'reaches %s' % kind, s[1] if len(s) > 1 and isinstance(s[1], int) else None))
    if not sinks:
        out.append(('ok', 'iterator is never consumed', None))
    return out


def sorted_before_use(fn, vec_local, collect_bb):
    """the collected Vec flows (as &mut) into a slice sort, and every other direct use of the Vec lies in a
    block the sort dominates"""
    sinks = flows_to(fn, vec_local, whole_only=True)
    sorts = [s for s in sinks if s[0] == 'callarg' and call_matches(s[2], SORTS) and s[3] == 0]
    if not sorts:
        return False
    sb = sorts[0][1]
    feeding = set(sorts[0][4])  # locals on the way into the sort
    for u in fn.uses(vec_local):
        kind = u[0]
        if kind == 'drop':
            continue
        if kind == 'stmt':
            _, bb, idx, st, role, proj = u
            if st['d']['l'] in feeding and fn.dominates(bb, sb):
                continue
            if bb != sb and fn.dominates(sb, bb):
                continue
            return False
        elif kind == 'callarg':
            _, bb, t, k, proj = u
            if t['d']['l'] in feeding and fn.dominates(bb, sb):
                continue
            if bb != sb and fn.dominates(sb, bb):
                continue
            return False
        else:
            return False
    return True


def loop_body(fn, next_bb):
    body = None
    for h, blocks in fn.loops():
        if next_bb in blocks and (body is None or len(blocks) > len(body)):
            body = blocks  # the outermost loop driven by this iterator (inner loops over one item's values are part of it)
    if body is None:
        return ('unclassified', 'loop not recognised', next_bb)
    inserts = 0
    lookups = 0
    pushed = set()
    for b in sorted(body):
        t = fn.blocks[b]['t']
        if t['k'] != 'call':
            continue
        c = norm(t.get('callee') or '?')
        name = last_seg(c)
        if LOOP_BODY_INSERTS.search(c) or LOOP_BODY_INSERTS.search(norm(t.get('resolved') or '')):
            inserts += 1
            continue
        if call_matches(t, ['alloc::vec::Vec::push', 'alloc::vec::Vec::extend_from_slice', 'alloc::vec::Vec::insert']):
            # pushing in hash order is fine only if the vector is stably sorted before anything else reads it
            vecs = set()
            per_item = True
            for o in origins(fn, t['args'][0]):
                if o.kind == 'call' and call_matches(o.term, ['alloc::vec::Vec::new', 'alloc::vec::Vec::with_capacity']):
                    vecs.add(o.term['d']['l'])
                    per_item = per_item and o.bb in body
                else:
                    vecs.add(None)
                    per_item = False
            if per_item and vecs:
                # a vector made afresh for each item (the values of one header): its order is that of the one item's own values
                continue
            if None in vecs or len(vecs) != 1:
                return ('unclassified', 'loop over hash-ordered items pushes into a vector of unknown origin', b)
            pushed |= vecs
            continue
        if name in LOOP_BODY_OK or name in ('into_bytes', 'into_string', 'to_string'):
            continue
        if call_matches(t, ['alloc::vec::Vec::new', 'alloc::vec::Vec::with_capacity', 'alloc::string::String::new']):
            continue  # a fresh per-item buffer
        if name in ('collect', 'map', 'cloned', 'copied') and t.get('args'):
            # an iterator chain over ONE item's own values (`values.iter().map(..).collect()`): the iterator is made inside the loop body
            ADAPT = [('core::iter::traits::iterator::Iterator::map', 0), ('core::iter::traits::iterator::Iterator::cloned', 0),
                     ('core::iter::traits::iterator::Iterator::copied', 0)]
            src = origins(fn, t['args'][0], extra_identity=ADAPT)
            if src and all(o.kind == 'call' and last_seg(o.term.get('callee') or '') in ('iter', 'into_iter', 'iter_mut', 'values', 'keys', 'chars', 'bytes') and o.bb in body
                           for o in src):
                continue
        if any(m in ('format', 'format_args') for m in (t.get('x') or [])):
            continue  # building a string from one item
        if name in LOOP_LOOKUP_OK:
            lookups += 1
            continue
        return ('unclassified', 'loop over hash-ordered items calls %s' % c, b)
    if lookups and not pushed and not inserts:
        # a quantified predicate (`for (k, v) in a { if b.get(k) != Some(v) { return false } }`): order-insensitive when the function
        # returns bool and every value the loop can make it return is a constant
        consts_only = fn.locals[0] == 'bool'
        for b in sorted(body):
            for st_ in fn.blocks[b]['st']:
                if st_['k'] == 'assign' and st_['d']['l'] == 0 and not st_['d']['p']:
                    if not (st_['rv']['k'] == 'use' and st_['rv']['a'].get('o') == 'const'):
                        consts_only = False
            t_ = fn.blocks[b]['t']
            if t_['k'] == 'call' and t_['d']['l'] == 0 and not t_['d']['p']:
                consts_only = False
        if consts_only:
            return ('ok', 'loop evaluates a quantified predicate over the items (lookups and comparisons only, constant results)', next_bb)
        return ('unclassified', 'loop over hash-ordered items computes a non-constant result from lookups', next_bb)
    for v in pushed:
        if not sorted_after_loop(fn, v, body):
            return ('bad', 'loop pushes hash-ordered items into a Vec that is not stably sorted before it is used', next_bb)
    if pushed:
        return ('ok', 'loop pushes into a Vec that is stably sorted before any use outside the loop', next_bb)
    return ('ok', 'loop body only converts and inserts into another unordered container (%d insert call(s))' % inserts, next_bb)


def sorted_after_loop(fn, vec_local, body):
    """every use of the Vec outside the filling loop lies in a block dominated by a stable sort of it"""
    sinks = flows_to(fn, vec_local, whole_only=True)
    sorts = [s for s in sinks if s[0] == 'callarg' and call_matches(s[2], SORTS) and s[3] == 0 and s[1] not in body]
    if not sorts:
        return False
    sb = sorts[0][1]
    feeding = set(sorts[0][4])
    for u in fn.uses(vec_local):
        if u[0] == 'drop':
            continue
        bb = u[1]
        if bb in body:
            continue
        dest = u[3]['d']['l'] if u[0] == 'stmt' else (u[2]['d']['l'] if u[0] == 'callarg' else None)
        if dest in feeding and fn.dominates(bb, sb):
            continue
        if bb != sb and fn.dominates(sb, bb):
            continue
        return False
    return True


def find_wrappers(crates):
    """local functions whose return value is a hash-ordered iterator obtained from a source call"""
    wrappers = {}
    changed = True
    while changed:
        changed = False
        for c in crates:
            for f in c.built:
                if f.npath in wrappers or f.j.get('exp'):
                    continue
                for bb, t in f.calls():
                    if is_source_call(t, wrappers):
                        if any(s[0] == 'return' for s in flows_to(f, t['d']['l'], whole_only=True)):
                            wrappers[f.npath] = f
                            changed = True
                            break
    return wrappers


AMBIENT = [
    (re.compile(r'^std::time::SystemTime::now$'), 'wall clock'),
    (re.compile(r'^std::time::Instant::now$'), 'monotonic clock'),
    (re.compile(r'^std::time::(SystemTime|Instant)::elapsed$'), 'clock (elapsed() reads the current time)'),
    (re.compile(r'^chrono::.*::(now|today)$'), 'wall clock (chrono)'),
    (re.compile(r'^rand(_core|_chacha)?::'), 'rand'),
    (re.compile(r'^std::thread::current$'), 'thread identity'),
    (re.compile(r'^std::thread::(sleep|park|yield_now)'), 'thread timing'),
    (re.compile(r'^std::env::'), 'process environment'),
    (re.compile(r'^std::process::id$'), 'process id'),
    (re.compile(r'^std::hash::random::RandomState::new$'), 'random hasher state used directly'),
    (re.compile(r'^core::fmt::Pointer::fmt$'), 'address formatting'),
    (re.compile(r'^getrandom::'), 'getrandom'),
    (re.compile(r'^uuid::'), 'uuid'),
    (re.compile(r'^core::task::wake::Waker::(data|as_raw|vtable)$|^core::task::wake::RawWaker::(data|vtable)$'), 'address of a waker'),
    (re.compile(r'^alloc::(sync::Arc|rc::Rc|sync::Weak|rc::Weak)::(as_ptr|into_raw)$|^core::ptr::\w+::<impl \*(const|mut) T>::(addr|expose_provenance)$|'
                r'^core::ptr::(from_ref|from_mut|addr_of)$'), 'memory address'),
    (re.compile(r'^futures_util::async_await::random::'), 'futures select!/join-style macros start from a pseudo-random branch; use select_biased!'),
    (re.compile(r'^(fastrand|oorandom|nanorand|tinyrand)::'), 'pseudo-random generator'),
    (re.compile(r'^std::collections::hash::map::RandomState|^std::hash::random::DefaultHasher::new|^ahash::random_state'), 'randomly seeded hasher'),
]


def ambient_hits(fn):
    for bb, t in fn.calls():
        for key in ('callee', 'resolved'):
            c = norm(t.get(key) or '')
            for rx, what in AMBIENT:
                if rx.search(c):
                    yield bb, '%s (%s)' % (c, what)
                    break
            else:
                continue
            break
    for bb, idx, s in fn.stmts('assign'):
        rv = s['rv']
        if rv['k'] == 'cast' and rv['ck'] in ('PointerExposeProvenance',):
            if s.get('x') and not all(e.startswith('desugar:') for e in s['x']):
                continue
            yield bb, 'pointer-to-integer cast %s -> %s' % (rv['from'], rv['to'])


# fields a hand-written equality may ignore, with the reason
EQ_FIELD_EXCEPTIONS = {
    ('crux_time::command::TimerHandle', 'abort'): 'identity of a timer is its id; the abort sender carries no value',
}


# operations that consume a HeaderValues as a whole list
HEADER_VALUES_WHOLE = {'iter', 'into_iter', 'eq', 'ne', 'len', 'clone', 'to_vec', 'cmp', 'partial_cmp', 'hash'}


def check(ctx, rep):
    rep.rule('R11.a', 'hash-ordered iteration never reaches an order-sensitive consumer', floor=8)
    rep.rule('R11.b', 'no library function of the runtime crates consults a clock, rand, thread identity, env or addresses', floor=5)
    rep.rule('R11.c', 'hand-written PartialEq/Hash impls read every field of the type (or the field is tabled)', floor=3)
    rep.rule('R11.d', 'interior-mutable statics are exactly the tabled ones', floor=2)
    rep.rule('R11.e', 'hand-written equality over header maps compares every value of every header', floor=1)
    cfgs = ['default'] + (['allfeat'] if ctx.has('allfeat') else [])
    for cfg in cfgs:
        crates = []
        for n in RUNTIME_CRATES:
            c = ctx.crate(cfg, n)
            if c is None:
                rep.missing('R11.a', '%s facts (%s)' % (n, cfg))
                return
            crates.append(c)
        wrappers = find_wrappers(crates)
        for c in crates:
            n_ambient = 0
            exp_roots = set(g.path for g in c.built if g.j.get('exp') and g.kind != 'Closure')
            for f in c.built:
                if f.j.get('exp'):
                    # a body produced by a macro: derive output (its whole item is generated) is skipped; a closure a macro such as
                    # select! puts inside a hand-written function is still scanned for ambient nondeterminism
                    if f.kind == 'Closure' and f.root not in exp_roots:
                        for bb, what in ambient_hits(f):
                            n_ambient += 1
                            rep.bad('R11.b', '%s|%s' % (f.kpath, what), 'ambient nondeterminism at %s: %s' % (f.where(bb), what))
                    continue
                # R11.a
                k = 0
                for bb, t in f.calls():
                    if not is_source_call(t, wrappers):
                        continue
                    k += 1
                    what = last_seg(t.get('callee') or '?')
                    verdicts = classify(f, t['d']['l'], c)
                    key = '%s|%s#%d' % (f.kpath, what, k)
                    bad = [v for v in verdicts if v[0] in ('bad', 'unclassified')]
                    if bad:
                        for v in bad:
                            rep.bad('R11.a', '%s|%s' % (key, v[1]), 'hash-ordered iteration at %s: %s%s' % (
                                f.where(bb), v[1], ' at ' + f.where(v[2]) if v[2] is not None else ''),
                                site=key + '@' + cfg)
                    else:
                        rep.ok('R11.a', key + '@' + cfg, '; '.join(sorted(set(v[1] for v in verdicts))))
                # R11.a (containers): a hash-ordered container is only ever used through point operations or through one of the
                # iteration entry points classified above; handing it to anything else lets its order leak unseen (e.g. an
                # Option<HashSet<_>> consumed by Iterator::flatten)
                for bb, t in f.calls():
                    cn = norm(t.get('callee') or '')
                    if cn.startswith('std::collections::hash::') or is_source_call(t, wrappers) or last_seg(cn) in HASH_POINT_OPS or \
                            any(cn.startswith(w) for w in HASH_WRAPPER_OK):
                        continue
                    hashed = [a.get('t') for a in (t.get('args') or []) if HASH_CONTAINER_T.search(a.get('t') or '')]
                    if hashed:
                        rep.bad('R11.a', '%s|%s|hash-container-escapes' % (f.kpath, last_seg(cn)),
                                'hash-ordered container (%s) handed to %s at %s: its iteration order (random per process) can reach an '
                                'order-sensitive consumer without passing any of the analysed iteration calls' % (hashed[0][:80], cn, f.where(bb)),
                                site='%s|%s@%s' % (f.kpath, last_seg(cn), cfg))
                # R11.b (addresses as order): an ordered container or a sort keyed by raw pointers orders by memory address
                for bb, t in f.calls():
                    cn = norm(t.get('callee') or '')
                    ordered_ = cn.startswith(('alloc::collections::btree::', 'alloc::collections::binary_heap::')) or \
                        bool(re.search(r'::sort(_\w+)?$|::cmp$|::partial_cmp$|::binary_search\w*$', cn))
                    ptrs_ = [x for x in (t.get('targs') or []) if re.match(r'^\*(const|mut) ', x)]
                    if ordered_ and ptrs_:
                        rep.bad('R11.b', '%s|%s|ordered-by-address' % (f.kpath, last_seg(cn)),
                                'values are ordered by a raw pointer (%s) at %s: the order follows memory addresses, which differ from run to run'
                                % (ptrs_[0], f.where(bb)))
                # R11.b
                hits = list(ambient_hits(f))
                for bb, what in hits:
                    n_ambient += 1
                    rep.bad('R11.b', '%s|%s' % (f.kpath, what), 'ambient nondeterminism at %s: %s' % (f.where(bb), what))
            if n_ambient == 0:
                rep.ok('R11.b', '%s@%s' % (c.name, cfg), 'no call to a clock, rand, thread identity, env, process id, '
                       'RandomState, fmt::Pointer and no pointer-to-integer cast in %d functions' % len(c.built))
            # R11.c
            for i in c.impls:
                if i['derived'] or not i['self_adt']:
                    continue
                if not (path_matches(i['trait'], 'core::cmp::PartialEq') or path_matches(i['trait'], 'core::hash::Hash')):
                    continue
                adt = c.adts.get(norm(i['self_adt']))
                if adt is None or adt['kind'] != 'struct':
                    continue
                meth = 'eq' if 'PartialEq' in i['trait'] else 'hash'
                fns = [f for f in c.built if f.path.startswith(i_method_prefix(i, meth, c))]
                fns = [f for f in c.built if f.assoc.get('impl') == i['path'] and f.name == meth]
                nested = []
                for f in fns:
                    nested += c.closures_of(f)
                # ... and the type's own inherent methods the comparison calls (`self.version() == other.version()`), depth 2
                by_np = {}
                for g in c.built:
                    by_np.setdefault(g.npath, []).append(g)
                for _ in range(2):
                    for f in list(fns + nested):
                        for bb, t in f.calls():
                            for g in by_np.get(norm(t.get('resolved') or t.get('callee') or ''), []):
                                if g not in fns and g not in nested and g.kind == 'AssocFn' and not g.assoc.get('trait') \
                                        and norm(g.assoc.get('self_adt') or '') == norm(i['self_adt']):
                                    nested.append(g)
                                    nested += [h for h in c.closures_of(g) if h not in nested]
                read = set()
                for f in fns + nested:
                    read |= fields_read(f)
                for fld in adt['variants'][0]['fields']:
                    key = '%s|%s|%s' % (norm(i['self_adt']), norm(i['trait_full'] or i['trait']), fld['name'])
                    exc = EQ_FIELD_EXCEPTIONS.get((norm(i['self_adt']), fld['name']))
                    if fld['name'] in read:
                        rep.ok('R11.c', key + '@' + cfg, 'field is read by %s' % meth)
                    elif exc:
                        rep.ok('R11.c', key + '@' + cfg, 'tabled: ' + exc)
                    else:
                        rep.bad('R11.c', key, 'hand-written %s for %s never reads field `%s`' % (
                            meth, norm(i['self_adt']), fld['name']), site=key + '@' + cfg)
            # R11.e: a hand-written equality that looks at header maps compares every value of a header: a HeaderValues is consumed
            # only as a whole (iter / == / len), never through its Deref to the first value, `last`, `get` or an index
            for i in c.impls:
                if i['derived'] or not i['self_adt'] or not path_matches(i['trait'], 'core::cmp::PartialEq'):
                    continue
                fns = [f for f in c.built if f.assoc.get('impl') == i['path'] and f.name in ('eq', 'ne')]
                bodies = list(fns)
                for f in fns:
                    bodies += c.closures_of(f)
                # ... and the crate-local helpers the equality calls (depth 2), with their closures
                by_npath = {}
                for g in c.built:
                    by_npath.setdefault(g.npath, []).append(g)
                for _ in range(2):
                    for f in list(bodies):
                        for bb, t in f.calls():
                            for g in by_npath.get(norm(t.get('resolved') or t.get('callee') or ''), []):
                                if g not in bodies and g.kind in ('Fn', 'AssocFn') and not g.assoc.get('trait'):
                                    bodies.append(g)
                                    bodies += [h for h in c.closures_of(g) if h not in bodies]
                touched = False
                partial = []
                for f in bodies:
                    for bb, t in f.calls():
                        a0 = (t['args'][0].get('t') or '') if t.get('args') else ''
                        tys = [a0, t.get('cself') or '', t.get('rself') or '']
                        if not any(re.match(r"^(&(mut )?('\w+ )?)*[\w:]*header_values::HeaderValues$", x) for x in tys):
                            continue
                        touched = True
                        what = last_seg(t.get('callee') or '?')
                        if what not in HEADER_VALUES_WHOLE:
                            partial.append((f, bb, norm(t.get('callee') or '?')))
                if touched:
                    key = '%s|%s|all-header-values' % (norm(i['self_adt']), norm(i['trait_full'] or i['trait']))
                    rep.expect('R11.e', not partial, key, 'HeaderValues are compared as whole lists (iter / ==)',
                               'hand-written equality of %s looks at only part of a header\'s values (%s): values that differ elsewhere compare equal'
                               % (norm(i['self_adt']), ', '.join('%s at %s' % (w, f.where(bb)) for f, bb, w in partial)), site=key + '@' + cfg)
            # R11.d
            for s in c.statics:
                if s['freeze'] and not s['mutable']:
                    continue
                p = norm(s['path'])
                tabled = {'crux_time::get_timer_id::COUNTER': 'timer id counter (ids are excluded from the replay comparison)',
                          'crux_time::CLEARED_TIMER_IDS': 'legacy cleared-timer set: insert/remove only, never iterated'}
                if p in tabled:
                    rep.ok('R11.d', p + '@' + cfg, tabled[p])
                else:
                    rep.bad('R11.d', p, 'new process-wide mutable state: static %s : %s' % (p, s['ty']))
    controls(ctx, rep)
    rep.assume('http_types Headers is a std HashMap with the default RandomState (read in the fork\'s headers.rs); '
               'HeaderValues iterates a Vec')
    rep.assume('crossbeam and futures channels, slab and BTreeMap are deterministic given a deterministic caller')


def i_method_prefix(i, meth, c):
    return '\0'


def fields_read(fn):
    """names of struct fields projected from any place in the function"""
    out = set()

    def place(p):
        if isinstance(p, dict):
            for tok in p.get('p', []):
                if tok.startswith('.'):
                    out.add(tok[1:].lstrip('^'))
    for blk in fn.blocks:
        for s in blk['st']:
            if s['k'] == 'assign':
                place(s['d'])
                rv = s['rv']
                for key in ('a', 'b'):
                    place(rv.get(key))
                for o in rv.get('ops', []):
                    place(o)
        t = blk['t']
        for a in t.get('args', []):
            place(a)
        place(t.get('a'))
    return out


def controls(ctx, rep):
    c = ctx.crate('controls', 'crux_verif_controls')
    if c is None:
        rep.control('controls crate analysed', False)
        return

    def verdict(name):
        fs = c.find('c11::' + name)
        if not fs:
            return None
        f = fs[0]
        vs = []
        for bb, t in f.calls():
            if is_source_call(t, {}):
                vs += classify(f, t['d']['l'], c)
        return vs
    for name, want_bad in (('collect_vec', True), ('collect_sorted', False), ('zip_two', True), ('count_only', False),
                           ('first_key', True), ('loop_push', True), ('collect_map', False)):
        vs = verdict(name)
        got = None if vs is None or not vs else any(v[0] in ('bad', 'unclassified') for v in vs)
        rep.control('R11.a %s on c11::%s' % ('fires' if want_bad else 'is quiet', name), got is want_bad, 'verdicts %r' % (vs,))
    fs = c.find('c11::ambient_clock')
    rep.control('R11.b fires on SystemTime::now', bool(fs) and len(list(ambient_hits(fs[0]))) >= 1)
    fs = c.find('c11::ambient_addr')
    rep.control('R11.b fires on a pointer-to-integer cast', bool(fs) and len(list(ambient_hits(fs[0]))) >= 1)
