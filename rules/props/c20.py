"""C20 — the CLI's type registry is a pure, closed function of the crate description (structural clauses)."""
import os
import re

from rules.facts import norm, path_matches, origins, flows_to, call_matches, last_seg
from rules import extract

CONFIGS = {'quick': ['default', 'controls'], 'thorough': []}
TECHNIQUE = ('static analysis: ids-are-only-compared dataflow rule, no-ordering impl table, position-provenance rule for every Indexed, '
             'sort-before-use rule on aggregated tuples, ordered-output type rule, vendored-table agreement (thorough)')
EXPLANATION = (
    'R20.a values of rustdoc Id / GlobalId.id / crate_id flow only into equality tests, hashing and the GlobalId constructor: no '
    'ordering, arithmetic or cast touches them, and GlobalId / ItemNode / SummaryNode / CrateNode implement no Ord or PartialOrd (so '
    'the result is invariant under a consistent renumbering of ids); R20.b every Indexed { index, .. } takes its index from '
    'Iterator::position over the slice produced by ItemNode::fields / variants (or copies it from another Indexed), and those two '
    'functions enumerate the parent\'s declared id list and consult should_skip — indices are contiguous from zero in declaration order '
    'among non-skipped members; R20.c every helper that receives aggregated Indexed tuples sorts them (by index) before use or inserts '
    'them into a BTreeMap keyed by the index; R20.d the registry and ContainerFormat::Enum are BTreeMaps; R20.e (thorough) the vendored '
    'serde rename-rule table and the vendored serde-reflection Format types agree with the pinned dependencies. NOT decided: closedness '
    '(depends on the input), agreement with serde-reflection\'s tracing, invariance of the datalog evaluation under crate loading order, '
    'and which type wins when two share a name. R20.f a pairwise node predicate answers true only behind an equality of the crate names.')

ID_TOKENS = ('.id', '.crate_id')
ORDER_OPS = ('Lt', 'Le', 'Gt', 'Ge', 'Add', 'Sub', 'Mul', 'Div', 'Rem', 'Shl', 'Shr', 'AddWithOverflow', 'SubWithOverflow',
             'MulWithOverflow', 'BitXor', 'BitAnd', 'BitOr', 'Cmp')
NODE_TYPES = ['crux_cli::codegen::node::GlobalId', 'crux_cli::codegen::node::ItemNode', 'crux_cli::codegen::node::SummaryNode',
              'crux_cli::codegen::node::CrateNode']


def is_raw_id_origin(o):
    suf = getattr(o, 'suffix', None) or []
    if not suf:
        return False
    if suf[-1] in ID_TOKENS and o.kind in ('arg', 'call', 'undefined', 'rvalue', 'agg'):
        # `.id` of a GlobalId is the raw u32; `.id` of a node is the GlobalId itself (compared as a whole)
        return True
    if len(suf) >= 2 and suf[-1] == '.0' and suf[-2] == '.id':
        return True
    return False


def hand_fns(cli):
    return [f for f in cli.built if not f.j.get('exp') and f.npath.startswith(('crux_cli::codegen', '<crux_cli::codegen'))
            and '::serde_generate::' not in f.npath and '::generate::' not in f.npath]


def check(ctx, rep):
    rep.rule('R20.a', 'rustdoc ids are only ever compared for equality or hashed; node types implement no ordering', floor=8)
    rep.rule('R20.b', 'every Indexed takes its index from Iterator::position over the declared, non-skipped member list', floor=4)
    rep.rule('R20.c', 'aggregated Indexed tuples are sorted (or keyed by index) before use', floor=3)
    rep.rule('R20.d', 'the registry and enum formats are ordered maps', floor=2)
    cli = ctx.crate('default', 'crux_cli')
    if cli is None:
        rep.missing('R20.a', 'crux_cli facts')
        return
    fns = hand_fns(cli)
    if len(fns) < 100:
        rep.bad('R20.a', 'scope', 'expected at least 100 hand-written codegen functions, found %d' % len(fns))
    # ---- R20.a
    for t in NODE_TYPES:
        bad = [i['trait'] for i in cli.impls if i['self_adt'] and norm(i['self_adt']) == t and
               norm(i['trait'] or '') in ('core::cmp::Ord', 'core::cmp::PartialOrd')]
        rep.expect('R20.a', not bad, 'no-ord|%s' % t, 'implements no Ord / PartialOrd',
                   '%s implements %s: an ordering over rustdoc ids makes the registry depend on how rustdoc numbered the items' % (t, bad))
    n_eq = 0
    for f in fns:
        for bb, i, s in f.stmts('assign'):
            rv = s['rv']
            if rv['k'] == 'binop':
                for key in ('a', 'b'):
                    o = rv.get(key)
                    if not o or 'l' not in o:
                        continue
                    if any(is_raw_id_origin(og) for og in origins(f, o, through_casts=True)):
                        if rv['op'] in ('Eq', 'Ne'):
                            n_eq += 1
                        else:
                            rep.bad('R20.a', '%s|%s on id' % (f.kpath, rv['op']), 'a rustdoc id takes part in `%s` at %s' % (rv['op'], f.where(bb)))
            elif rv['k'] == 'cast' and rv['ck'] in ('IntToInt', 'IntToFloat'):
                o = rv['a']
                if 'l' in o and any(is_raw_id_origin(og) for og in origins(f, o)):
                    rep.bad('R20.a', '%s|cast of id' % f.kpath, 'a rustdoc id is cast to %s at %s (ids must stay opaque)' % (rv['to'], f.where(bb)))
        for bb, t in f.calls('core::cmp::Ord::cmp', 'core::cmp::PartialOrd::partial_cmp', 'core::cmp::Ord::max', 'core::cmp::Ord::min',
                             'core::cmp::PartialOrd::lt', 'core::cmp::PartialOrd::le', 'core::cmp::PartialOrd::gt', 'core::cmp::PartialOrd::ge'):
            ta = ' '.join(t.get('targs') or [])
            if re.search(r'rustdoc_types::Id|node::GlobalId|node::ItemNode|node::SummaryNode', ta) or \
                    any(is_raw_id_origin(og) for a in t['args'] for og in origins(f, a)):
                rep.bad('R20.a', '%s|%s' % (f.kpath, last_seg(t['callee'])), 'ordering comparison over ids at %s' % f.where(bb))
        for bb, t in f.calls():
            c = norm(t.get('callee') or '')
            if re.search(r'::(sort|sort_by|sort_by_key|sort_unstable|sort_unstable_by|sort_unstable_by_key|binary_search\w*)$', c):
                ta = ' '.join(t.get('targs') or [])
                if re.search(r'rustdoc_types::Id|node::GlobalId|node::ItemNode|node::SummaryNode|node::CrateNode', ta) and 'Indexed' not in ta:
                    rep.bad('R20.a', '%s|%s' % (f.kpath, last_seg(c)), 'a collection of id-carrying nodes is sorted at %s' % f.where(bb))
    rep.expect('R20.a', n_eq >= 2, 'id-uses', '%d equality tests on raw ids, no other operator, cast or ordering call' % n_eq,
               'no equality test on ids found at all (rule needs review)')
    # Hash impls of the nodes hash the id only
    for t in NODE_TYPES[1:]:
        hs = [f for f in cli.built if f.name == 'hash' and path_matches(f.assoc.get('trait'), 'core::hash::Hash') and norm(f.assoc.get('self_adt') or '') == t]
        es = [f for f in cli.built if f.name == 'eq' and path_matches(f.assoc.get('trait'), 'core::cmp::PartialEq') and norm(f.assoc.get('self_adt') or '') == t]
        ok = len(hs) == 1 and len(es) == 1
        if ok:
            from rules.props.c11 import fields_read
            ok = fields_read(hs[0]) & {'id', 'item', 'summary', 'crate_'} == {'id'} and fields_read(es[0]) & {'id', 'item', 'summary', 'crate_'} == {'id'}
        rep.expect('R20.a', ok, 'identity|%s' % t, 'eq and hash use the GlobalId only (consistent with each other)',
                   '%s: eq and hash no longer both (and only) use the id' % t)
    # ---- R20.b
    n_idx = 0
    for f in fns:
        for bb, i, s in f.stmts('assign'):
            rv = s['rv']
            if rv['k'] != 'agg' or not path_matches(rv.get('adt'), 'crux_cli::codegen::indexed::Indexed'):
                continue
            n_idx += 1
            idx = dict(zip(rv['fields'], rv['ops']))['index']
            srcs = origins(f, idx, through_casts=True)
            good = bool(srcs)
            for o in srcs:
                if o.kind == 'call' and call_matches(o.term, ['core::iter::traits::iterator::Iterator::position']):
                    # the iterator walks a slice parameter (all_fields / all_variants)
                    it = origins(f, o.term['args'][0], extra_identity=[('core::slice::<impl [T]>::iter', 0)])
                    if not (it and all(x.kind == 'arg' for x in it)):
                        good = False
                elif o.kind == 'call' and last_seg(o.term.get('callee') or '') in ('make_format',) and '.index' in o.suffix:
                    continue
                elif o.kind in ('arg', 'call') and o.suffix and o.suffix[-1] == '.index':
                    continue  # copied from another Indexed
                else:
                    good = False
            rep.expect('R20.b', good, '%s|Indexed.index' % f.kpath, 'index = position in the declared member slice (or copied from an Indexed)',
                       '%s builds an Indexed whose index does not come from Iterator::position over the member list: %s' % (f.where(bb), [repr(o) for o in srcs][:3]))
    if n_idx < 4:
        rep.bad('R20.b', 'sites', 'expected at least 4 constructions of Indexed, found %d' % n_idx)
    for name, ids_fn in (('fields', 'field_ids'), ('variants', 'variant_ids')):
        fs = [f for f in fns if f.name == name and f.kind == 'AssocFn' and path_matches(f.assoc.get('self_adt'), 'crux_cli::codegen::node::ItemNode')]
        if len(fs) != 1:
            rep.missing('R20.b', 'ItemNode::%s' % name)
            continue
        f = fs[0]
        chain = []
        cur = {'l': 0, 'p': []}
        for _ in range(6):
            srcs = [o for o in origins(f, cur, extra_identity=[]) if o.kind == 'call']
            if len(srcs) != 1:
                break
            t = srcs[0].term
            chain.append(last_seg(t.get('callee') or '?'))
            if not t['args']:
                break
            cur = t['args'][0]
        skip_consulted = any(True for g in [f] + cli.closures_of(f) for _ in g.calls('crux_cli::codegen::node::ItemNode::should_skip'))
        walks_declared = ids_fn in chain and chain[:2] == ['collect', 'filter_map']
        if not walks_declared and chain[:1] in (['new'], ['with_capacity']):
            # loop form: a fresh Vec, one push inside a loop whose iterator walks the declared id list front to back
            pushes = [(bb, t) for bb, t in f.calls('alloc::vec::Vec::push') if 'node::ItemNode' in ' '.join(t.get('targs') or [])]
            outer = []
            for nb, nt in f.calls('core::iter::traits::iterator::Iterator::next'):
                src = origins(f, nt['args'][0], extra_identity=[('core::iter::traits::collect::IntoIterator::into_iter', 0), ('core::slice::<impl [T]>::iter', 0),
                                                                ('core::ops::deref::Deref::deref', 0), ('alloc::vec::Vec::as_slice', 0)])
                if src and all(o.kind == 'call' and last_seg(o.term.get('callee') or '') == ids_fn for o in src):
                    outer.append(nb)
            reordering = [last_seg(t['callee']) for bb, t in f.calls() if last_seg(t.get('callee') or '') in
                          ('rev', 'sort', 'sort_by', 'sort_by_key', 'sort_unstable', 'sort_unstable_by', 'sort_unstable_by_key', 'reverse', 'insert', 'swap', 'dedup')]
            walks_declared = len(pushes) == 1 and len(outer) == 1 and not reordering and \
                pushes[0][0] in f.reachable_after(outer[0]) and outer[0] in f.reachable_after(pushes[0][0])
            if walks_declared:
                chain = ['loop over %s(..)' % ids_fn, 'push']
        rep.expect('R20.b', walks_declared and skip_consulted, 'ItemNode::%s' % name,
                   'enumerates %s(..) in order, keeps the members found, consults should_skip (chain %s)' % (ids_fn, chain),
                   'ItemNode::%s no longer enumerates the declared id list (%s) in order with should_skip consulted: chain %s' % (name, ids_fn, chain))
    # ---- R20.c
    n_agg = 0
    by_path = {}
    for g in cli.built:
        by_path.setdefault(g.npath, []).append(g)
    for f in fns:
        if not f.npath.startswith('crux_cli::codegen::formatter::make_'):
            continue
        params = [i for i in range(1, f.argc + 1) if 'Indexed<' in f.locals[i] and f.locals[i].startswith('&[')]
        for p in params:
            n_agg += 1
            verdict, why = sorted_or_keyed(by_path, f, p)
            key = '%s|param%d' % (f.kpath, p)
            rep.expect('R20.c', verdict, key, why, '%s: %s' % (f.path, why))
    if n_agg < 5:
        rep.bad('R20.c', 'sites', 'expected at least 5 helpers receiving aggregated Indexed tuples, found %d' % n_agg)
    check_cross_crate_identity(rep, cli)
    # R20.g: the registry is a function of the description alone: the generator keeps no process-wide mutable state (a memo keyed by
    # (crate name, item id) outlives the run and answers for another description of the same name)
    rep.rule('R20.g', 'crux_cli has no process-wide mutable state besides regexes compiled once from literals', floor=5)
    for st_ in cli.statics:
        ty_ = st_['ty']
        key_ = 'static|%s' % norm(st_['path'])
        if st_['freeze'] and not st_['mutable']:
            rep.ok('R20.g', key_, 'immutable data')
        elif re.match(r'^(once_cell::sync::Lazy|std::sync::lazy_lock::LazyLock|lazy_regex::\w+::Lazy)<regex::(regex::)?(string|bytes)?(::)?\w*Regex>$', ty_) and not st_['mutable']:
            rep.ok('R20.g', key_, 'a regex compiled once from a literal')
        else:
            rep.bad('R20.g', key_, 'process-wide mutable static %s : %s in the type generator: what it remembers from one description can change the '
                    'registry derived from the next' % (norm(st_['path']), ty_))
    # ---- R20.d
    # (whatever the functions are called: every function of the generator that returns a map of containers returns an ordered one, and
    # the registry the entry point hands back is one of them)
    REG = re.compile(r'(alloc::collections::btree::map::BTreeMap|std::collections::hash::map::HashMap|indexmap::\w+::IndexMap)<alloc::string::String, [\w:]*ContainerFormat')
    holders = [(f, REG.search(str(f.locals[0]))) for f in fns if f.kind in ('Fn', 'AssocFn') and REG.search(str(f.locals[0]))]
    ok = bool(holders) and all(m.group(1).endswith('BTreeMap') for f, m in holders) and \
        any(f.npath.startswith('crux_cli::codegen::') and f.npath.count('::') == 2 for f, m in holders)
    rep.expect('R20.d', ok, 'registry-type', 'codegen::format returns BTreeMap<String, ContainerFormat>',
               'the registry returned by codegen::format is no longer a BTreeMap keyed by type name')
    adt = cli.adts.get('crux_cli::codegen::serde_generate::format::ContainerFormat')
    ok = False
    if adt:
        for v in adt['variants']:
            if v['name'] == 'Enum':
                ok = v['fields'][0]['ty'].startswith('alloc::collections::btree::map::BTreeMap<u32,')
    rep.expect('R20.d', ok, 'enum-format-type', 'ContainerFormat::Enum holds BTreeMap<u32, Named<VariantFormat>>',
               'ContainerFormat::Enum is no longer a BTreeMap keyed by the variant index')
    rep.assume('ascent evaluates relations with set semantics to a fixpoint: derived relations do not depend on tuple order')
    rep.assume('NOT DECIDED: closedness, agreement with serde-reflection tracing, crate loading order, name clashes')


OWNED = [('alloc::slice::<impl [T]>::to_owned', 0), ('alloc::borrow::ToOwned::to_owned', 0), ('alloc::slice::<impl [T]>::to_vec', 0)]


PAIR_NODE_TYPES = ('crux_cli::codegen::node::ItemNode', 'crux_cli::codegen::node::SummaryNode', 'crux_cli::codegen::node::CrateNode',
              'crux_cli::codegen::node::GlobalId')
# pairwise predicates that need no crate-name comparison, with the reason
CRATE_GUARD_EXCEPTIONS = {
    'crux_cli::codegen::node::SummaryNode::in_same_module_as': 'compares the full item paths, whose first segment is the crate name',
}


def check_cross_crate_identity(rep, cli):
    """R20.f: rustdoc numbers items per crate description (and `crate_id` is 0 for the local crate in every description), so two nodes
    denote the same thing only if their crate NAMES agree.  Every pairwise predicate on the node types (a bool method taking another
    node) can answer true only behind an equality of the two `crate_` names (or of the two whole GlobalIds)."""
    rep.rule('R20.f', 'a pairwise node predicate answers true only behind an equality of the crate names (numeric rustdoc ids never identify across crates)', floor=8)
    n = 0
    for f in cli.built:
        if f.kind != 'AssocFn' or f.j.get('exp') or not any(path_matches(f.assoc.get('self_adt'), t) for t in PAIR_NODE_TYPES):
            continue
        if f.locals[0] != 'bool' or f.argc < 2:
            continue
        if (f.assoc.get('trait') or '') and not path_matches(f.assoc.get('trait'), 'core::cmp::PartialEq'):
            continue
        others = [i for i in range(2, f.argc + 1) if any(t in f.locals[i] for t in PAIR_NODE_TYPES)]
        if not others or not any(t in f.locals[1] for t in PAIR_NODE_TYPES):
            continue
        n += 1
        key = '%s|crate-name-guard' % f.kpath
        if f.npath in CRATE_GUARD_EXCEPTIONS:
            rep.ok('R20.f', key, 'tabled: ' + CRATE_GUARD_EXCEPTIONS[f.npath])
            continue

        def side(op):
            """(parameter index, reads the crate name or the whole global id) of a comparison operand"""
            out = set()
            for o in origins(f, op):
                if o.kind == 'arg':
                    suf = [t for t in o.suffix if t != '*']
                    named = ('.crate_' in suf) or suf[-1:] == ['.id'] or (suf == [] and 'GlobalId' in f.locals[o.n])
                    out.add((o.n, named))
            return out
        equal_edges = []
        whole_return = False
        for bb, t in f.calls('core::cmp::PartialEq::eq', 'core::cmp::PartialEq::ne'):
            if len(t['args']) != 2:
                continue
            a, b = side(t['args'][0]), side(t['args'][1])
            if not (a and b and all(nm for _, nm in a | b) and {i for i, _ in a} != {i for i, _ in b}):
                continue
            is_ne = last_seg(t['callee']) == 'ne'
            if t['d']['l'] == 0 and not t['d']['p'] and not is_ne:
                whole_return = True
            for sb, st in f.terms('switch'):
                if any(o.kind == 'call' and o.bb == bb and not o.suffix for o in origins(f, st['a'])):
                    zero = [b2 for v, b2 in st['arms'] if v == 0]
                    equal_edges += [(sb, x) for x in zero] if is_ne else [(sb, st['otherwise'])]
        # delegation to another guarded predicate of the node types with the same operands counts as the guard
        delegated = False
        for bb, t in f.calls():
            g = [h for h in cli.built if h.kind == 'AssocFn' and h.npath == norm(t.get('resolved') or t.get('callee') or '') and h.path != f.path and
                 any(path_matches(h.assoc.get('self_adt'), ty) for ty in PAIR_NODE_TYPES) and h.locals[0] == 'bool']
            if g and t['d']['l'] == 0 and not t['d']['p']:
                delegated = True
        non_false = []
        for bb, i, st in f.stmts('assign'):
            if st['d']['l'] == 0 and not st['d']['p'] and not (st['rv']['k'] == 'use' and st['rv']['a'].get('v') == 0 and st['rv']['a'].get('o') == 'const'):
                non_false.append(bb)
        for bb, t in f.calls():
            if t['d']['l'] == 0 and not t['d']['p']:
                non_false.append(bb)
        guarded = whole_return or delegated or (bool(equal_edges) and all(b not in f.reachable([0], removed_edges=equal_edges) for b in non_false))
        rep.expect('R20.f', guarded, key, 'true is reachable only behind an equality of the crate names / global ids',
                   '%s can answer true without having compared the crate names of its two nodes: rustdoc ids (and crate_id, which is 0 for the '
                   'local crate of every description) are per-description numbers, so items of different crates would be identified' % f.path)
    if n < 8:
        rep.bad('R20.f', 'sites', 'expected at least 8 pairwise node predicates, found %d' % n)


def sorted_or_keyed(by_path, f, p, depth=0):
    """the slice of aggregated Indexed tuples in parameter p is sorted before it is read, or inserted into a BTreeMap keyed by the
    index, or handed as a whole to a local helper for which the same holds"""
    sinks = flows_to(f, p, extra_identity=OWNED, whole_only=True)
    sorts = [s for s in sinks if s[0] == 'callarg' and re.search(r'::sort(_by|_by_key|_unstable\w*)?$', norm(s[2].get('callee') or ''))]
    iters = [s for s in sinks if s[0] == 'callarg' and last_seg(s[2].get('callee') or '') in ('iter', 'into_iter', 'len', 'index', 'first', 'last', 'get')]
    ins = [(bb, t) for bb, t in f.calls('alloc::collections::btree::map::BTreeMap::insert')]
    if sorts:
        sb = sorts[0][1]
        ok = all(f.dominates(sb, s[1]) and s[1] != sb for s in iters if s[1] != sb) and bool(iters)
        return ok, ('sorted by index before it is read' if ok else 'reads its aggregated Indexed tuples before (or without) sorting them')
    if ins:
        keyed = all(any(o.suffix and o.suffix[-1] == '.index' for o in origins(f, t['args'][1])) for bb, t in ins)
        return keyed, ('inserted into a BTreeMap keyed by the index' if keyed else 'inserts aggregated tuples into a map that is not keyed by their index')
    # iter().map(|row| (row.index, ..)).collect::<BTreeMap<_, _>>(): keyed by the index
    for cb, ct in f.calls('core::iter::traits::iterator::Iterator::collect'):
        if not any('alloc::collections::btree::map::BTreeMap<' in x for x in (ct.get('targs') or [])):
            continue
        src = origins(f, ct['args'][0])
        if not src or not all(o.kind == 'call' and last_seg(o.term.get('callee') or '') == 'map' for o in src):
            continue
        keyed = True
        for o in src:
            base = origins(f, o.term['args'][0])
            if not base or not all(x.kind == 'call' and x.bb in [s_[1] for s_ in iters] for x in base):
                keyed = False
            for x in origins(f, o.term['args'][1]):
                g = None
                if x.kind == 'agg' and x.stmt['rv'].get('ak') == 'closure':
                    g = next((h for hs in by_path.values() for h in hs if h.path == x.stmt['rv']['def']), None) or \
                        next((h for h in f.crate.built if h.path == x.stmt['rv']['def']), None)
                if g is None:
                    keyed = False
                    continue
                ret = origins(g, {'l': 0, 'p': []})
                for r in ret:
                    if not (r.kind == 'agg' and r.stmt['rv'].get('ak', '').startswith('tuple') and r.stmt['rv']['ops'] and
                            any(y.suffix and '.index' in y.suffix for y in origins(g, r.stmt['rv']['ops'][0]))):
                        keyed = False
                if not ret:
                    keyed = False
        return keyed, ('collected into a BTreeMap keyed by the index' if keyed else 'collects aggregated tuples into a map that is not keyed by their index')
    if depth < 2:
        helpers = []
        for s in sinks:
            if s[0] == 'callarg':
                c = s[2].get('resolved') or s[2].get('callee')
                for g in by_path.get(norm(c or ''), []):
                    helpers.append((g, s[3] + 1))
        if helpers and not iters:
            res = [sorted_or_keyed(by_path, g, k, depth + 1) for g, k in helpers]
            if all(r[0] for r in res):
                return True, 'handed to %s, where it is %s' % (helpers[0][0].name, res[0][1])
            return False, 'handed to %s, which %s' % (helpers[0][0].name, [r[1] for r in res if not r[0]][0])
    return False, 'uses aggregated Indexed tuples in relation order (neither sorted nor keyed by index)'


# ---------------------------------------------------------------------------------------------------
# R20.e vendored tables (thorough): compared as parsed tables, not as text

def _registry_src(crate_dir_prefix):
    base = os.path.expanduser('~/.cargo/registry/src')
    for idx in os.listdir(base):
        for d in os.listdir(os.path.join(base, idx)):
            if d.startswith(crate_dir_prefix):
                return os.path.join(base, idx, d)
    return None


def _locked_version(name):
    lock = open(os.path.join(extract.REPO, 'Cargo.lock')).read()
    m = re.search(r'name = "%s"\nversion = "([^"]+)"' % re.escape(name), lock)
    return m.group(1) if m else None


def _rename_table(src):
    """{rule name string -> variant} from the RENAME_RULES table, and the from_str / apply arms"""
    m = re.search(r'static RENAME_RULES[^=]*=\s*&\[(.*?)\];', src, re.S)
    pairs = re.findall(r'\("([^"]+)",\s*(\w+)\)', m.group(1)) if m else []
    return sorted(pairs)


def _enum_shapes(src, names):
    out = {}
    for n in names:
        m = re.search(r'pub (enum|struct) %s(?:<[^>]*>)?\s*\{(.*?)\n\}' % n, src, re.S)
        if not m:
            out[n] = None
            continue
        body = re.sub(r'//[^\n]*', '', m.group(2))
        body = re.sub(r'#\[[^\]]*\]', '', body)
        body = re.sub(r'\s+', ' ', body).strip()
        out[n] = body
    return out


def thorough_extra(ctx, rep):
    rep.rule('R20.e', 'vendored serde rename rules and serde-reflection Format types agree with the pinned dependencies')
    v = _locked_version('serde_derive')
    d = _registry_src('serde_derive-%s' % v) if v else None
    ours = os.path.join(extract.REPO, 'crux_cli/src/codegen/serde/case.rs')
    if not d or not os.path.exists(os.path.join(d, 'src/internals/case.rs')):
        rep.bad('R20.e', 'serde_derive-source', 'pinned serde_derive %s source not found in the cargo registry' % v)
    else:
        a = _rename_table(open(ours).read())
        b = _rename_table(open(os.path.join(d, 'src/internals/case.rs')).read())
        rep.expect('R20.e', a == b and len(a) >= 8, 'rename-rules', '%d rename rules, identical to serde_derive %s' % (len(a), v),
                   'vendored rename-rule table differs from serde_derive %s: ours %s, theirs %s' % (v, a, b))
    v = _locked_version('serde-reflection')
    d = _registry_src('serde-reflection-%s' % v) if v else None
    ours = os.path.join(extract.REPO, 'crux_cli/src/codegen/serde_generate/format.rs')
    if not d or not os.path.exists(os.path.join(d, 'src/format.rs')):
        rep.bad('R20.e', 'serde-reflection-source', 'pinned serde-reflection %s source not found in the cargo registry' % v)
    else:
        names = ['Format', 'ContainerFormat', 'VariantFormat', 'Named']
        a = _enum_shapes(open(ours).read(), names)
        b = _enum_shapes(open(os.path.join(d, 'src/format.rs')).read(), names)
        for n in names:
            rep.expect('R20.e', a[n] is not None and a[n] == b[n], 'shape|%s' % n, 'declaration of %s identical to serde-reflection %s' % (n, v),
                       'vendored %s differs from serde-reflection %s' % (n, v))
