"""C03 — events are applied one at a time, exactly once, in emission order (structural clauses)."""
import re

from rules.facts import norm, path_matches, origins, flows_to, call_matches, last_seg
from rules.props import c01

CONFIGS = {'quick': ['default', 'controls'], 'thorough': ['allfeat']}
TECHNIQUE = ('static analysis: lock-region rules around App::update/view, type walk over every carrier of the Event parameter, '
             'direct-move provenance from receive to update, unsafe-code scan, shared linear-resource rule')
EXPLANATION = (
    'R03.a every App::update in crux_core library code takes its model from DerefMut of a guard returned by RwLock::write on the '
    'core\'s model field, and App::view from RwLock::read; R03.b inside a write-lock region only expect/deref_mut and one update '
    'are called, and the guard is dropped before the spawner, the executor or process() run (no re-entry while the model is '
    'locked); R03.c every struct field that carries the Event parameter is a FIFO channel endpoint, and an event travels from its '
    'receive to update by direct moves; R03.d no unsafe block or unsafe impl exists in the runtime crates (the type-level '
    'arguments lean on this); R03.f every run of the executor inside Core::process is followed by a look at the event channel before the call '
    'returns, so events emitted during a call are applied by that call in emission order; the linear rule of C01 gives "exactly once"; R03.g a command reports done / ends its stream only when its event and effect queues are empty, so a host never throws away an event a task already emitted. Order between events of different tasks is not decided. R03.h both executor loops return only after finding both queues empty again once any task has run (shared with C01 R01.e). R03.i every hand-written poll function of the command runtime (stream, hosting sink, request / stream futures) that answers Pending has kept the waker of this poll or follows a delegated Pending, so a forwarded event is never parked for ever (shared with C05 R05.c).')

FIFO_CARRIERS = re.compile(
    r'^(crossbeam_channel::channel::(Sender|Receiver)|crux_core::capability::channel::(Sender|Receiver)|'
    r'futures_channel::mpsc::(UnboundedSender|UnboundedReceiver|Sender|Receiver))$')
# carriers of Event that are not channels, with the reason they cannot reorder or hold events back
CARRIER_TABLE = {
    'crux_core::testing::Update.events': 'test helper: Vec built by drain().collect(), in channel order',
    'crux_core::command::Command.context': 'the command\'s own CommandContext (its fields are channel senders)',
    'crux_core::capability::CommandSpawner.context': 'ProtoContext (its fields are channel senders)',
    'crux_core::capability::CapabilityContext.inner': 'Arc<ContextInner> (its fields are channel senders)',
    'crux_core::capability::channel::Sender.inner': 'Arc<dyn SenderInner>: forwards to a crossbeam sender (possibly through map_input)',
    'crux_core::capability::channel::MappedInner.sender': 'Arc<dyn SenderInner>: forwards to the wrapped sender',
    'crux_core::capability::channel::MappedInner.func': 'the mapping function of map_input (user supplied, applied per item)',
    'crux_core::capability::channel::Receiver.inner': 'crossbeam receiver',
    'crux_core::capability::channel::Drain.receiver': 'borrow of the Receiver it drains in order',
    'crux_core::command::stream::CommandSink.events': 'crossbeam sender',
}


# hand-written unsafe blocks that exist today, by file, with the reason they do not touch the runtime's ownership arguments
UNSAFE_TABLE = {
    'crux_http/src/response/decode.rs': 'String::from_utf8_unchecked on bytes encoding_rs reported as valid UTF-8 (body decoding only)',
}


def lock_regions(fn, lock_names):
    """[(guard_local, acquire_bb, set(blocks while the guard is live))] for RwLock::write/read / Mutex::lock"""
    out = []
    for bb, t in fn.calls(*lock_names):
        # the guard: result of expect/unwrap on the lock result
        guards = []
        for s in flows_to(fn, t['d']['l'], whole_only=True):
            if s[0] == 'callarg' and call_matches(s[2], ['core::result::Result::expect', 'core::result::Result::unwrap']):
                guards.append((s[1], s[2]['d']['l']))
        if not guards:
            continue
        gb, g = guards[0]
        # locals the guard is moved into (whole moves only, never borrows)
        aliases = {g}
        changed = True
        while changed:
            changed = False
            for b2, i2, s2 in fn.stmts('assign'):
                rv = s2['rv']
                if rv['k'] == 'use' and rv['a'].get('l') in aliases and not rv['a'].get('p') and not s2['d']['p'] \
                        and s2['d']['l'] not in aliases:
                    aliases.add(s2['d']['l'])
                    changed = True
        ends = []
        for b2, t2 in fn.calls('core::mem::drop'):
            if t2['args'] and t2['args'][0].get('l') in aliases and not t2['args'][0].get('p'):
                ends.append(b2)
        for b2, t2 in fn.terms('drop'):
            if t2['d']['l'] in aliases and not t2['d']['p']:
                ends.append(b2)
        region = fn.reachable_after(gb, removed_blocks=ends) | {gb}
        out.append((g, bb, gb, region, ends))
    return out


def check_model_lock(rep, rid_a, rid_b, core):
    """App::update runs with the model taken from a (blocking) write guard of the core's model lock, alone in its lock region; App::view
    with a guard of the same lock"""
    n_up = 0
    for f in core.built:
        if f.j.get('exp') or '::testing' in f.npath:
            continue
        ups = [(bb, t) for bb, t in f.calls('crux_core::App::update')]
        views = [(bb, t) for bb, t in f.calls('crux_core::App::view')]
        if not ups and not views:
            continue
        regions_w = lock_regions(f, ['std::sync::poison::rwlock::RwLock::write'])
        regions_r = lock_regions(f, ['std::sync::poison::rwlock::RwLock::read'])
        for bb, t in ups:
            n_up += 1
            key = '%s|update' % f.kpath
            src = origins(f, t['args'][2])
            from_guard = bool(src) and all(
                o.kind == 'call' and call_matches(o.term, ['core::result::Result::expect', 'core::result::Result::unwrap']) and
                any(x.kind == 'call' and call_matches(x.term, ['std::sync::poison::rwlock::RwLock::write']) and
                    'model' in c01.field_of_receiver(f, x.term['args'][0]) for x in origins(f, o.term['args'][0]))
                for o in src)
            rep.expect(rid_a, from_guard, key, '&mut model comes from deref_mut of self.model.write().expect(..)',
                       '%s calls App::update with a model that does not come from a write guard of the model lock' % f.where(bb))
            inside = [r for r in regions_w if bb in r[3]]
            if not inside:
                rep.bad(rid_b, key + '|region', 'update at %s is not inside a write-lock region' % f.where(bb))
                continue
            g, lb, gb, region, ends = inside[0]
            calls = [(b2, f.blocks[b2]['t']) for b2 in sorted(region) if f.blocks[b2]['t']['k'] == 'call' and b2 != gb]
            allowed = ['core::ops::deref::DerefMut::deref_mut', 'core::ops::deref::Deref::deref', 'crux_core::App::update',
                       'core::mem::drop', 'core::result::Result::expect']
            foreign = [norm(c.get('callee') or '?') for b2, c in calls if not call_matches(c, allowed)]
            n_updates = len([1 for b2, c in calls if call_matches(c, ['crux_core::App::update'])])
            outside_after = [b2 for b2, c in f.calls('CommandSpawner::spawn', 'QueuingExecutor::run_all', 'crux_core::core::Core::process')]
            reentry = [b2 for b2 in outside_after if b2 in region]
            rep.expect(rid_b, not foreign and n_updates == 1 and not reentry and bool(ends), key + '|scope',
                       'region calls only deref_mut + one update; guard released at %s before spawn/run_all/process' % sorted(set(ends)),
                       '%s: while the model is write-locked the code calls %s%s' % (
                           f.path, foreign or 'update %d times' % n_updates,
                           '; spawn/run_all/process run with the lock held' if reentry else ''))
        for bb, t in views:
            key = '%s|view' % f.kpath
            src = origins(f, t['args'][1])
            from_guard = bool(src) and all(
                o.kind == 'call' and call_matches(o.term, ['core::result::Result::expect', 'core::result::Result::unwrap']) and
                any(x.kind == 'call' and call_matches(x.term, ['std::sync::poison::rwlock::RwLock::read',
                                                              'std::sync::poison::rwlock::RwLock::write']) for x in origins(f, o.term['args'][0]))
                for o in src)
            rep.expect(rid_a, from_guard, key, '&model comes from a guard of the model lock',
                       '%s calls App::view with a model that does not come from a guard of the model lock' % f.where(bb))
    if n_up < 1:
        rep.bad(rid_a, 'update-sites', 'no call of App::update found in crux_core (rule needs review)')



def check_process_looks(rep, rid, core):
    """every event emitted during a call is applied before it returns: each run of the executor in Core::process is followed by a
    look at the event channel (R03.f; shared as R05.i and R08.k)"""
    fs = [f for f in core.find('crux_core::core::Core::process') if f.kind == 'AssocFn']
    rep.rule(rid, 'Core::process applies every queued event before it returns: each run of the executor is followed by a look at the event channel', floor=2)
    from rules.common import Summaries
    if fs:
        f = fs[0]
        sm = Summaries([core])
        run_all = sm.sites(f, ['QueuingExecutor::run_all'], 'must')
        recvs = [(bb, t) for bb, t in f.calls('capability::channel::Receiver::receive', 'capability::channel::Receiver::try_receive')]
        rets = f.return_blocks()
        if len(recvs) == 1 and run_all:
            ne = c01.none_edges_of(f, *recvs[0])
            rep.expect(rid, bool(ne) and all(r not in f.reachable([0], removed_edges=ne) for r in rets), 'return-only-when-empty',
                       'the return is reachable only through the None edge of the event receive',
                       'Core::process can return while events are still queued')
            rep.expect(rid, bool(ne) and all(f.all_paths_pass(b, rets, via_edges=ne) for b in run_all), 'look-after-every-run',
                       'every path from a run of the executor to the return passes the None edge of the event receive',
                       'Core::process can run tasks and return without looking at the event channel again: the events they emitted are '
                       'not applied by this call, and a later shell event is applied before them')
        else:
            rep.bad(rid, 'shape', 'Core::process: expected one event receive and at least one run_all')


def check(ctx, rep):
    rep.rule('R03.a', 'App::update takes the model from a write guard of the core\'s model lock, App::view from a read guard', floor=2)
    rep.rule('R03.b', 'inside a model write-lock region only expect/deref_mut and one update are called; the guard is released before anything else runs', floor=1)
    rep.rule('R03.c', 'every carrier of the Event parameter is a FIFO channel endpoint or tabled; events move directly from receive to update', floor=5)
    rep.rule('R03.d', 'no unsafe block or unsafe impl in the runtime crates', floor=4)
    rep.rule('R03.e', 'no event value is dropped on a normal path (linear rule of C01, restricted to events)', floor=1)
    core = ctx.crate('default', 'crux_core')
    if core is None:
        rep.missing('R03.a', 'crux_core facts')
        return
    check_model_lock(rep, 'R03.a', 'R03.b', core)

    # R03.c carriers
    for p, adt in sorted(core.adts.items()):
        generics = adt.get('generics') or []
        ev_params = [g for g in generics if g in ('Event', 'Ev', 'NewEv')]
        is_core_struct = p == 'crux_core::core::Core'
        for v in adt['variants']:
            for fld in v['fields']:
                ty = fld['ty']
                carries = any(re.search(r'\b%s\b' % g, ty) for g in ev_params) or (is_core_struct and '::Event' in ty)
                if not carries or ty.startswith('core::marker::PhantomData'):
                    continue
                key = '%s.%s' % (p, fld['name'])
                head = norm(ty.split('<')[0])
                if FIFO_CARRIERS.match(head):
                    rep.ok('R03.c', key, 'FIFO channel endpoint %s' % head)
                elif ty in ev_params or (is_core_struct and ty.endswith('::Event')):
                    rep.ok('R03.c', key, 'a single event in transit (no container)')
                elif head in core.adts and head != p:
                    rep.ok('R03.c', key, 'nested carrier %s, whose own fields are checked' % head)
                elif key in CARRIER_TABLE:
                    rep.ok('R03.c', key, 'tabled: ' + CARRIER_TABLE[key])
                elif p.startswith('crux_core::command::builder::') or fld['name'] in ('effect', 'event', 'phantom', '_phantom'):
                    rep.ok('R03.c', key, 'builder marker/make_task field (no event stored)')
                elif re.match(r'^fn\(', ty) or 'PhantomData' in ty:
                    rep.ok('R03.c', key, 'function pointer / marker (no event stored)')
                else:
                    rep.bad('R03.c', key, 'field %s : %s carries the Event parameter and is neither a FIFO channel endpoint nor tabled '
                            '(a container could reorder or hold back events)' % (key, ty))
    # direct move from receive to update in Core::process
    fs = core.find('crux_core::core::Core::process')
    fs = [f for f in fs if f.kind == 'AssocFn']
    if fs:
        f = fs[0]
        for bb, t in f.calls('crux_core::App::update'):
            src = origins(f, t['args'][1])
            direct = bool(src) and all(o.kind == 'call' and call_matches(o.term, ['capability::channel::Receiver::receive']) and
                                       o.suffix == ['as Some', '.0'] and not [s for s in o.steps if s[0] != 'ref'] for o in src)
            rep.expect('R03.c', direct, 'process|receive-to-update', 'the event passed to update is the Some payload of receive(), moved directly',
                       'Core::process: the event given to update does not come directly from the event channel (%s)' % [repr(o) for o in src])
    # R03.f: every event emitted during the call is applied before it returns (shared with C01 R01.a)
    check_process_looks(rep, 'R03.f', core)
    # R03.h: an event a task emits is applied by the call that ran the task: both executors run to quiescence (shared with C01 R01.e)
    rep.rule('R03.h', 'both executor loops read both queues and return only after finding them empty again once any task has run', floor=5)
    c01.check_executor_loops(rep, core, rid='R03.h')
    # R03.g: a hosted command's stream ends only when its event queue was found empty (shared with C07 R07.a / R07.e): an event a task
    # already emitted is never thrown away by the host that forwards the command's outputs
    from rules.props import c07
    rep.rule('R03.g', 'a command reports done / ends its stream only when its event and effect queues are empty, so no emitted event is dropped by its host', floor=3)
    c07.check_is_done(rep, 'R03.g', core)
    c07.check_stream_end(rep, 'R03.g', core)
    # R03.k: the view read after a call reflects every event applied so far, whatever that call returned: the bridge's view entry points
    # compute it from the model each time (a cached copy is stale after a call that failed once update had run) (shared with C09 R09.f)
    from rules.props import c09 as _c09
    rep.rule('R03.k', 'Bridge::view computes the view from the current model on every path (no cache)', floor=2)
    _c09.check_fresh_view(rep, 'R03.k', core)
    # R03.j: an event a task emits after a join is applied only if the joining task is polled again: every task that leaves a command —
    # finished, aborted or evicted — publishes `finished` and wakes its join handles (shared with C07 R07.b)
    rep.rule('R03.j', 'every task that leaves a command publishes `finished` and wakes its join handles', floor=2)
    c07.check_finish_notify(rep, 'R03.j', core)
    # R03.i: an event that was emitted sits in a channel until the task that forwards it is polled again: no hand-written poll function on
    # that path (the command stream, the sink a hosted command forwards into, the request / stream futures) may answer Pending without
    # having kept the waker (shared with C05 R05.c)
    from rules.props import c05
    rep.rule('R03.i', 'every hand-written poll function of the command runtime that returns Pending has kept the waker or follows a delegated Pending', floor=9)
    c05.check_pending_wakers(rep, 'R03.i', core, None, only=lambda f: '::command::' in f.npath or 'capability::' in f.npath, floor=9)
    # R03.d
    for name in ['crux_core', 'crux_http', 'crux_kv', 'crux_time', 'crux_platform']:
        c = ctx.crate('default', name)
        if c is None:
            rep.missing('R03.d', name)
            continue
        user_unsafe = [u for u in c.items['unsafe_blocks'] if u['user'] and not u.get('exp')]
        for k in UNSAFE_TABLE:
            tabled = [u for u in user_unsafe if u['span'].startswith(k)]
            if len(tabled) <= 1:  # exactly the one block that exists today
                user_unsafe = [u for u in user_unsafe if u not in tabled]
        unsafe_impls = [i for i in c.impls if i['unsafe'] and not i['derived'] and not i.get('exp')]
        rep.expect('R03.d', not user_unsafe and not unsafe_impls, name,
                   'no hand-written unsafe block or unsafe impl',
                   '%s contains hand-written unsafe code: %s %s' % (name, [u['span'] for u in user_unsafe], [i['path'] for i in unsafe_impls]))
    # R03.e
    counts = c01.check_linear(rep, core, 'default', rid='R03.e', only=lambda f, ty: 'Event' in ty or 'Ev' in re.findall(r'\b\w+\b', ty))
    if not counts:
        rep.ok('R03.e', 'crux_core', 'no event-typed value is dropped on a normal path')
    rep.assume('std RwLock gives exclusive access to the holder of a write guard')
    rep.assume('crossbeam-channel and futures mpsc unbounded channels are FIFO')
