"""C05 — a command behaves the same wherever it is hosted: no wake-up is lost between layers (structural clauses)."""
import re

from rules.facts import norm, path_matches, origins, flows_to, call_matches, last_seg
from rules.props import c01, c03

CONFIGS = {'quick': ['default', 'controls'], 'thorough': ['allfeat']}
TECHNIQUE = ('static analysis: register-before-look and publish-before-wake dominance rules, a Pending-needs-a-waker path rule over '
             'every hand-written poll function, lock-region rules on the legacy shell futures')
EXPLANATION = (
    'R05.a Command::poll_next registers the host\'s waker before it runs tasks or looks at its channels; R05.b in every Wake impl the '
    'task id is enqueued (and the woken flag stored) before the parent is woken, wake delegates to wake_by_ref, and the parent wake / '
    'ready-queue send are on every path; R05.c in every hand-written Future::poll / Stream::poll_next each path that returns '
    'Poll::Pending first keeps the waker (clone stored or sent, AtomicWaker::register) or comes from the Pending edge of a delegated '
    'poll with the same context (one tabled exception: the command ShellRequest whose channel closed is deliberately unwakeable); '
    'R05.d the legacy futures check their slot and store the waker under one lock that the resolve closure also holds; R05.e a legacy '
    'resolution is followed on every path by taking and waking the stored waker. Output equivalence across hosts is not decided. R05.f no hosting function drops an output it has pulled from a hosted command (the linear rule of C01 restricted to the hosts). R05.g both executor loops run to quiescence (shared with C01). R05.h over the serialized bridge a response resumes exactly the request issued under its id: lookup, resolution and removal of the registry entry use that id inside one lock region (shared with C09 / C08). R05.i every run of the executor in Core::process is followed by a look at the event channel (shared with C03 R03.f). R05.j a combinator returns a fresh host, never an operand (shared with C06 R06.g; C06-F2\'s exact key is not repeated).')

POLL_NAMES = ('poll', 'poll_next', 'poll_unpin', 'poll_next_unpin', 'try_poll', 'try_poll_next', 'poll_fill_buf', 'poll_read',
              'poll_ready', 'poll_flush', 'poll_close')
# hand-written poll functions that may return Pending without keeping a waker, with the reason
PENDING_EXCEPTIONS = {
    '<crux_core::command::context::ShellRequest<T> as core::future::future::Future>::poll':
        'the response channel closed (request dropped): the future stays Pending without a waker so that the executor evicts the task (C07)',
}


def cx_param(fn):
    """index of the &mut Context parameter"""
    for i in range(1, fn.argc + 1):
        if 'core::task::wake::Context' in fn.locals[i]:
            return i
    return None


def from_param(fn, operand, n):
    src = origins(fn, operand, through_casts=True)
    return bool(src) and all(o.kind == 'arg' and o.n == n for o in src)


def waker_capture_blocks(fn, cx):
    """blocks in which the context's waker is kept for later"""
    out = []
    for bb, t in fn.calls('futures_core::task::__internal::atomic_waker::AtomicWaker::register'):
        if any(o.kind == 'call' and call_matches(o.term, ['core::task::wake::Context::waker']) and from_param(fn, o.term['args'][0], cx)
               for o in origins(fn, t['args'][1])):
            out.append(bb)
    for bb, t in fn.calls('core::clone::Clone::clone'):
        if 'core::task::wake::Waker' not in (t.get('targs') or [''])[0]:
            continue
        if not any(o.kind == 'call' and call_matches(o.term, ['core::task::wake::Context::waker']) and from_param(fn, o.term['args'][0], cx)
                   for o in origins(fn, t['args'][0])):
            continue
        # the clone is stored into a field or sent on a channel
        for s in flows_to(fn, t['d']['l'], whole_only=True):
            if s[0] == 'field':
                out.append(s[1])
            elif s[0] == 'callarg' and last_seg(s[2].get('callee') or '') in ('send', 'try_send', 'unbounded_send', 'push', 'push_back', 'replace', 'insert'):
                out.append(s[1])
    return out


def delegated_pending_edges(fn, cx):
    edges = []
    for bb, t in fn.calls():
        if last_seg(t.get('callee') or '') not in POLL_NAMES:
            continue
        if not t['d']['t'].startswith('core::task::poll::Poll<'):
            continue
        if not any(from_param(fn, a, cx) for a in t['args'][1:]):
            continue
        res = t['d']['l']
        for sb, st in fn.terms('switch'):
            for o in origins(fn, st['a']):
                if o.kind == 'rvalue' and o.stmt['rv']['k'] == 'discr' and o.stmt['rv']['a']['l'] == res and not o.stmt['rv']['a']['p']:
                    tgt = None
                    for v, b in st['arms']:
                        if v == 1:
                            tgt = b
                    if tgt is None:
                        tgt = st['otherwise']
                    edges.append((sb, tgt))
    return edges


def pending_blocks(fn):
    out = []
    for bb, idx, s in fn.stmts('assign'):
        rv = s['rv']
        if rv['k'] == 'agg' and rv.get('adt') == 'core::task::poll::Poll' and rv['variant'] == 'Pending':
            out.append(bb)
    return out


def hand_written_polls(crate):
    out = []
    for f in crate.built:
        if f.j.get('exp') or f.kind not in ('AssocFn', 'Fn', 'Closure') or f.coroutine:
            continue
        tr = norm(f.assoc.get('trait') or '')
        if (tr == 'core::future::future::Future' and f.name == 'poll') or (tr == 'futures_core::stream::Stream' and f.name == 'poll_next'):
            out.append(f)
        elif str(f.locals[0]).startswith('core::task::poll::Poll<') and cx_param(f) is not None:
            # any other hand-written poll function: Sink::poll_ready / poll_flush / poll_close, AsyncRead::poll_read, a poll_fn closure, a helper
            out.append(f)
    return out


def check(ctx, rep):
    rep.rule('R05.a', 'Command::poll_next registers the host waker before running tasks or reading its channels', floor=3)
    rep.rule('R05.b', 'Wake impls publish (enqueue id, store woken) before they wake the parent; wake delegates to wake_by_ref', floor=5)
    rep.rule('R05.c', 'every path of a hand-written poll that returns Pending has kept the waker or follows a delegated Pending', floor=5)
    rep.rule('R05.d', 'legacy shell futures check and register under one lock, which the resolve closure also takes', floor=4)
    rep.rule('R05.e', 'a legacy resolution takes and wakes the stored waker on every path after delivering', floor=2)
    core = ctx.crate('default', 'crux_core')
    time = ctx.crate('default', 'crux_time')
    if core is None or time is None:
        rep.missing('R05.a', 'crux_core / crux_time facts')
        return
    # ---- R05.a
    check_register_before_look(rep, 'R05.a', core)
    # ---- R05.b
    check_wake_impls(rep, 'R05.b', core, time)
    # ---- R05.c
    check_pending_wakers(rep, 'R05.c', core, time)
    # ---- R05.d / R05.e legacy futures
    check_legacy_futures(rep, 'R05.d', 'R05.e', core)
    # R05.g: work a resumed task makes runnable on the core executor is done by the same call under every host: both executor loops run to
    # quiescence (shared with C01 R01.e)
    rep.rule('R05.g', 'both executor loops read both queues and return only after finding them empty again once any task has run', floor=5)
    c01.check_executor_loops(rep, core, rid='R05.g')
    # R05.i: an event a hosted command emits is fed back to update by the same call, as it would be seen at once when the command is
    # inspected directly: every run of the executor in Core::process is followed by a look at the event channel (shared with C03 R03.f /
    # C01 R01.a; seeded: the run_all inside the event loop moved after the loop, so a two-hop event chain arrives one call late)
    c03.check_process_looks(rep, 'R05.i', core)
    # R05.j: a command hosted by a combinator produces what it produces on its own whatever happens to its neighbours: the combinator
    # returns a fresh host, never one of the operands (whose abort flag — shared with every handle taken from it earlier — would then
    # govern the others). Shared with C06 R06.g; the deliberate left-operand hosting of `and` is finding C06-F2 of its own property and is
    # not repeated here (exact key). Seeded (three times by now, independently): Command::all using its first member as the base.
    from rules.props import c06 as _c06f, c10 as _c10p
    _c06f.check_fresh_host(_c10p.RuleProxy(rep, 'R05.j', lambda key: key != 'Command::and|returns-operand'), core, rid='R05.j')
    # R05.h: driven through the serialized bridge, a response reaches the same request as under the typed core: resume() looks the entry up
    # under the id it was given, resolves exactly that entry and removes it only when it can no longer be resolved, all inside one region of
    # the registry lock (an entry taken out while it is resolved lets another thread's new effect be announced under the same id), and ids
    # of live entries never move (shared with C09 R09.a/b, C08 R08.f)
    from rules.props import c09 as _c09, c06 as _c06
    rep.rule('R05.h', 'over the bridge a response resumes the request issued under its id: lookup, resolve and removal use that id inside one lock region', floor=5)
    _res = _c06.method(core, 'crux_core::bridge::registry::ResolveRegistry', 'resume')
    if _res is None:
        rep.missing('R05.h', 'ResolveRegistry::resume')
    else:
        _c09.check_resume_atomic(rep, 'R05.h', _res)
        _c09.check_resume(rep, 'R05.h', 'R05.h', core, _res)
    _c09.check_entry_writers(rep, 'R05.h', core)
    # ... and a stream's id stays its own for as long as the shell may send values under it: resolving a stream entry never changes its
    # state, not even when its consumer has finished (a finished stream turned into Never is freed by resume(), its id goes to the next
    # effect, and a late value resolves that unrelated request — over the bridge only) (shared with C09 R09.e)
    from rules.props import c02 as _c02
    _fs = _c02.find_method(core, 'crux_core::bridge::request_serde::ResolveSerialized', 'resolve')
    _tab = _c02.arity_table(core, _fs[0], 'crux_core::bridge::request_serde::ResolveSerialized') if len(_fs) == 1 else None
    if not _tab or 'Many' not in _tab:
        rep.missing('R05.h', 'arity table of ResolveSerialized::resolve')
    else:
        rep.expect('R05.h', not _tab['Many']['writes_self'], 'Many-keeps-state', 'the Many arm of ResolveSerialized::resolve never writes *self',
                   'ResolveSerialized::resolve changes the state of a stream entry: resume() then frees the id of a stream the shell may still send '
                   'values for, the slab hands it to the next request, and a late value resumes the wrong request — only over the bridge')
    # R05.f: every host hands on every output it pulls from a hosted command: no CommandOutput / effect / event value is dropped on a normal
    # path of a hosting function (the linear rule of C01 restricted to the hosts), whatever the state of the hosted command
    rep.rule('R05.f', 'no host drops an output it has pulled from a hosted command', floor=1)
    HOSTS = ('capability::CommandSpawner', 'command::stream::', 'command::Command', 'capability::ProtoContext')
    n_host = len([1 for f in core.elab if any(h in f.npath for h in HOSTS)])
    c01.check_linear(rep, core, 'default', rid='R05.f', only=lambda f, ty: any(h in f.npath for h in HOSTS) and
                     ('CommandOutput' in ty or ty in ('Effect', 'Event') or 'SendError' in ty))
    rep.expect('R05.f', n_host >= 5, 'hosts-analysed', '%d hosting bodies analysed in drop-elaborated MIR' % n_host, 'hosting functions not found')
    rep.assume('futures::channel::mpsc wakes its registered receiver task on send and on sender drop (third-party contract)')
    rep.assume('AtomicWaker::register/wake pairing is race-free (futures contract)')


def held_types(crate, ty, _depth=0, _seen=None):
    """the type and, for the crate's own structs / enums named in it, the types of their fields (transitively): what a value of the
    type owns"""
    _seen = _seen if _seen is not None else set()
    out = [ty]
    if _depth >= 4:
        return out
    for path, a in crate.adts.items():
        if path in _seen or not re.search(r'(^|[^\w:])' + re.escape(path) + r'($|[^\w:])', ty):
            continue
        _seen.add(path)
        for v in a['variants']:
            for f in v['fields']:
                out += held_types(crate, f['ty'], _depth + 1, _seen)
    return out


def check_legacy_futures(rep, rid_d, rid_e, core):
    """legacy shell futures: slot check and waker store under one lock; the resolve closure delivers and takes the waker under that
    lock and wakes it on every path"""
    for mod, slot in (('shell_request', 'result'), ('shell_stream', 'receiver')):
        pf = [f for f in hand_written_polls(core) if ('capability::%s::' % mod) in f.npath]
        if len(pf) != 1:
            rep.missing(rid_d, 'legacy %s poll' % mod)
            continue
        f = pf[0]
        locks = list(f.calls('std::sync::poison::mutex::Mutex::lock'))
        regions = c03.lock_regions(f, ['std::sync::poison::mutex::Mutex::lock'])
        slot_reads = [bb for bb, t in f.calls() if slot in c01.field_of_receiver(f, t['args'][0]) if t['args']]
        waker_stores = [bb for bb, i, s in f.stmts('assign') if s['d']['p'] and s['d']['p'][-1] == '.waker']
        waker_stores += [bb for bb, t in f.calls('core::option::Option::replace', 'core::option::Option::insert') if t['args'] and 'waker' in c01.field_of_receiver(f, t['args'][0])]
        ok = len(locks) == 1 and len(regions) == 1 and slot_reads and waker_stores and \
            all(b in regions[0][3] for b in slot_reads + waker_stores)
        rep.expect(rid_d, ok, '%s|poll-one-lock' % mod, 'the slot is read and the waker stored inside one lock region',
                   'legacy %s poll: the check of `%s` and the store of the waker are not under one lock (a resolution in between is lost)' % (mod, slot))
        # the resolve closure
        host = [g for g in core.built if g.kind == 'AssocFn' and ('capability::%s::' % mod) in g.npath and g.name in ('request_from_shell', 'stream_from_shell')]
        clo = None
        if host:
            for bb, t in host[0].calls('crux_core::core::request::Request::resolves_once', 'crux_core::core::request::Request::resolves_many_times'):
                for o in origins(host[0], t['args'][1]):
                    if o.kind == 'agg' and o.stmt['rv'].get('ak') == 'closure':
                        clo = core.by_exact(o.stmt['rv']['def'])
        if clo is None:
            rep.missing(rid_d, 'legacy %s resolve closure' % mod)
            continue
        g = clo
        # the closure lives inside the Request, which the shared state's send_request owns until the first poll: it may only hold a Weak
        # reference to that state, or a future dropped before its first poll keeps itself (and everything it captured) alive for ever
        # (a captured struct of the crate counts through its fields)
        strong = [u['name'] for u in g.upvars if any(re.search(r'\balloc::sync::Arc<std::sync::poison::mutex::Mutex<', x) for x in held_types(core, u.get('ty') or ''))]
        weak = [u['name'] for u in g.upvars if any(re.search(r'\balloc::sync::Weak<', x) for x in held_types(core, u.get('ty') or ''))]
        rep.expect(rid_d, bool(weak) and not strong, '%s|resolve-holds-weak' % mod, 'the resolve closure captures a Weak to the shared state',
                   'legacy %s: the resolve closure holds a strong Arc to the future\'s shared state (%s): shared state -> send_request -> Request -> '
                   'closure -> shared state is a cycle until the first poll, so a future dropped unpolled is never freed' % (mod, strong))
        regions = c03.lock_regions(g, ['std::sync::poison::mutex::Mutex::lock'])
        if mod == 'shell_request':
            delivers = [bb for bb, i, s in g.stmts('assign') if s['d']['p'] and s['d']['p'][-1] == '.result']
        else:
            delivers = [bb for bb, t in g.calls('crux_core::capability::channel::Sender::send')]
        takes = [bb for bb, t in g.calls('core::option::Option::take') if 'waker' in c01.field_of_receiver(g, t['args'][0])]
        wakes = [(bb, t) for bb, t in g.calls('core::task::wake::Waker::wake', 'core::task::wake::Waker::wake_by_ref')]
        ok = len(regions) == 1 and delivers and takes and all(b in regions[0][3] for b in delivers + takes)
        rep.expect(rid_d, ok, '%s|resolve-one-lock' % mod, 'the delivery and the take of the waker happen under the same lock',
                   'legacy %s resolve closure: delivery and waker take are not under one lock' % mod)
        rets = g.return_blocks()
        after = all(g.all_paths_pass(d, rets, via_blocks=takes) for d in delivers) if delivers and takes else False
        woken = len(wakes) >= 1 and all(any(o.kind == 'call' and o.bb in takes for o in origins(g, t['args'][0])) for bb, t in wakes)
        rep.expect(rid_e, after and woken, '%s|delivers-then-wakes' % mod,
                   'every path after the delivery takes the stored waker and wakes it when present',
                   'legacy %s resolve closure can deliver a value without waking the stored waker' % mod)


def check_wake_impls(rep, rid, core, time):
    """Every way of waking a task waker — by reference or by value — does the whole job on every path: the task id is put on the ready
    queue, the per-poll `woken` flag is set (where the waker has one: it is what keeps a just-woken task from being evicted) and the
    parent's AtomicWaker is woken (where it has one), with the publication before the parent wake.  A method may do this itself or by
    calling the other one (or a helper): call sites are summarised."""
    from rules.common import Summaries
    wake_impls = {}
    for c in (core, time):
        if c is None:
            continue
        for f in c.built:
            if path_matches(f.assoc.get('trait'), 'alloc::task::Wake') and f.kind == 'AssocFn':
                wake_impls.setdefault(norm(f.assoc['self_adt']), {})[f.name] = f
    if len(wake_impls) < 2:
        rep.bad(rid, 'wake-impls', 'expected Wake impls for CommandWaker and TaskWaker, found %s' % sorted(wake_impls))
    sm = Summaries([c for c in (core, time) if c is not None])
    SEND = ['crossbeam_channel::channel::Sender::send']
    PARENT = ['futures_core::task::__internal::atomic_waker::AtomicWaker::wake']
    STORE = ['core::sync::atomic::AtomicBool::store', 'core::sync::atomic::Atomic::store']
    for adt, fns in sorted(wake_impls.items()):
        fields = [fld['name'] for fld in (c01_adt(core, adt) or {'variants': [{'fields': []}]})['variants'][0]['fields']]
        has_parent = 'parent_waker' in fields
        has_woken = 'woken' in fields
        if 'wake_by_ref' not in fns:
            rep.bad(rid, '%s|wake_by_ref' % adt, 'Wake impl for %s has no wake_by_ref' % adt)
            continue
        for mname, m in sorted(fns.items()):
            rets = m.return_blocks()

            def on_every_path(sites):
                return bool(sites) and all(x not in m.reachable([0], removed_blocks=sites) for x in rets)
            sends = sm.sites(m, SEND, 'must')
            key = '%s|%s' % (adt, mname)
            rep.expect(rid, on_every_path(sends), key + '|enqueues' if mname != 'wake' else '%s|wake-delegates' % adt,
                       'the task id is sent on the ready queue on every path',
                       '%s::%s can return without enqueueing the task' % (adt, mname))
            if has_woken:
                stores = sm.sites(m, STORE, 'must')
                rep.expect(rid, on_every_path(stores), key + '|marks-woken', 'the woken flag is stored on every path',
                           '%s::%s can return without setting the `woken` flag: a task woken this way during its own poll looks unwoken to the '
                           'eviction test and is discarded' % (adt, mname))
            if has_parent:
                parents = sm.sites(m, PARENT, 'must')
                rep.expect(rid, on_every_path(parents), key + '|wakes-parent' if mname != 'wake_by_ref' else '%s|wakes-parent' % adt,
                           'the parent AtomicWaker is woken on every path',
                           '%s::%s can return without waking the parent (a nested wake-up would not reach the outer host)' % (adt, mname))
        # order: in whichever function wakes the parent directly, the enqueue and the woken store come first
        if has_parent:
            direct = [g for g in core.built if not g.j.get('exp') and list(g.calls(*PARENT)) and
                      (path_matches(g.assoc.get('self_adt'), adt) or adt.rsplit('::', 1)[-1] in g.npath)]
            order = bool(direct)
            for g in direct:
                ps = [bb for bb, t in g.calls(*PARENT)]
                pub = sm.sites(g, SEND, 'must') + (sm.sites(g, STORE, 'must') if has_woken else [])
                need = 2 if has_woken else 1
                order = order and len(set(pub)) >= need and all(any(g.dominates(s_, p_) and s_ != p_ for s_ in sm.sites(g, SEND, 'must')) for p_ in ps) and \
                    (not has_woken or all(any(g.dominates(s_, p_) and s_ != p_ for s_ in sm.sites(g, STORE, 'must')) for p_ in ps))
            rep.expect(rid, order, '%s|publish-before-wake' % adt, 'enqueue and woken.store dominate the parent wake',
                       '%s wakes the parent before the task is enqueued / marked woken' % adt)


def check_register_before_look(rep, rid, core):
    """Command::poll_next registers the host's waker before it runs tasks or looks at its queues (a wake-up arriving from another
    thread between the look and a later registration would find no waker and be lost)"""
    fs = [f for f in hand_written_polls(core) if path_matches(f.assoc.get('self_adt'), 'crux_core::command::Command')]
    if len(fs) != 1:
        rep.missing(rid, '<Command as Stream>::poll_next')
    else:
        f = fs[0]
        cx = cx_param(f)
        regs = waker_capture_blocks(f, cx)
        from rules.common import Summaries
        sm = Summaries([core])
        runs = sm.sites(f, ['crux_core::command::Command::run_until_settled'], 'must')
        reads = sm.sites(f, ['crossbeam_channel::channel::Receiver::try_recv', 'crux_core::command::Command::is_done'], 'may')
        rep.expect(rid, len(regs) >= 1 and runs and all(any(f.dominates(r, x) and r != x for r in regs) for x in runs),
                   'register-before-run', 'AtomicWaker::register(cx.waker()) dominates run_until_settled',
                   'Command::poll_next runs tasks before registering the host\'s waker (a wake during the run would be lost)')
        rep.expect(rid, len(reads) >= 3 and all(any(f.dominates(r, x) for r in regs) for x in reads), 'register-before-look',
                   'the registration dominates the reads of the event and effect channels and is_done',
                   'Command::poll_next looks at its channels before registering the host\'s waker')
        rep.expect(rid, runs and all(any(f.dominates(r, x) for r in runs) for x in reads), 'run-before-look',
                   'run_until_settled dominates the reads of the channels',
                   'Command::poll_next reads its channels without having run its tasks')


def check_pending_wakers(rep, rid, core, time, only=None, floor=7):
    """every path of a hand-written poll that returns Pending has kept the waker of THIS poll or follows a delegated Pending"""
    polls = hand_written_polls(core) + (hand_written_polls(time) if time is not None else [])
    if only is not None:
        polls = [f for f in polls if only(f)]
    if len(polls) < floor:
        rep.bad(rid, 'poll-sites', 'expected at least %d hand-written poll functions, found %d: %s' % (floor, len(polls), [f.path for f in polls]))
    for f in polls:
        cx = cx_param(f)
        if cx is None:
            rep.bad(rid, '%s|cx' % f.kpath, 'no Context parameter found')
            continue
        pend = pending_blocks(f)
        caps = waker_capture_blocks(f, cx)
        edges = delegated_pending_edges(f, cx)
        r = f.reachable_ps([0], removed_blocks=caps, removed_edges=edges)
        naked = [b for b in pend if b in r]
        key = '%s|pending-has-waker' % f.kpath
        if naked and f.kpath in PENDING_EXCEPTIONS:
            # the exception covers exactly one Pending site
            if len(naked) == 1:
                rep.ok(rid, key, 'tabled: ' + PENDING_EXCEPTIONS[f.kpath])
            else:
                rep.bad(rid, key, '%s has %d unwakeable Pending returns, the table allows one' % (f.path, len(naked)))
        else:
            rep.expect(rid, not naked, key,
                       '%d Pending return(s), each after keeping the waker (%d site(s)) or on a delegated Pending edge (%d)' % (len(pend), len(caps), len(edges)),
                       '%s can return Poll::Pending at %s without having kept the waker and without a delegated poll being Pending: '
                       'nothing will ever wake this task' % (f.path, [f.where(b) for b in naked]))


def c01_adt(core, adt):
    return core.adts.get(adt)
