"""C06 — cancellation is final, contained, and safe against late responses (structural clauses)."""
from rules.facts import norm, path_matches, origins, flows_to, call_matches, last_seg
from rules.common import panic_sites
from rules.props import c01, c02

CONFIGS = {'quick': ['default', 'controls'], 'thorough': ['allfeat']}
TECHNIQUE = ('static analysis: edge-dominance rules on the command executor (aborted tasks never polled, abort observed on every '
             'cycle that runs a task), who-may-panic rule on resolve closures, abort-handle store rule')
EXPLANATION = (
    'R06.a the poll of a task\'s future is reachable only along the false edge of Task::is_aborted; R06.b an aborted command clears '
    'its task slab and returns before anything else in the settle function; R06.c every CFG cycle of the settle function that runs a '
    'task contains a load of the command\'s aborted flag whose true edge clears and returns (abort is observed once per task, not once '
    'per pass); R06.d the closures passed to Request::resolves_once / resolves_many_times (and everything they call in crux_core) '
    'contain no unwrap/expect/panic!/indexing except lock-poisoning unwraps, so a late response cannot panic; R06.e both abort handles '
    'store `true` with at least Release ordering into the flag the executor reads; R06.f a hosted command reports the end of its stream exactly '
    'when is_done holds (tasks, effects, events empty), so an aborted command — whose tasks R06.b clears — is seen as finished by its host at every '
    'nesting level; R06.g a combinator returns a fresh command hosting its operands, never one of the operands — an operand\'s abort flag is '
    'shared with the handles taken from it, so as host it would govern its siblings (Command::and does this today: known finding C06-F2). '
    'R06.h the bridge registry frees an entry only when it can no longer be resolved (shared with C09). R06.i who-may-write rule over the atomic flags of the '
    'command runtime: `aborted` is written by AbortHandle::abort and JoinHandle::abort alone (an evicted, finished or woken task flags nothing — the root '
    'task shares the command\'s flag, so flagging it would abort the siblings), and every value carrying an aborted flag gets it as tabled: a new command and '
    'a spawned task a fresh one, the root task and the handles a clone of their owner\'s. '
    'Containment and finality at every injection point '
    'are not decided.')

ATOMIC_LOAD = ['core::sync::atomic::Atomic::load', 'core::sync::atomic::AtomicBool::load']
ATOMIC_STORE = ['core::sync::atomic::Atomic::store', 'core::sync::atomic::AtomicBool::store']


# who may write the aborted flags of the command runtime: (function, flag field) -> why
FLAG_WRITERS = {
    ('crux_core::command::executor::AbortHandle::abort', 'aborted'): 'the abort handle of a command',
    ('crux_core::command::executor::JoinHandle::abort', 'aborted'): 'the join handle of a task',
}
# where an `aborted` flag is put into a value, and where it must come from: (function, type) -> 'fresh' | 'shared'
FLAG_TOPOLOGY = {
    ('crux_core::command::Command::new', 'Command'): 'fresh',
    ('crux_core::command::Command::new', 'Task'): 'shared',          # the root task is the command: it shares the command's flag
    ('crux_core::command::context::CommandContext::spawn', 'Task'): 'fresh',   # a spawned task has its own flag ...
    ('crux_core::command::context::CommandContext::spawn', 'JoinHandle'): 'shared',  # ... which its join handle shares
    ('crux_core::command::Command::abort_handle', 'AbortHandle'): 'shared',
}


def check_flag_ownership(rep, core, rid='R06.i'):
    """R06.i: cancelling is the ONLY way a flag becomes set, and a flag reaches only the work it belongs to: (1) every atomic write in the
    command runtime is one of the tabled (function, flag) pairs — `aborted` is written by the two abort methods alone, so an evicted,
    finished or woken task never flags anything; (2) every value that carries an `aborted` flag gets it as tabled: a new command and a
    spawned task get a fresh flag, the root task / the handles share their owner's."""
    from rules.facts import keypath
    rep.rule(rid, 'the aborted flags are written only by the abort methods, and each command / spawned task has a flag of its own', floor=8)
    seen_w = set()
    for f in core.built:
        if f.j.get('exp') or '::command::' not in f.npath or '::testing' in f.npath:
            continue
        host = core.host_root(f)
        host = host.replace('executor::<impl crux_core::command::Command<Effect, Event>>', 'executor::Command')
        for bb, t in f.calls():
            cn = norm(t.get('callee') or '')
            if not cn.startswith('core::sync::atomic::Atomic') or not t.get('args') or last_seg(cn) in ('load', 'new', 'fence', 'default', 'fmt', 'as_ptr', 'from'):
                continue
            fields = c01.field_of_receiver(f, t['args'][0])
            known = [x for x in ('aborted', 'finished', 'woken') if x in fields]
            flag = sorted(fields)[0] if len(fields) == 1 else (known[0] if len(known) == 1 else '?')
            key = '%s|writes|%s' % (host, flag)
            if (host, flag) in FLAG_WRITERS:
                seen_w.add((host, flag))
                rep.ok(rid, key, 'tabled: ' + FLAG_WRITERS[(host, flag)])
            elif 'aborted' not in fields and (fields or 'Atomic<bool>' not in (t['args'][0].get('t') or '')):
                # another flag of the runtime (finished, woken, a counter): where it is written is the business of R07.b / R05.b
                rep.ok(rid, key, 'not an aborted flag (%s)' % sorted(fields))
            else:
                rep.bad(rid, key, '%s writes the flag `%s` (%s at %s): only %s may set an aborted flag — work that was not cancelled '
                        'through a handle (an evicted or finished task, a sibling) must not become aborted, and through the flag it shares, neither may its command'
                        % (host, flag, last_seg(cn), f.where(bb), 'AbortHandle::abort / JoinHandle::abort'))
    # ... and a flag stays with its owner for life: the `aborted` field of a command / task / handle is set where the value is built
    # and never assigned again (a command given a fresh flag is out of reach of the handles taken from it, and un-aborted)
    for f in core.built:
        if f.j.get('exp') or '::command::' not in f.npath or '::testing' in f.npath:
            continue
        for bb, i, s_ in f.stmts('assign'):
            if s_['d']['p'] and s_['d']['p'][-1] == '.aborted':
                rep.bad(rid, '%s|reassigns|aborted' % core.host_root(f), '%s assigns a new value to an `aborted` field at %s: the handles already taken '
                        'keep the old flag (they can no longer cancel the work) and an aborted command becomes live again' % (core.host_root(f), f.where(bb)))
        for bb, t in f.calls('core::mem::replace', 'core::mem::swap', 'core::mem::take'):
            if t.get('args') and 'aborted' in c01.field_of_receiver(f, t['args'][0]) and 'Arc<' in (t['args'][0].get('t') or ''):
                rep.bad(rid, '%s|reassigns|aborted' % core.host_root(f), '%s replaces an `aborted` flag at %s' % (core.host_root(f), f.where(bb)))
    if len([k for k in seen_w if k[1] == 'aborted']) < 2:
        rep.bad(rid, 'writers', 'expected the two abort methods to write `aborted`, found %s' % sorted(seen_w))
    seen_t = set()
    for f in core.built:
        if f.j.get('exp') or '::testing' in f.npath:
            continue
        for bb, i, s in f.stmts('assign'):
            rv = s['rv']
            if not (rv['k'] == 'agg' and rv.get('ak') == 'adt' and 'aborted' in (rv.get('fields') or [])):
                continue
            host = core.host_root(f)
            ty = last_seg(norm(rv['adt']))
            want = FLAG_TOPOLOGY.get((host, ty))
            key = '%s|%s|flag' % (host, ty)
            if want is None:
                rep.bad(rid, key, 'a %s with an aborted flag is built in %s, which is not in the flag table' % (ty, host))
                continue
            seen_t.add((host, ty))
            from rules.props import prims as _pr
            src = _pr.origins_nt(core, f, rv['ops'][rv['fields'].index('aborted')])
            fresh = bool(src) and all(o.kind == 'call' and call_matches(o.term, ['core::default::Default::default', 'alloc::sync::Arc::new']) for o in src)
            def of_owner(o):
                # a clone of an `aborted` field, or of the fresh flag made in this function for the owner
                if not (o.kind == 'call' and call_matches(o.term, ['core::clone::Clone::clone'])):
                    return False
                if 'aborted' in c01.field_of_receiver(f, o.term['args'][0]):
                    return True
                inner = _pr.origins_nt(core, f, o.term['args'][0])
                return bool(inner) and all(x.kind == 'call' and call_matches(x.term, ['core::default::Default::default', 'alloc::sync::Arc::new']) for x in inner)
            shared = bool(src) and all(of_owner(o) for o in src)
            if want == 'fresh':
                # the fresh flag is not also handed to anything but the values tabled as sharing it
                rep.expect(rid, fresh, key, 'gets a flag of its own (Default::default())',
                           '%s: the %s no longer gets an aborted flag of its own: cancelling it cancels whatever it now shares the flag with (or the reverse)' % (host, ty))
            else:
                rep.expect(rid, shared, key, 'shares its owner\'s flag (a clone of the Arc)',
                           '%s: the %s no longer shares the aborted flag of the work it controls' % (host, ty))
    missing = [k for k in FLAG_TOPOLOGY if k not in seen_t]
    if missing:
        rep.bad(rid, 'topology', 'flag constructions not found: %s' % missing)


def method(core, adt, name):
    fs = [f for f in core.built if f.name == name and f.kind == 'AssocFn' and path_matches(f.assoc.get('self_adt'), adt) and not f.assoc.get('trait')]
    return fs[0] if len(fs) == 1 else None


def bool_edges(fn, call_bb, call_t):
    """(false_edge, true_edge) of the switch on the bool returned by a call"""
    res = call_t['d']['l']
    for sb, st in fn.terms('switch'):
        if any((o.kind == 'call' and o.bb == call_bb and not o.suffix) for o in origins(fn, st['a'])):
            fe = None
            for v, b in st['arms']:
                if v == 0:
                    fe = (sb, b)
            te = (sb, st['otherwise'])
            return fe, te
    return None, None


def reach_if(fn, call_bbs, value, starts=None, removed_blocks=()):
    """blocks reachable (path-sensitively) when the bool calls at `call_bbs` return `value` every time they run; from the first of
    them unless `starts` is given"""
    call_bbs = list(call_bbs)
    v = 1 if value else 0
    return fn.reachable_ps(starts if starts is not None else call_bbs[:1], removed_blocks=removed_blocks,
                           call_values=lambda b, t: (v if b in call_bbs else None))


def ordering_of(fn, operand):
    for o in origins(fn, operand):
        if o.kind == 'agg' and o.stmt['rv'].get('adt') == 'core::sync::atomic::Ordering':
            return o.stmt['rv']['variant']
        if o.kind == 'const' and o.s and 'Ordering::' in o.s:
            return o.s.rsplit('::', 1)[-1]
    return None


COMBINATORS = ['then', 'and', 'all', 'map_effect', 'map_event', 'from', 'into', 'from_iter']
FRESH_CALLS = ['crux_core::command::Command::new', 'crux_core::command::Command::done'] + ['crux_core::command::Command::' + n for n in COMBINATORS]


def check_fresh_host(rep, core, rid='R06.g'):
    """rid (R06.g): a combinator returns a fresh command that hosts its operands; it never returns one of the operands with the others
    spawned onto it.  An operand's abort flag is shared with every AbortHandle taken from it before the composition: if the operand
    becomes the host, aborting that one member clears the tasks hosting its siblings too."""
    rep.rule(rid, 'combinators return a fresh command hosting their operands, never one of the operands (whose abort flag would then '
             'govern its siblings)', floor=6)
    n = 0
    for name in COMBINATORS:
        fs = [f for f in core.built if f.kind == 'AssocFn' and f.name == name and path_matches(f.assoc.get('self_adt'), 'crux_core::command::Command')]
        for f in fs:
            n += 1
            ret = origins(f, {'l': 0, 'p': []}, extra_identity=[('core::option::Option::unwrap_or_else', 0), ('core::option::Option::unwrap_or', 0),
                                                                ('core::option::Option::unwrap_or_default', 0)])
            operand = [o for o in ret if o.kind == 'arg']
            fresh = [o for o in ret if o.kind == 'call' and call_matches(o.term, FRESH_CALLS)]
            # fold(<fresh>, Command::and): `and` returns its left operand, which is the accumulator, which starts fresh
            from rules.props import c04
            fb = c04.fold_of_and(f)
            fresh += [o for o in ret if o.kind == 'call' and fb is not None and o.bb == fb]
            other = [o for o in ret if o not in operand and o not in fresh]
            key = 'Command::%s|fresh-host' % name
            if operand:
                # one instance per operand that can be returned (the finding on `and` is about its LEFT operand, parameter 1)
                for pn in sorted(set(o.n for o in operand)):
                    rep.bad(rid, 'Command::%s|returns-operand' % name if pn == 1 else 'Command::%s|returns-operand|parameter %d' % (name, pn),
                            'Command::%s returns its own operand (parameter %d) with the other command(s) spawned onto it — or instead of them: an AbortHandle '
                            'taken from an operand before the composition aborts its siblings as well, or no longer reaches the combined command' % (name, pn))
            elif other:
                rep.bad(rid, 'Command::%s|returns-unknown' % name,
                        'Command::%s returns a command that is neither freshly created nor built by another combinator (%s): it may be one of the '
                        'operands, whose abort flag would govern its siblings' % (name, sorted(set(
                            norm(o.term.get('callee') or '?') if o.kind == 'call' else o.kind for o in other))))
            else:
                rep.ok(rid, key, 'returns %s' % sorted(set(last_seg(o.term['callee']) for o in fresh)))
    if n < 6:
        rep.bad(rid, 'sites', 'expected at least 6 combinators on Command, found %d' % n)


def check(ctx, rep):
    rep.rule('R06.a', 'an aborted task is never polled', floor=1)
    rep.rule('R06.b', 'an aborted command clears its tasks and returns before doing anything else', floor=2)
    rep.rule('R06.c', 'the command\'s aborted flag is observed on every cycle that runs a task', floor=1)
    rep.rule('R06.d', 'resolve closures cannot panic on a late response', floor=4)
    rep.rule('R06.e', 'abort handles store true (>= Release) into the flag the executor loads (>= Acquire)', floor=4)
    core = ctx.crate('default', 'crux_core')
    if core is None:
        rep.missing('R06.a', 'crux_core facts')
        return
    rt = method(core, 'crux_core::command::Command', 'run_task')
    rs = method(core, 'crux_core::command::Command', 'run_until_settled')
    if rt is None or rs is None:
        rep.missing('R06.a', 'Command::run_task / run_until_settled')
        return
    # R06.a
    polls = [(bb, t) for bb, t in rt.calls('core::future::future::Future::poll')]
    abts = [(bb, t) for bb, t in rt.calls('crux_core::command::executor::Task::is_aborted')]
    ok = False
    if len(polls) == 1 and len(abts) == 1:
        fe, te = bool_edges(rt, *abts[0])
        on_task = 'future' in c01.field_of_receiver(rt, polls[0][1]['args'][0])
        ok = fe is not None and polls[0][0] not in rt.reachable([0], removed_edges=[fe]) and polls[0][0] in rt.reachable([0]) and on_task
        # and the aborted edge reports Completed without polling
        comp = [bb for bb, i, s in rt.stmts('assign') if s['rv']['k'] == 'agg' and s['rv'].get('variant') == 'Completed' and s['d']['l'] == 0]
        ok = ok and any(polls[0][0] not in rt.reachable([te[1]]) and c in rt.reachable([te[1]]) for c in comp)
    if len(polls) == 1 and len(abts) == 1:
        # ... for EVERY poll: a poll is never followed by another poll of the task without the aborted test in between (an immediate
        # re-poll of a task that woke itself would resume work that was aborted during its own poll)
        pb_, ab_ = polls[0][0], abts[0][0]
        rep.expect('R06.a', pb_ not in rt.reachable_after(pb_, removed_blocks=[ab_]), 'run_task|every-poll-tests-abort',
                   'no path leads from one poll of the task to the next without the is_aborted() test',
                   'Command::run_task can poll a task again without testing its aborted flag in between (a re-poll loop): a task aborted while it '
                   'was being polled is resumed past its next await and keeps producing effects and events')
    rep.expect('R06.a', ok, 'run_task|poll-needs-not-aborted', 'Future::poll of task.future is reachable only when is_aborted() is false; the aborted edge returns Completed',
               'Command::run_task can poll a task whose abort flag is set (or no longer reports it as completed)')
    # R06.b / R06.c
    was = [(bb, t) for bb, t in rs.calls('crux_core::command::Command::was_aborted')]
    if not was:
        was = [(bb, t) for bb, t in rs.calls(*ATOMIC_LOAD) if 'aborted' in c01.field_of_receiver(rs, t['args'][0])]
    from rules.common import Summaries
    sm = Summaries([core])
    runs = sm.sites(rs, ['crux_core::command::Command::run_task'], 'may')
    clears = sm.sites(rs, ['slab::Slab::clear'], 'must')
    rets = rs.return_blocks()
    first = [w for w in was if all(rs.dominates(w[0], x[0]) for x in was)]
    ok_b = False
    if first and runs and clears:
        # everything except clear + return needs the first test to answer "not aborted" (evaluated with that call's result fixed, so that a
        # helper `clear_if_aborted() -> bool` whose result is tested a second time reads the same as the inline `if`)
        needs = [b for b in runs + [bb for bb, t in rs.calls('crux_core::command::Command::spawn_new_tasks')]]
        if_ab = reach_if(rs, [first[0][0]], True, starts=[0])
        ok_b = all(b not in if_ab for b in needs) and any(c in if_ab for c in clears) and first[0][0] in rs.reachable([0]) and \
            all(rs.dominates(first[0][0], b) for b in needs)
    rep.expect('R06.b', ok_b, 'settle|abort-first', 'the first thing run_until_settled does is test the aborted flag; true clears the slab and returns',
               'run_until_settled no longer tests the aborted flag before spawning or running tasks')
    for w in was:
        # given that this test answers "aborted": the slab is cleared before any task could run, and no task is run at all (whatever the
        # shape: `if was_aborted() { clear; return }`, or a helper `clear_if_aborted() -> bool` whose result is tested again)
        good = any(c in reach_if(rs, [w[0]], True, removed_blocks=runs) for c in clears) and \
            not any(r in reach_if(rs, [w[0]], True) for r in runs)
        rep.expect('R06.b', good, 'settle|abort-edge@%d' % was.index(w), 'the aborted edge clears the tasks and returns without running any',
                   'run_until_settled: an aborted-flag test does not lead to clear + return')
    ok_c = bool(runs) and bool(was) and all(r not in rs.reachable_after(r, removed_blocks=[w[0] for w in was]) for r in runs)
    rep.expect('R06.c', ok_c, 'settle|abort-every-cycle', 'every cycle through run_task passes a test of the aborted flag',
               'run_until_settled: a cycle that runs tasks does not re-check the command\'s aborted flag: a task (or another thread) '
               'aborting the command mid-pass does not stop the tasks already queued')
    # R06.d
    n = 0
    for f in core.built:
        if f.j.get('exp') or '::testing' in f.npath:
            continue
        for bb, t in f.calls('crux_core::core::request::Request::resolves_once', 'crux_core::core::request::Request::resolves_many_times'):
            clo, _ = c02.closure_arg(core, f, t, 1)
            if clo is None:
                rep.bad('R06.d', '%s|closure' % f.kpath, 'resolve closure not found')
                continue
            n += 1
            bodies = [clo] + core.closures_of(clo)
            bad = []
            for g in bodies:
                for pb, kind, detail, pt in panic_sites(g):
                    if kind == 'assert':
                        continue
                    if kind in ('unwrap', 'expect') and 'PoisonError' in (pt['args'][0].get('t') or ''):
                        continue
                    bad.append('%s %s at %s' % (kind, detail, g.where(pb)))
            key = '%s|%s' % (f.kpath, last_seg(t['callee']))
            rep.expect('R06.d', not bad, key, 'no unwrap/expect/panic/index except lock poisoning',
                       'resolve closure built in %s can panic on a late response: %s' % (f.path, bad))
    if n < 4:
        rep.bad('R06.d', 'sites', 'expected 4 resolve closures, found %d' % n)
    # R06.e
    for adt in ('crux_core::command::executor::AbortHandle', 'crux_core::command::executor::JoinHandle'):
        f = method(core, adt, 'abort')
        if f is None:
            rep.missing('R06.e', '%s::abort' % adt)
            continue
        stores = [(bb, t) for bb, t in f.calls(*ATOMIC_STORE)]
        ok = len(stores) == 1 and 'aborted' in c01.field_of_receiver(f, stores[0][1]['args'][0]) and \
            stores[0][1]['args'][1].get('v') == 1 and ordering_of(f, stores[0][1]['args'][2]) in ('Release', 'SeqCst', 'AcqRel')
        rep.expect('R06.e', ok, '%s|abort' % adt, 'stores true into .aborted with Release or stronger',
                   '%s::abort no longer stores true (>= Release) into its aborted flag' % adt)
    for adt, name, field in (('crux_core::command::executor::Task', 'is_aborted', 'aborted'), ('crux_core::command::Command', 'was_aborted', 'aborted')):
        f = method(core, adt, name)
        if f is None:
            rep.missing('R06.e', '%s::%s' % (adt, name))
            continue
        loads = [(bb, t) for bb, t in f.calls(*ATOMIC_LOAD)]
        ok = len(loads) == 1 and field in c01.field_of_receiver(f, loads[0][1]['args'][0]) and \
            ordering_of(f, loads[0][1]['args'][1]) in ('Acquire', 'SeqCst')
        ret_is_load = ok and all(o.kind == 'call' and o.bb == loads[0][0] for o in origins(f, {'l': 0, 'p': []}))
        rep.expect('R06.e', ok and ret_is_load, '%s|%s' % (adt, name), 'returns the Acquire load of .%s' % field,
                   '%s::%s no longer returns an Acquire load of its %s flag' % (adt, name, field))
    # the first task of a command shares the command's flag
    new = method(core, 'crux_core::command::Command', 'new')
    if new is not None:
        shared = False
        for bb, i, s in new.stmts('assign'):
            rv = s['rv']
            if rv['k'] == 'agg' and path_matches(rv.get('adt'), 'crux_core::command::executor::Task'):
                a = dict(zip(rv['fields'], rv['ops']))['aborted']
                from rules.props import prims as _pr2
                shared = any(o.kind == 'call' and call_matches(o.term, ['core::clone::Clone::clone']) for o in _pr2.origins_nt(core, new, a))
        rep.expect('R06.e', shared, 'Command::new|shared-flag', 'the root task\'s aborted flag is a clone of the command\'s flag',
                   'Command::new: the root task no longer shares the command\'s aborted flag')
    check_flag_ownership(rep, core)
    # R06.f: an aborted (cleared) command is reported as ended to its host: the stream end is decided by is_done alone (shared with C07 R07.e)
    from rules.props import c07
    c07.check_stream_end(rep, 'R06.f', core)
    check_fresh_host(rep, core)
    # R06.h: a late response for cancelled work has no visible consequence over the bridge either: resume() frees an entry only when it can
    # no longer be resolved, so the id of a cancelled stream is not handed to a new request while late responses may still arrive
    from rules.props import c09 as _c09
    rep.rule('R06.h', 'the bridge registry frees an entry only when it can no longer be resolved (late responses never reach another request)', floor=3)
    _res = method(core, 'crux_core::bridge::registry::ResolveRegistry', 'resume')
    if _res is None:
        rep.missing('R06.h', 'ResolveRegistry::resume')
    else:
        _c09.check_resume(rep, 'R06.h', 'R06.h', core, _res)
    rep.assume('dropping the hosting future drops the nested command (ownership; the linear rule of C01 shows it is not stashed elsewhere)')
    rep.assume('user futures are cancellation safe (documented requirement of abort)')
