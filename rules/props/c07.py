"""C07 — a command is done exactly when nothing more can happen (structural clauses)."""
import re
from rules.facts import norm, path_matches, origins, flows_to, call_matches, last_seg
from rules.props import c01, c06

CONFIGS = {'quick': ['default', 'controls'], 'thorough': []}
TECHNIQUE = ('static analysis: dependence rule on is_done, who-may-remove rule on the command\'s task slab with ordering of the '
             'finish/notify steps, input-presence rule on the eviction test')
EXPLANATION = (
    'R07.a is_done settles first and its result depends on the emptiness of the effect receiver, the event receiver and the task '
    'slab; R07.b the only removals from the command\'s task slab are `remove` in the Completed|Cancelled arm of the settle loop and '
    '`clear` under the aborted flag; in that arm the removed task\'s finished flag is stored (>= Release) before its join handles are '
    'woken; Completed is produced only from Poll::Ready or an aborted task, Cancelled only from the eviction test; R07.c the eviction '
    'test depends on the poll result being Pending (Suspended), on the woken flag and on Arc::strong_count of the per-poll waker, read '
    'after the executor\'s own Waker copy was dropped; R07.d every hand-written poll function of crux_core and crux_time that returns Pending has '
    'kept a clone of the waker of the current poll (the premise under which "no clone survives" means "cannot be woken"). R07.b also requires that every '
    'task leaving the slab — finished, aborted or evicted — publishes `finished` and wakes its join handles (after the removal, or on every terminal path of run_task). R07.h the task slabs of the command and of the core executor are used only through operations that keep every remaining task under its key (TaskIds live in wakers and queues). R07.j every read of a ready queue (found by the receiver type Receiver<TaskId>) hands the ids it takes to run_task (shared with C12 R12.h). R07.g both executor loops re-read the spawn and ready queues after any task has run, on every path out, so a task spawned in the last poll of an evicted task is in the slab before is_done looks (shared with C01 R01.e). NOT decided: exactness of the waker-count heuristic — whether "no surviving '
    'waker clone" coincides with "can never be woken" for every mix of joins, selects, channels and self-waking futures depends on '
    'what arbitrary user futures do with wakers at run time.')


def check(ctx, rep):
    rep.rule('R07.a', 'is_done settles and then consults effects, events and the task slab', floor=1)
    rep.rule('R07.b', 'tasks leave the slab only when Completed/Cancelled (or on abort); finished is published before join handles are woken', floor=4)
    rep.rule('R07.c', 'the eviction test reads the poll result, the woken flag and the waker count (after dropping the local Waker)', floor=3)
    core = ctx.crate('default', 'crux_core')
    if core is None:
        rep.missing('R07.a', 'crux_core facts')
        return
    check_is_done(rep, 'R07.a', core)
    # R07.b
    removers = []
    for g in core.built:
        if g.j.get('exp') or '::testing' in g.npath:
            continue
        for bb, t in g.calls('slab::Slab::remove', 'slab::Slab::try_remove', 'slab::Slab::clear', 'slab::Slab::drain', 'slab::Slab::retain'):
            if 'executor::Task' in ' '.join(t.get('targs') or []) and 'command' in g.npath:
                removers.append((g, bb, t))
    rs = c06.method(core, 'crux_core::command::Command', 'run_until_settled')
    rt = c06.method(core, 'crux_core::command::Command', 'run_task')
    if rs is None or rt is None:
        rep.missing('R07.b', 'Command executor functions')
        return
    outside = [(g.path, last_seg(t['callee'])) for g, bb, t in removers if g is not rs]
    rep.expect('R07.b', not outside and len(removers) >= 2, 'removers', 'tasks are removed only inside run_until_settled (%d sites)' % len(removers),
               'the command\'s task slab is emptied outside run_until_settled: %s' % outside)
    runs = [(bb, t) for bb, t in rs.calls('crux_core::command::Command::run_task')]
    adt = core.adts.get('crux_core::command::executor::TaskState')
    vidx = {v['name']: v['idx'] for v in adt['variants']} if adt else {}
    removes = [(bb, t) for g, bb, t in removers if g is rs and last_seg(t['callee']) == 'remove']
    clears = [(bb, t) for g, bb, t in removers if g is rs and last_seg(t['callee']) == 'clear']
    ok = False
    if len(runs) == 1 and len(removes) == 1 and vidx:
        # finite-domain evaluation: run_task's result is fixed to each TaskState in turn; with it, the slab removal is
        # unavoidable before the next queue read / return for Completed and Cancelled and unreachable for the others
        # (whatever form the test takes: a match, `matches!`, `==` / `!=` against the variants, an early `continue`)
        rb, rtm = runs[0]
        rm = removes[0][0]
        adt_path = adt['path']
        ok = True
        for name, vi in vidx.items():
            def cv(b, t, _vi=vi):
                if b == rb:
                    return ('V', adt_path, _vi, 'unit')
                return None
            if name in ('Completed', 'Cancelled'):
                # with the removal taken away nothing after the run can be reached except the removal's own block
                after = rs.reachable_ps([rb], removed_blocks=[rm], call_values=cv) - {rb}
                nxt = set(rs.return_blocks()) | set(b2 for b2, _ in c01.queue_reads(rs, 'ready_queue'))
                if (after & nxt) or rm not in rs.reachable_ps([rb], call_values=cv):
                    ok = False
            else:
                if rm in rs.reachable_ps([rb], call_values=cv):
                    ok = False
    rep.expect('R07.b', ok, 'remove-arm', 'Slab::remove is reachable exactly on the Completed and Cancelled results of run_task',
               'run_until_settled removes a task on a result other than Completed|Cancelled, or keeps a finished one')
    # with every aborted-flag test answering "not aborted" no clear is reachable; with one answering "aborted" it is
    _was = [b2 for b2, t2 in rs.calls('crux_core::command::Command::was_aborted')]
    _not_ab = c06.reach_if(rs, _was, False, starts=[0]) if _was else set(rs.reachable([0]))
    under_abort = bool(clears) and bool(_was) and not any(bb in _not_ab for bb, t in clears) and \
        all(any(bb in c06.reach_if(rs, [w], True) for w in _was) for bb, t in clears)
    fe_first = None
    rep.expect('R07.b', under_abort, 'clear-under-abort', 'Slab::clear is reached only from an aborted-flag edge',
               'run_until_settled clears the task slab outside the aborted branch')
    check_finish_notify(rep, 'R07.b', core)
    # producers of Completed / Cancelled in run_task
    comp = [bb for bb, i, s in rt.stmts('assign') if s['rv']['k'] == 'agg' and path_matches(s['rv'].get('adt'), 'crux_core::command::executor::TaskState')
            and s['rv']['variant'] == 'Completed']
    canc = [bb for bb, i, s in rt.stmts('assign') if s['rv']['k'] == 'agg' and path_matches(s['rv'].get('adt'), 'crux_core::command::executor::TaskState')
            and s['rv']['variant'] == 'Cancelled']
    polls = [(bb, t) for bb, t in rt.calls('core::future::future::Future::poll')]
    abts = [(bb, t) for bb, t in rt.calls('crux_core::command::executor::Task::is_aborted')]
    ok = False
    if len(polls) == 1 and len(abts) == 1 and len(comp) == 2 and len(canc) == 1:
        pres = polls[0][1]['d']['l']
        ready_edge = None
        for sb, st in rt.terms('switch'):
            if any(o.kind == 'rvalue' and o.stmt['rv']['k'] == 'discr' and path_matches(o.stmt['rv']['a'].get('adt') or '', 'core::task::poll::Poll') and
                   (o.stmt['rv']['a']['l'] == pres or any(x.kind == 'call' and x.bb == polls[0][0] and not x.suffix for x in origins(rt, o.stmt['rv']['a'])))
                   for o in origins(rt, st['a'])):
                for v, b in st['arms']:
                    if v == 0:
                        ready_edge = (sb, b)
        fe, te = c06.bool_edges(rt, *abts[0])
        if ready_edge and te:
            ok = all(c not in rt.reachable([0], removed_edges=[ready_edge, te]) for c in comp)
    rep.expect('R07.b', ok, 'completed-producers', 'Completed is produced only on Poll::Ready or for an aborted task',
               'Command::run_task can report Completed for a task that is neither ready nor aborted')
    # R07.c
    counts = [(bb, t) for bb, t in rt.calls('alloc::sync::Arc::strong_count', 'alloc::sync::Arc::weak_count')]
    wloads = [(bb, t) for bb, t in rt.calls(*c06.ATOMIC_LOAD) if 'woken' in c01.field_of_receiver(rt, t['args'][0])]
    drops = [(bb, t) for bb, t in rt.calls('core::mem::drop') if 'core::task::wake::Waker' in ' '.join(t.get('targs') or [])]
    ok = False
    detail = ''
    if len(canc) == 1 and len(counts) == 1 and len(wloads) == 1:
        cb = canc[0]
        # Cancelled depends on all three inputs: it must be unreachable when any guarding edge is flipped
        guards = {}
        guards_direct = False
        for sb, st in rt.terms('switch'):
            for o in origins(rt, st['a']):
                if o.kind == 'call' and o.bb == wloads[0][0]:
                    guards['woken'] = (sb, st)
                if o.kind == 'rvalue' and o.stmt['rv']['k'] == 'binop' and any(x.kind == 'call' and x.bb == counts[0][0] for x in
                                                                            origins(rt, o.stmt['rv']['a']) + origins(rt, o.stmt['rv']['b'])):
                    guards['count'] = (sb, st)
                if o.kind == 'call' and call_matches(o.term, ['core::cmp::PartialEq::eq', 'core::cmp::PartialEq::ne']) and \
                        'TaskState' in ' '.join(o.term.get('targs') or []):
                    guards['suspended'] = (sb, st)
                # a direct match on the result enum also counts (`match state { Suspended if .. => Cancelled, state => state }`)
                if o.kind == 'rvalue' and o.stmt['rv']['k'] == 'discr' and path_matches(o.stmt['rv']['a'].get('adt') or '', 'crux_core::command::executor::TaskState') \
                        and 'suspended' not in guards and vidx:
                    guards['suspended'] = (sb, st)
                    guards_direct = True
        dep = set()
        for name, (sb, st) in guards.items():
            for s2 in rt.succ(sb):
                r = rt.reachable_ps([0], removed_edges=[(sb, s2)])
                if cb not in r:
                    dep.add(name)
        own_dropped = len(drops) == 1 and rt.dominates(drops[0][0], counts[0][0]) and rt.dominates(polls[0][0], drops[0][0])
        # polarity: Cancelled needs woken == false, result == Suspended, and "no clone but ours": count < 2 (<= 1, == 1)
        polarity = {}

        def edge_for(sw, want_nonzero):
            sb, st = sw
            zero = [b for v, b in st['arms'] if v == 0]
            return (sb, st['otherwise']) if want_nonzero else ((sb, zero[0]) if zero else None)
        if 'woken' in guards:
            e = edge_for(guards['woken'], False)
            polarity['woken==false'] = e is not None and cb not in rt.reachable_ps([0], removed_edges=[e])
        if 'suspended' in guards and guards_direct:
            sb, st = guards['suspended']
            tgt_ = next((b for v, b in st['arms'] if v == vidx.get('Suspended')), st['otherwise'])
            polarity['result==Suspended'] = cb not in rt.reachable_ps([0], removed_edges=[(sb, tgt_)])
        elif 'suspended' in guards:
            sb, st = guards['suspended']
            eqcall = [o for o in origins(rt, st['a']) if o.kind == 'call']
            is_ne = bool(eqcall) and last_seg(eqcall[0].term['callee']) == 'ne'
            e = edge_for(guards['suspended'], not is_ne)
            other_is_suspended = bool(eqcall) and any(x.kind == 'agg' and x.stmt['rv'].get('variant') == 'Suspended'
                                                      for a in eqcall[0].term['args'] for x in origins(rt, a))
            polarity['result==Suspended'] = e is not None and other_is_suspended and cb not in rt.reachable_ps([0], removed_edges=[e])
        if 'count' in guards:
            sb, st = guards['count']
            thr = None
            for o in origins(rt, st['a']):
                if o.kind == 'rvalue' and o.stmt['rv']['k'] == 'binop':
                    b_ = o.stmt['rv']
                    left_is_count = any(x.kind == 'call' and x.bb == counts[0][0] for x in origins(rt, b_['a']))
                    const = (b_['b'] if left_is_count else b_['a']).get('v')
                    op = b_['op']
                    if not left_is_count:
                        op = {'Lt': 'Gt', 'Le': 'Ge', 'Gt': 'Lt', 'Ge': 'Le'}.get(op, op)
                    # (edge value when the waker has no other clone, i.e. count == 1) for the accepted spellings
                    thr = {('Lt', 2): True, ('Le', 1): True, ('Eq', 1): True, ('Ge', 2): False, ('Gt', 1): False, ('Ne', 1): False}.get((op, const))
            if thr is not None:
                e = edge_for(guards['count'], thr)
                polarity['count==1'] = e is not None and cb not in rt.reachable_ps([0], removed_edges=[e])
            else:
                polarity['count==1'] = False
        pol_ok = len(polarity) == 3 and all(polarity.values())
        ok = dep >= {'woken', 'count', 'suspended'} and own_dropped and pol_ok
        detail = 'depends on %s; own Waker dropped before the count: %s; evicts only when %s' % (sorted(dep), own_dropped, polarity)
    rep.expect('R07.c', ok, 'eviction-inputs', detail, 'the eviction test in Command::run_task no longer depends on the poll result, the woken '
               'flag and the waker count, or reads the count while its own Waker copy is alive (%s)' % detail)
    # woken is false on a fresh waker and the count is taken on this poll's waker
    fresh = False
    for bb, i, s in rt.stmts('assign'):
        rv = s['rv']
        if rv['k'] == 'agg' and path_matches(rv.get('adt'), 'crux_core::command::executor::CommandWaker'):
            w = dict(zip(rv['fields'], rv['ops'])).get('woken')
            fresh = w is not None and any(o.kind == 'call' and last_seg(o.term.get('callee') or '') == 'new' and o.term['args'] and o.term['args'][0].get('v') == 0
                        for o in origins(rt, w))
    rep.expect('R07.c', fresh, 'fresh-waker', 'each poll gets a new CommandWaker with woken = false',
               'Command::run_task no longer creates a fresh waker with woken == false for each poll')
    same = bool(counts) and bool(wloads) and any(o.kind == 'call' and call_matches(o.term, ['alloc::sync::Arc::new']) for o in origins(rt, counts[0][1]['args'][0]))
    rep.expect('R07.c', same, 'count-on-poll-waker', 'strong_count is taken on the Arc<CommandWaker> created for this poll',
               'the waker count in Command::run_task is not taken on the waker created for this poll')
    check_stream_end(rep, 'R07.e', core)
    # R07.f: "woken during the poll" is read from the flag every wake must set, by reference or by value (shared with C05 R05.b)
    from rules.props import c05 as _c05
    rep.rule('R07.f', 'every way of waking a task waker enqueues the task, marks it woken and wakes the parent, on every path', floor=5)
    _c05.check_wake_impls(rep, 'R07.f', core, None)
    # R07.g: "no task remains" is only meaningful when every spawned task has entered the slab: a task still sitting in the spawn queue is
    # counted by nobody.  Both executor loops pick the spawn queue up again after any task has run, on every path out (an evicted task
    # may have spawned in its last poll), before is_done looks at the slab (shared with C01 R01.e)
    rep.rule('R07.g', 'both executor loops read both queues and return only after finding them empty again once any task has run', floor=5)
    c01.check_executor_loops(rep, core, rid='R07.g')
    # R07.j: a task that can still be woken is polled when it is: the ids taken off a ready queue all go to run_task
    rep.rule('R07.j', 'every task id taken off a ready queue is handed to run_task', floor=2)
    c01.check_ready_ids_are_run(rep, 'R07.j', core)
    # R07.h: a suspended task is reached through the TaskId its wakers and the ready queue hold, which is its key in the task slab: no
    # slab operation may move a live task to another key (compact, drain-and-reinsert), or its wake-ups poll nothing — or somebody else —
    # and the task is never finished nor evicted (the same rule as the bridge registry's, R09.a)
    from rules.props import c09 as _c09
    rep.rule('R07.h', 'task ids are stable: the task slabs are only used through operations that keep every remaining task under its key', floor=2)
    _c09.check_slab_keys(rep, 'R07.h', core, 'crux_core::command::executor::Task', 'command tasks', 5, extra=('clear',))
    _c09.check_slab_keys(rep, 'R07.h', core, 'core::option::Option<core::pin::Pin<alloc::boxed::Box<dyn', 'core executor tasks', 4)
    # R07.i: "can never be woken again" is read off the number of clones of the waker handed out for the poll: adaptors that keep clones of
    # their own for as long as they live (flatten_unordered, buffer_unordered, select_all, ..) hide a task parked on a dropped request from
    # that test; in the command runtime they are used only where tabled (shared with C13 R13.h / C04)
    from rules.props import c04 as _c04
    rep.rule('R07.i', 'adaptors that keep clones of the task waker are used only where tabled', floor=1)
    _c04.check_waker_retaining_adaptors(rep, 'R07.i', core)
    # R07.d: the premise of the eviction test for the futures crux itself provides
    from rules.props import c05
    rep.rule('R07.d', 'every future provided by crux that stays Pending holds a clone of the current poll\'s waker (or is deliberately unwakeable): '
             'the eviction test counts clones of that waker', floor=5)
    time = ctx.crate('default', 'crux_time')
    if time is None:
        rep.missing('R07.d', 'crux_time facts')
    else:
        c05.check_pending_wakers(rep, 'R07.d', core, time)
    rep.assume('NOT DECIDED: exactness of the waker-count heuristic for arbitrary user futures')


def check_finish_notify(rep, rid, core):
    """every task that leaves the slab — finished, aborted or evicted — has `finished` published (store true, >= Release) and its join
    handles woken.  Accepted placements: after the removal in run_until_settled (covering every removed task at once), or in run_task
    on every path that produces a terminal state (Completed / Cancelled); helper functions are followed."""
    from rules.common import Summaries
    rs = c06.method(core, 'crux_core::command::Command', 'run_until_settled')
    rt = c06.method(core, 'crux_core::command::Command', 'run_task')
    if rs is None or rt is None:
        rep.missing(rid, 'Command executor functions')
        return
    sm = Summaries([core])
    WAKE = ['crux_core::command::executor::Task::wake_join_handles']
    # ... and waking the join handles means waking ALL of them: wake_join_handles enumerates every registered waker and wakes each one —
    # no adaptor that selects among them (skip / take / filter / last / nth / step_by), no early exit from the loop (seeded: only the
    # newest four registrations are woken, "the rest is stale" — a fifth task awaiting the same handle sleeps forever)
    wj = [f for f in core.built if f.kind == 'AssocFn' and f.name == 'wake_join_handles' and path_matches(f.assoc.get('self_adt'), 'crux_core::command::executor::Task')]
    if len(wj) == 1:
        fam_w = [wj[0]] + core.closures_of(wj[0])
        sel = [last_seg(norm(t.get('callee') or '')) for g in fam_w for bb, t in g.calls()
               if norm(t.get('callee') or '').startswith('core::iter::') and
               last_seg(norm(t.get('callee') or '')) in ('skip', 'take', 'filter', 'filter_map', 'step_by', 'nth', 'last', 'skip_while', 'take_while', 'find', 'max_by_key', 'min_by_key', 'truncate')]
        sel += [last_seg(norm(t.get('callee') or '')) for g in fam_w for bb, t in g.calls()
                if re.search(r'(Vec|VecDeque|slice)', norm(t.get('callee') or '')) and last_seg(norm(t.get('callee') or '')) in ('truncate', 'split_off', 'drain', 'pop', 'last', 'first', 'split_at')]
        wakes = [(g, bb) for g in fam_w for bb, t in g.calls('core::task::wake::Waker::wake', 'core::task::wake::Waker::wake_by_ref')]
        looped = bool(wakes) and all(g.in_cycle(bb) or g.kind == 'Closure' for g, bb in wakes)
        # `try_iter().for_each(Waker::wake)`: the wake handed to for_each as a function item is a wake of every item
        for g in fam_w:
            for bb, t in g.calls('core::iter::traits::iterator::Iterator::for_each'):
                a1 = t['args'][1] if len(t.get('args') or []) > 1 else {}
                if a1.get('o') == 'const' and re.search(r'Waker::wake(_by_ref)?$', norm(a1.get('fn') or '')):
                    looped = looped or not wakes
        rep.expect(rid, not sel and looped, 'wake_join_handles|wakes-every-registration', 'every registered waker is woken (a loop over all of them, no selection)',
                   'Task::wake_join_handles no longer wakes every registered waker (selecting calls: %s; wake inside a loop: %s): a task awaiting '
                   'a JoinHandle whose registration is skipped is never polled again, stays in the slab and keeps the command from ever being done'
                   % (sorted(set(sel)), looped))
    else:
        rep.missing(rid, 'Task::wake_join_handles')
    # the function(s) that call wake_join_handles directly publish `finished` first
    direct = [g for g in core.built if not g.j.get('exp') and list(g.calls(*WAKE))]
    published = bool(direct)
    for g in direct:
        stores = [(bb, t) for bb, t in g.calls(*c06.ATOMIC_STORE) if 'finished' in c01.field_of_receiver(g, t['args'][0])]
        for wb, wt in g.calls(*WAKE):
            ok = any(g.dominates(sb_, wb) and sb_ != wb and st_['args'][1].get('v') == 1 and
                     c06.ordering_of(g, st_['args'][2]) in ('Release', 'SeqCst', 'AcqRel') for sb_, st_ in stores)
            published = published and ok
    rep.expect(rid, published, 'finish-then-notify', 'finished.store(true, >= Release) dominates every wake_join_handles()',
               'join handles are woken without `finished` having been published (Release) first: a woken JoinHandle would read false and sleep again')
    # placement 1: after the removal in run_until_settled
    removes = [bb for bb, t in rs.calls('slab::Slab::remove', 'slab::Slab::try_remove') if 'executor::Task' in ' '.join(t.get('targs') or [])]
    wakes_rs = sm.sites(rs, WAKE, 'must')
    rets = rs.return_blocks()
    at_removal = bool(removes) and bool(wakes_rs) and all(
        any(rs.dominates(rm, w) and rm != w for w in wakes_rs) and
        # ... on every path from the removal onwards (to the next iteration or the return)
        not any(x in rs.reachable_after(rm, removed_blocks=wakes_rs) for x in rets + [rm]) for rm in removes)
    # placement 2: in run_task, on every path that produces a terminal state
    wakes_rt = sm.sites(rt, WAKE, 'must')
    producers = [bb for bb, i, s_ in rt.stmts('assign') if s_['rv']['k'] == 'agg' and path_matches(s_['rv'].get('adt'), 'crux_core::command::executor::TaskState')
                 and s_['rv']['variant'] in ('Completed', 'Cancelled')]
    rets_t = rt.return_blocks()
    uncovered = []
    for pb in producers:
        before = any(rt.dominates(w, pb) for w in wakes_rt)
        after = bool(wakes_rt) and not any(x in rt.reachable_after(pb, removed_blocks=wakes_rt) for x in rets_t) and pb not in wakes_rt
        if not (before or after):
            uncovered.append(rt.where(pb))
    in_run_task = bool(producers) and not uncovered
    rep.expect(rid, at_removal or in_run_task, 'every-leaving-task-notifies',
               'after the removal in run_until_settled' if at_removal else 'on every terminal path of run_task',
               'a task can leave the command (finished, aborted or evicted) without its join handles being woken%s: a task awaiting its JoinHandle '
               'is never polled again' % (' (uncovered terminal states at %s)' % uncovered if uncovered and wakes_rt else ''))


def check_is_done(rep, rid, core):
    """Command::is_done settles first and is true only if the effect queue, the event queue and the task slab are all empty, and
    depends on nothing else"""
    f = c06.method(core, 'crux_core::command::Command', 'is_done')
    if f is None:
        rep.missing(rid, 'Command::is_done')
    else:
        settle = [bb for bb, t in f.calls('crux_core::command::Command::run_until_settled')]
        empt = {}
        for bb, t in f.calls('crossbeam_channel::channel::Receiver::is_empty', 'slab::Slab::is_empty'):
            for fl in c01.field_of_receiver(f, t['args'][0]):
                empt[fl] = bb
        # the result can be true only if each of the three stores was empty: assume one of them is non-empty and
        # look for a definition of the return value that may still be true
        depends = set(empt) >= {'effects', 'events', 'tasks'}
        for fl in ('effects', 'events', 'tasks'):
            if fl not in empt:
                continue
            cb = empt[fl]
            fe, te = c06.bool_edges(f, cb, f.blocks[cb]['t'])
            removed = [te] if te else []
            r = f.reachable([0], removed_edges=removed)
            for bb in r:
                for st in f.blocks[bb]['st']:
                    if st['k'] == 'assign' and st['d']['l'] == 0 and st['rv']['k'] == 'use' and st['rv']['a'].get('v') == 1:
                        depends = False
                t = f.blocks[bb]['t']
                if t['k'] == 'call' and t['d']['l'] == 0 and bb != cb:
                    depends = False
        # ... and on nothing else: every other value that can influence the result is a violation
        extra = []
        for bb, t in f.calls():
            if bb in settle or bb in [empt.get(x) for x in ('effects', 'events', 'tasks')]:
                continue
            if call_matches(t, ['core::ops::deref::Deref::deref', 'core::ops::deref::DerefMut::deref_mut']):
                continue
            sinks = flows_to(f, t['d']['l'])
            if t['d']['l'] == 0 or any(s_[0] in ('return', 'switch') for s_ in sinks):
                extra.append(norm(t.get('callee') or '?') + ' on ' + ','.join(sorted(c01.field_of_receiver(f, t['args'][0]))) if t['args'] else norm(t.get('callee') or '?'))
        if extra:
            depends = False
        ok = len(settle) == 1 and all(f.dominates(settle[0], b) and settle[0] != b for b in empt.values()) and set(empt) >= {'effects', 'events', 'tasks'} and depends
        rep.expect(rid, ok, 'is_done', 'run_until_settled() then effects.is_empty() && events.is_empty() && tasks.is_empty()',
                   'Command::is_done no longer settles first and decides on exactly effects, events and tasks (found %s%s)' % (
                       sorted(empt), '; also decided by ' + ', '.join(extra) if extra else ''))


def check_stream_end(rep, rid, core):
    """<Command as Stream>::poll_next: the choice between Ready(None) (stream ended) and Pending depends only on the three stores
    is_done consults (task slab, effect queue, event queue) — through is_done() itself or the same emptiness tests — and on nothing else"""
    rep.rule(rid, 'Command::poll_next ends the stream exactly when is_done: the Ready(None)/Pending decision reads only tasks, effects and events', floor=2)
    fs = [f for f in core.built if f.kind == 'AssocFn' and f.name == 'poll_next' and path_matches(f.assoc.get('trait'), 'futures_core::stream::Stream')
          and path_matches(f.assoc.get('self_adt'), 'crux_core::command::Command')]
    if len(fs) != 1:
        rep.missing(rid, '<Command as Stream>::poll_next')
        return
    f = fs[0]
    N = []
    P = []
    for bb, i, s_ in f.stmts('assign'):
        rv = s_['rv']
        if rv['k'] == 'agg' and rv.get('adt') == 'core::task::poll::Poll':
            if rv['variant'] == 'Pending':
                P.append(bb)
            elif rv['variant'] == 'Ready' and any(o.kind == 'agg' and o.stmt['rv'].get('adt') == 'core::option::Option' and o.stmt['rv']['variant'] == 'None'
                                                   for o in origins(f, rv['ops'][0])):
                N.append(bb)
    if not N or not P:
        rep.bad(rid, 'shape', 'Command::poll_next: no Ready(None) / Pending pair found')
        return
    targets = set(N + P)
    allowed_fields = {'tasks', 'effects', 'events'}
    bad = []
    n_dec = 0
    for sb, st in f.terms('switch'):
        outs = []
        for s2 in f.succ(sb):
            r = f.reachable([s2])
            outs.append((bool(set(N) & r), bool(set(P) & r)))
        # the switch decides between stream end and Pending only if one successor can reach Ready(None) and a *different* successor can
        # reach Pending (an arm that reaches neither — it returns an item — does not take part in that decision)
        if not any(a[0] and b[1] for i, a in enumerate(outs) for j, b in enumerate(outs) if i != j):
            continue
        n_dec += 1
        srcs = origins(f, st['a'])
        for o in srcs:
            ok = decider_ok(core, f, o, allowed_fields)
            if not ok:
                what = norm(o.term.get('callee')) + ' on ' + ','.join(sorted(c01.field_of_receiver(f, o.term['args'][0]))) if o.kind == 'call' and o.term['args'] else o.kind
                bad.append((sb, what))
    # Pending means "nothing to hand over now": it is returned only after the event queue AND the effect queue were found empty in this
    # poll (a Pending with outputs still queued is a stall: the waker is registered, but none of the command's tasks may ever fire it)
    ev_reads = c01.queue_reads(f, 'events')
    ef_reads = c01.queue_reads(f, 'effects')
    E_ev = [e for _, es in ev_reads for e in es]
    E_ef = [e for _, es in ef_reads for e in es]
    # reads combined through `a.try_recv().map(..).or_else(|_| b.try_recv().map(..))`: the Err / None edge of a test on the combined value
    # means every queue read in the chain was empty
    def chain_fields(o, depth=0):
        out = set()
        if depth > 6 or o.kind != 'call':
            return out
        c_ = o.term
        if call_matches(c_, ['crossbeam_channel::channel::Receiver::try_recv']):
            return set(c01.field_of_receiver(f, c_['args'][0]))
        cn_ = norm(c_.get('callee') or '')
        if cn_.startswith(('core::result::Result::', 'core::option::Option::')) and last_seg(cn_) in ('map', 'or_else', 'or', 'ok', 'map_err') and c_['args']:
            for x in origins(f, c_['args'][0]):
                out |= chain_fields(x, depth + 1)
            if last_seg(cn_) in ('or_else', 'or'):
                for a_ in c_['args'][1:]:
                    for x in origins(f, a_):
                        if x.kind == 'agg' and x.stmt['rv'].get('ak') == 'closure':
                            g_ = core.by_exact(x.stmt['rv']['def'])
                            for b2, t2 in (g_.calls('crossbeam_channel::channel::Receiver::try_recv') if g_ else []):
                                out |= set(y.lstrip('^').rsplit('__', 1)[-1] for y in c01.field_of_receiver(g_, t2['args'][0]))   # edition-2021 capture `self__effects`
                        elif x.kind == 'call':
                            out |= chain_fields(x, depth + 1)
        return out
    for sb, st in f.terms('switch'):
        for o in origins(f, st['a']):
            if o.kind == 'rvalue' and o.stmt['rv']['k'] == 'discr' and not o.stmt['rv']['a'].get('p'):
                flds = set()
                combined = False
                for x in origins(f, {'l': o.stmt['rv']['a']['l'], 'p': []}):
                    if x.kind == 'call' and not call_matches(x.term, ['crossbeam_channel::channel::Receiver::try_recv']):
                        fl_ = chain_fields(x)
                        if fl_:
                            combined = True
                            flds |= fl_
                if combined:
                    # empty edge: Err (1) for a Result, None (0) for an Option
                    ty_ = f.locals[o.stmt['rv']['a']['l']]
                    empty_v = 1 if ty_.startswith('core::result::Result<') else 0
                    edge = (sb, next((b2 for v, b2 in st['arms'] if v == empty_v), st['otherwise']))
                    if 'events' in flds:
                        E_ev.append(edge)
                    if 'effects' in flds:
                        E_ef.append(edge)
    stalls = [b for b in P if (E_ev and b in f.reachable_ps([0], removed_edges=E_ev)) or (E_ef and b in f.reachable_ps([0], removed_edges=E_ef))]
    rep.expect(rid, bool(E_ev) and bool(E_ef) and not stalls, 'poll_next|pending-only-when-drained',
               'every Pending return lies behind the empty edge of the event queue and of the effect queue',
               'Command::poll_next can return Pending without having found both output queues empty (at %s): outputs stay queued and, unless one '
               'of the command\'s own tasks wakes later, the host is never polled again' % [f.where(b) for b in stalls])
    # an abort raised by the last task of the pass is acted on before the command reports its state: between the first settle (which may
    # run tasks) and the end/Pending decision there is another point that looks at the aborted flag (a second settle — is_done() — or an
    # explicit was_aborted()); otherwise the aborted command stays Pending with its tasks alive until something else polls it
    from rules.common import Summaries as _Sm
    _sm = _Sm([core])
    LOOKS = ['crux_core::command::Command::run_until_settled', 'crux_core::command::Command::was_aborted', 'crux_core::command::Command::is_done']
    settles = _sm.sites(f, ['crux_core::command::Command::run_until_settled'], 'must')
    looks = [bb for bb, t in f.calls(*LOOKS)] + _sm.sites(f, LOOKS, 'must')
    first = [b for b in settles if all(f.dominates(b, x) for x in settles)]
    seen = bool(first) and all(b in first or not (set([b]) & f.reachable_ps(f.succ(first[0]), removed_blocks=[x for x in looks if x != first[0]]))
                               for b in N + P)
    rep.expect(rid, seen, 'poll_next|abort-seen-after-settle',
               'every end / Pending decision lies behind a second look at the aborted flag after the settle that ran the tasks',
               'Command::poll_next decides between stream end and Pending without looking at the aborted flag again after running the tasks: a '
               'command aborted by the last task of the pass reports Pending (with its tasks alive) instead of ending')
    rep.expect(rid, n_dec >= 1, 'poll_next|decides', '%d switch(es) decide between stream end and Pending' % n_dec,
               'Command::poll_next: nothing decides between Ready(None) and Pending')
    rep.expect(rid, not bad, 'poll_next|end-iff-done', 'every deciding test reads is_done() or the emptiness of tasks / effects / events',
               'Command::poll_next lets %s decide whether the stream has ended: the end of a hosted command no longer coincides with is_done '
               '(e.g. an aborted command whose other queue is never drained stays Pending for ever)' % sorted(set(w for _, w in bad)))


STORE_READS = ['crossbeam_channel::channel::Receiver::is_empty', 'slab::Slab::is_empty', 'crossbeam_channel::channel::Receiver::try_recv',
               'crossbeam_channel::channel::Receiver::len', 'slab::Slab::len']


def decider_ok(core, f, o, allowed_fields, depth=0):
    """is this value computed only from is_done() / reads of the allowed stores, possibly through Result/Option combinators?"""
    if depth > 6:
        return False
    if o.kind == 'call':
        c = o.term
        if call_matches(c, ['crux_core::command::Command::is_done']):
            return True
        if call_matches(c, STORE_READS):
            fl = c01.field_of_receiver(f, c['args'][0])
            fl = {x for x in fl if x not in ('self',)}
            return bool(fl & allowed_fields) and not (fl - allowed_fields)
        cn = norm(c.get('callee') or '')
        if cn.startswith(('core::result::Result::', 'core::option::Option::')):
            # a combinator: the receiver and every closure it is given must themselves only read the allowed stores
            if not c['args']:
                return False
            recv = origins(f, c['args'][0])
            if not recv or not all(decider_ok(core, f, x, allowed_fields, depth + 1) for x in recv):
                return False
            for a in c['args'][1:]:
                for x in origins(f, a):
                    if x.kind == 'agg' and x.stmt['rv'].get('ak') == 'closure':
                        g = core.by_exact(x.stmt['rv']['def'])
                        if g is None or not closure_reads_only(g, allowed_fields):
                            return False
                    elif x.kind == 'const' and x.fn:
                        continue  # a constructor such as CommandOutput::Event
                    else:
                        return False
            return True
        return False
    if o.kind == 'rvalue' and o.stmt['rv']['k'] == 'discr':
        inner = origins(f, {'l': o.stmt['rv']['a']['l'], 'p': o.stmt['rv']['a'].get('p', [])})
        return bool(inner) and all(decider_ok(core, f, x, allowed_fields, depth + 1) for x in inner)
    return False


def closure_reads_only(g, allowed_fields):
    for bb, t in g.calls():
        cn = norm(t.get('callee') or '')
        if call_matches(t, STORE_READS):
            fl = {x for x in c01.field_of_receiver(g, t['args'][0]) if x not in ('self',)}
            if not (fl & allowed_fields) or (fl - allowed_fields):
                return False
        elif cn.startswith(('core::result::Result::', 'core::option::Option::', 'core::ops::deref::')):
            continue
        else:
            return False
    return True
