"""C07 — a command is done exactly when nothing more can happen (structural clauses)."""
from rules.facts import norm, path_matches, origins, flows_to, call_matches, last_seg
from rules.props import c01, c06

CONFIGS = {'quick': ['default', 'controls'], 'thorough': []}
TECHNIQUE = ('static analysis: dependence rule on is_done, who-may-remove rule on the command\'s task slab with ordering of the '
             'finish/notify steps, input-presence rule on the eviction test')
EXPLANATION = (
    'R07.a is_done settles first and its result depends on the emptiness of the effect receiver, the event receiver and the task '
    'slab; R07.b the only removals from the command\'s task slab are `remove` in the Completed|Cancelled arm of the settle loop and '
    '`clear` under the aborted flag; in that arm the removed task\'s finished flag is stored (>= Release) before its join handles are '
    'woken; Completed is produced only from Poll::Ready or an aborted task, Cancelled only from the eviction test; R07.c the eviction '
    'test depends on the poll result being Pending (Suspended), on the woken flag and on Arc::strong_count of the per-poll waker, read '
    'after the executor\'s own Waker copy was dropped; R07.d every hand-written poll function of crux_core and crux_time that returns Pending has '
    'kept a clone of the waker of the current poll (the premise under which "no clone survives" means "cannot be woken"). NOT decided: exactness of the waker-count heuristic — whether "no surviving '
    'waker clone" coincides with "can never be woken" for every mix of joins, selects, channels and self-waking futures depends on '
    'what arbitrary user futures do with wakers at run time.')


def check(ctx, rep):
    rep.rule('R07.a', 'is_done settles and then consults effects, events and the task slab', floor=1)
    rep.rule('R07.b', 'tasks leave the slab only when Completed/Cancelled (or on abort); finished is published before join handles are woken', floor=4)
    rep.rule('R07.c', 'the eviction test reads the poll result, the woken flag and the waker count (after dropping the local Waker)', floor=3)
    core = ctx.crate('default', 'crux_core')
    if core is None:
        rep.missing('R07.a', 'crux_core facts')
        return
    f = c06.method(core, 'crux_core::command::Command', 'is_done')
    if f is None:
        rep.missing('R07.a', 'Command::is_done')
    else:
        settle = [bb for bb, t in f.calls('crux_core::command::Command::run_until_settled')]
        empt = {}
        for bb, t in f.calls('crossbeam_channel::channel::Receiver::is_empty', 'slab::Slab::is_empty'):
            for fl in c01.field_of_receiver(f, t['args'][0]):
                empt[fl] = bb
        # the result can be true only if each of the three stores was empty: assume one of them is non-empty and
        # look for a definition of the return value that may still be true
        depends = set(empt) >= {'effects', 'events', 'tasks'}
        for fl in ('effects', 'events', 'tasks'):
            if fl not in empt:
                continue
            cb = empt[fl]
            fe, te = c06.bool_edges(f, cb, f.blocks[cb]['t'])
            removed = [te] if te else []
            r = f.reachable([0], removed_edges=removed)
            for bb in r:
                for st in f.blocks[bb]['st']:
                    if st['k'] == 'assign' and st['d']['l'] == 0 and st['rv']['k'] == 'use' and st['rv']['a'].get('v') == 1:
                        depends = False
                t = f.blocks[bb]['t']
                if t['k'] == 'call' and t['d']['l'] == 0 and bb != cb:
                    depends = False
        ok = len(settle) == 1 and all(f.dominates(settle[0], b) and settle[0] != b for b in empt.values()) and set(empt) >= {'effects', 'events', 'tasks'} and depends
        rep.expect('R07.a', ok, 'is_done', 'run_until_settled() then effects.is_empty() && events.is_empty() && tasks.is_empty()',
                   'Command::is_done no longer settles first and consults all of effects, events and tasks (found %s)' % sorted(empt))
    # R07.b
    removers = []
    for g in core.built:
        if g.j.get('exp') or '::testing' in g.npath:
            continue
        for bb, t in g.calls('slab::Slab::remove', 'slab::Slab::try_remove', 'slab::Slab::clear', 'slab::Slab::drain', 'slab::Slab::retain'):
            if 'executor::Task' in ' '.join(t.get('targs') or []) and 'command' in g.npath:
                removers.append((g, bb, t))
    rs = c06.method(core, 'crux_core::command::Command', 'run_until_settled')
    rt = c06.method(core, 'crux_core::command::Command', 'run_task')
    if rs is None or rt is None:
        rep.missing('R07.b', 'Command executor functions')
        return
    outside = [(g.path, last_seg(t['callee'])) for g, bb, t in removers if g is not rs]
    rep.expect('R07.b', not outside and len(removers) >= 2, 'removers', 'tasks are removed only inside run_until_settled (%d sites)' % len(removers),
               'the command\'s task slab is emptied outside run_until_settled: %s' % outside)
    runs = [(bb, t) for bb, t in rs.calls('crux_core::command::Command::run_task')]
    adt = core.adts.get('crux_core::command::executor::TaskState')
    vidx = {v['name']: v['idx'] for v in adt['variants']} if adt else {}
    removes = [(bb, t) for g, bb, t in removers if g is rs and last_seg(t['callee']) == 'remove']
    clears = [(bb, t) for g, bb, t in removers if g is rs and last_seg(t['callee']) == 'clear']
    ok = False
    if len(runs) == 1 and len(removes) == 1 and vidx:
        rb, rtm = runs[0]
        sw = None
        for sb, st in rs.terms('switch'):
            if any(o.kind == 'rvalue' and o.stmt['rv']['k'] == 'discr' and o.stmt['rv']['a']['l'] == rtm['d']['l'] for o in origins(rs, st['a'])):
                sw = (sb, st)
        if sw:
            sb, st = sw
            def target(v):
                for val, b in st['arms']:
                    if val == v:
                        return b
                return st['otherwise']
            keep_edges = [(sb, target(vidx[n])) for n in ('Missing', 'Suspended')]
            go_edges = [(sb, target(vidx[n])) for n in ('Completed', 'Cancelled')]
            rm = removes[0][0]
            ok = rm not in rs.reachable([0], removed_edges=go_edges) and all(rm not in rs.reachable([e[1]], removed_blocks=[sb]) for e in keep_edges) \
                and all(rm in rs.reachable([e[1]]) for e in go_edges)
            # removed id is the id that was run
            same_id = any(o.kind in ('call', 'arg', 'rvalue') or True for o in origins(rs, removes[0][1]['args'][1]))
    rep.expect('R07.b', ok, 'remove-arm', 'Slab::remove is reachable exactly on the Completed and Cancelled results of run_task',
               'run_until_settled removes a task on a result other than Completed|Cancelled, or keeps a finished one')
    under_abort = bool(clears) and all(any(bb in rs.reachable([c06.bool_edges(rs, *w)[1][1]]) for w in
                                           [(b2, t2) for b2, t2 in rs.calls('crux_core::command::Command::was_aborted')] if c06.bool_edges(rs, *w)[1])
                                       for bb, t in clears)
    fe_first = None
    rep.expect('R07.b', under_abort, 'clear-under-abort', 'Slab::clear is reached only from an aborted-flag edge',
               'run_until_settled clears the task slab outside the aborted branch')
    if removes:
        rm = removes[0][0]
        stores = [bb for bb, t in rs.calls(*c06.ATOMIC_STORE) if 'finished' in c01.field_of_receiver(rs, t['args'][0])]
        wakes = [bb for bb, t in rs.calls('crux_core::command::executor::Task::wake_join_handles')]
        ok = len(stores) == 1 and len(wakes) == 1 and rs.dominates(rm, stores[0]) and rs.dominates(stores[0], wakes[0]) and stores[0] != wakes[0]
        if ok:
            st = rs.blocks[stores[0]]['t']
            ok = st['args'][1].get('v') == 1 and c06.ordering_of(rs, st['args'][2]) in ('Release', 'SeqCst', 'AcqRel')
            # the stored flag belongs to the removed task
            ok = ok and any(o.kind == 'call' and o.bb == rm for o in origins(rs, st['args'][0]))
        rep.expect('R07.b', ok, 'finish-then-notify', 'remove -> task.finished.store(true, Release) -> task.wake_join_handles()',
                   'run_until_settled no longer publishes `finished` (Release) on the removed task before waking its join handles')
    # producers of Completed / Cancelled in run_task
    comp = [bb for bb, i, s in rt.stmts('assign') if s['rv']['k'] == 'agg' and path_matches(s['rv'].get('adt'), 'crux_core::command::executor::TaskState')
            and s['rv']['variant'] == 'Completed']
    canc = [bb for bb, i, s in rt.stmts('assign') if s['rv']['k'] == 'agg' and path_matches(s['rv'].get('adt'), 'crux_core::command::executor::TaskState')
            and s['rv']['variant'] == 'Cancelled']
    polls = [(bb, t) for bb, t in rt.calls('core::future::future::Future::poll')]
    abts = [(bb, t) for bb, t in rt.calls('crux_core::command::executor::Task::is_aborted')]
    ok = False
    if len(polls) == 1 and len(abts) == 1 and len(comp) == 2 and len(canc) == 1:
        pres = polls[0][1]['d']['l']
        ready_edge = None
        for sb, st in rt.terms('switch'):
            if any(o.kind == 'rvalue' and o.stmt['rv']['k'] == 'discr' and o.stmt['rv']['a']['l'] == pres for o in origins(rt, st['a'])):
                for v, b in st['arms']:
                    if v == 0:
                        ready_edge = (sb, b)
        fe, te = c06.bool_edges(rt, *abts[0])
        if ready_edge and te:
            ok = all(c not in rt.reachable([0], removed_edges=[ready_edge, te]) for c in comp)
    rep.expect('R07.b', ok, 'completed-producers', 'Completed is produced only on Poll::Ready or for an aborted task',
               'Command::run_task can report Completed for a task that is neither ready nor aborted')
    # R07.c
    counts = [(bb, t) for bb, t in rt.calls('alloc::sync::Arc::strong_count', 'alloc::sync::Arc::weak_count')]
    wloads = [(bb, t) for bb, t in rt.calls(*c06.ATOMIC_LOAD) if 'woken' in c01.field_of_receiver(rt, t['args'][0])]
    drops = [(bb, t) for bb, t in rt.calls('core::mem::drop') if 'core::task::wake::Waker' in ' '.join(t.get('targs') or [])]
    ok = False
    detail = ''
    if len(canc) == 1 and len(counts) == 1 and len(wloads) == 1:
        cb = canc[0]
        # Cancelled depends on all three inputs: it must be unreachable when any guarding edge is flipped
        guards = {}
        for sb, st in rt.terms('switch'):
            for o in origins(rt, st['a']):
                if o.kind == 'call' and o.bb == wloads[0][0]:
                    guards['woken'] = (sb, st)
                if o.kind == 'rvalue' and o.stmt['rv']['k'] == 'binop' and any(x.kind == 'call' and x.bb == counts[0][0] for x in
                                                                            origins(rt, o.stmt['rv']['a']) + origins(rt, o.stmt['rv']['b'])):
                    guards['count'] = (sb, st)
                if o.kind == 'call' and call_matches(o.term, ['core::cmp::PartialEq::eq', 'core::cmp::PartialEq::ne']) and \
                        'TaskState' in ' '.join(o.term.get('targs') or []):
                    guards['suspended'] = (sb, st)
            # a direct match on the result enum also counts
        dep = set()
        for name, (sb, st) in guards.items():
            for s2 in rt.succ(sb):
                r = rt.reachable_ps([0], removed_edges=[(sb, s2)])
                if cb not in r:
                    dep.add(name)
        own_dropped = len(drops) == 1 and rt.dominates(drops[0][0], counts[0][0]) and rt.dominates(polls[0][0], drops[0][0])
        ok = dep >= {'woken', 'count', 'suspended'} and own_dropped
        detail = 'depends on %s; own Waker dropped before the count: %s' % (sorted(dep), own_dropped)
    rep.expect('R07.c', ok, 'eviction-inputs', detail, 'the eviction test in Command::run_task no longer depends on the poll result, the woken '
               'flag and the waker count, or reads the count while its own Waker copy is alive (%s)' % detail)
    # woken is false on a fresh waker and the count is taken on this poll's waker
    fresh = False
    for bb, i, s in rt.stmts('assign'):
        rv = s['rv']
        if rv['k'] == 'agg' and path_matches(rv.get('adt'), 'crux_core::command::executor::CommandWaker'):
            w = dict(zip(rv['fields'], rv['ops']))['woken']
            fresh = any(o.kind == 'call' and last_seg(o.term.get('callee') or '') == 'new' and o.term['args'] and o.term['args'][0].get('v') == 0
                        for o in origins(rt, w))
    rep.expect('R07.c', fresh, 'fresh-waker', 'each poll gets a new CommandWaker with woken = false',
               'Command::run_task no longer creates a fresh waker with woken == false for each poll')
    same = bool(counts) and bool(wloads) and any(o.kind == 'call' and call_matches(o.term, ['alloc::sync::Arc::new']) for o in origins(rt, counts[0][1]['args'][0]))
    rep.expect('R07.c', same, 'count-on-poll-waker', 'strong_count is taken on the Arc<CommandWaker> created for this poll',
               'the waker count in Command::run_task is not taken on the waker created for this poll')
    # R07.d: the premise of the eviction test for the futures crux itself provides
    from rules.props import c05
    rep.rule('R07.d', 'every future provided by crux that stays Pending holds a clone of the current poll\'s waker (or is deliberately unwakeable): '
             'the eviction test counts clones of that waker', floor=7)
    time = ctx.crate('default', 'crux_time')
    if time is None:
        rep.missing('R07.d', 'crux_time facts')
    else:
        c05.check_pending_wakers(rep, 'R07.d', core, time)
    rep.assume('NOT DECIDED: exactness of the waker-count heuristic for arbitrary user futures')
