"""Shared rules on the primitives every command is built from (used by C01 R01.f and C04 R04.h).

R01.f  the effect of a request / stream / notification made through the command API is put on the command's effect channel exactly
       once: notifications at the call, requests and streams at the first poll of their future (typestate ReadyToSend -> Sent), and
       the future keeps listening on the receiver it was created with.
R04.h  done / event / notify_shell / request_from_shell / stream_from_shell produce exactly their single output: the task body each
       of them gives to Command::new (or its builder) makes exactly the one context call the primitive stands for, on every path,
       with the primitive's own argument.
"""
from rules.facts import norm, path_matches, origins, flows_to, call_matches, last_seg, Origin

CTX = 'crux_core::command::context::CommandContext'
CTX_CALLS = {
    'send_event': CTX + '::send_event',
    'notify_shell': CTX + '::notify_shell',
    'request_from_shell': CTX + '::request_from_shell',
    'stream_from_shell': CTX + '::stream_from_shell',
    'spawn': CTX + '::spawn',
}
CHANNEL_SENDS = ['crossbeam_channel::channel::Sender::send', 'crossbeam_channel::channel::Sender::try_send']

# primitive -> {context call: name of the primitive's parameter that must be its argument}
PRIMITIVES = {
    'done': {},
    'event': {'send_event': 'event'},
    'notify_shell': {'notify_shell': 'operation'},
    'request_from_shell': {'request_from_shell': 'operation'},
    'stream_from_shell': {'stream_from_shell': 'operation'},
}


def assoc_fn(core, adt, name):
    fs = [f for f in core.built if f.name == name and f.kind == 'AssocFn' and path_matches(f.assoc.get('self_adt'), adt) and not f.assoc.get('trait')]
    return fs[0] if len(fs) == 1 else None


def parent_of(core, g):
    p = g.path.rsplit('::{closure', 1)[0]
    return core.by_exact(p) if p != g.path else None


def local_helpers(core, f, depth=2):
    """crate-local plain functions f calls (transitively, small depth), with the call sites: [(helper, caller, bb, term)]"""
    by_npath = {}
    for g in core.built:
        if g.kind in ('Fn', 'AssocFn'):
            by_npath.setdefault(g.npath, []).append(g)
    out = []
    seen = {f.path}
    frontier = [f] + core.closures_of(f)
    for _ in range(depth):
        nxt = []
        for h in frontier:
            for bb, t in h.calls():
                for g in by_npath.get(norm(t.get('resolved') or t.get('callee') or ''), []):
                    if g.assoc.get('trait'):
                        continue
                    out.append((g, h, bb, t))
                    if g.path not in seen:
                        seen.add(g.path)
                        nxt += [g] + core.closures_of(g)
        frontier = nxt
    return out


def origins_nt(crate, fn, operand, _depth=0, **kw):
    """origins() that looks inside newtypes introduced after the rules were confirmed: an aggregate of a one-field struct that is not in
    the inventory (`Signal(Arc<AtomicBool>)`, `MiddlewareStack(Arc<Vec<..>>)`) stands for its field"""
    from rules import inline
    known = inline.inventory().get('adts:' + crate.name) or set()
    out = []
    for o in origins(fn, operand, **kw):
        rv = o.stmt['rv'] if o.kind == 'agg' else None
        if rv is not None and rv.get('ak') == 'adt' and len(rv.get('ops') or []) == 1 and known and norm(rv.get('adt') or '') not in known and \
                norm(rv.get('adt') or '') in crate.adts and _depth < 3:
            out += origins_nt(crate, fn, rv['ops'][0], _depth + 1, **kw)
        else:
            out.append(o)
    return out


def trace_to_root(core, g, operand, root, _depth=0, _helpers=None, _suffix=None):
    """origins of `operand` of body g expressed in the enclosing function `root`: closure captures are followed up into the parent,
    parameters of a crate-local helper are followed into the argument at its call site(s)"""
    if _helpers is None:
        _helpers = local_helpers(core, root)
    out = []
    todo = list(origins(g, operand, _suffix=list(_suffix) if _suffix else None))
    while todo:
        o = todo.pop(0)
        if g.path == root.path or _depth >= 8:
            out.append((g, o))
            continue
        # (a closure called through a reference reads its captures as `(*self).^name`)
        while g.kind == 'Closure' and o.kind == 'arg' and o.n == 1 and len(o.suffix or []) > 1 and o.suffix[0] == '*' and \
                any(tok.startswith('.^') for tok in o.suffix[:3]):
            o = Origin(o.kind, **dict({k: v for k, v in o.__dict__.items() if k != 'kind'}, suffix=list(o.suffix[1:])))
        if g.kind == 'Closure' and o.kind == 'arg' and o.n == 1 and o.suffix and o.suffix[0].startswith('.^'):
            name = o.suffix[0][2:]
            # the bodies that construct this closure: its lexical parent, or — when the parent was a helper spliced into its callers — the
            # callers themselves; only those that belong to `root` matter
            family = [root] + core.closures_of(root)
            parents = [h for h in family if any(s_['rv']['k'] == 'agg' and s_['rv'].get('def') == g.path for _, _, s_ in h.stmts('assign'))]
            if not parents and parent_of(core, g) is not None:
                parents = [parent_of(core, g)]
            found = False
            for parent in parents:
                for bb, i, s in parent.stmts('assign'):
                    rv = s['rv']
                    if rv['k'] == 'agg' and rv.get('def') == g.path and name in (rv.get('fields') or []):
                        found = True
                        for h, x in trace_to_root(core, parent, rv['ops'][rv['fields'].index(name)], root, _depth + 1, _helpers,
                                                  _suffix=list(o.suffix[1:])):
                            out.append((h, x))
            if not found:
                out.append((g, o))
        elif g.kind == 'Closure' and not g.coroutine and o.kind == 'arg' and o.n >= 2:
            # a parameter of a closure: follow it into the argument at the places where the family calls this very closure
            family = [root] + core.closures_of(root)
            found = False
            for h in family:
                for bb, t in h.calls('core::ops::function::Fn::call', 'core::ops::function::FnMut::call_mut', 'core::ops::function::FnOnce::call_once'):
                    if len(t['args']) != 2 or not any(x.kind == 'agg' and x.stmt['rv'].get('def') == g.path for x in origins(h, t['args'][0])):
                        continue
                    for x in origins(h, t['args'][1]):
                        if x.kind == 'agg' and x.stmt['rv'].get('ak') == 'tuple' and o.n - 2 < len(x.stmt['rv']['ops']):
                            found = True
                            for h2, y in trace_to_root(core, h, x.stmt['rv']['ops'][o.n - 2], root, _depth + 1, _helpers, _suffix=list(o.suffix or [])):
                                out.append((h2, y))
            if not found:
                out.append((g, o))
        elif g.kind != 'Closure' and o.kind == 'arg':
            sites = [(caller, bb, t) for (hp, caller, bb, t) in _helpers if hp.path == g.path]
            if not sites:
                out.append((g, o))
            for caller, bb, t in sites:
                if o.n - 1 < len(t['args']):
                    for h, x in trace_to_root(core, caller, t['args'][o.n - 1], root, _depth + 1, _helpers, _suffix=list(o.suffix or [])):
                        out.append((h, x))
        else:
            out.append((g, o))
    return out


def param_index(f, name):
    for d in f.j['debug']:
        if d['name'] == name and 'l' in d['place'] and not d['place']['p'] and 1 <= d['place']['l'] <= f.argc:
            return d['place']['l']
    return None


def must_pass(g, bb):
    """every path from the entry of g to a return goes through block bb"""
    r = g.reachable([0], removed_blocks=[bb])
    return not any(x in r for x in g.return_blocks())


def body_unconditional(core, g, root):
    """the nested body g is what its parent returns on every path (so running the parent's result runs g), up to root"""
    while g.path != root.path:
        parent = parent_of(core, g)
        if parent is None:
            return False
        made = [bb for bb, i, s in parent.stmts('assign') if s['rv']['k'] == 'agg' and s['rv'].get('def') == g.path]
        if len(made) != 1 or not must_pass(parent, made[0]):
            return False
        g = parent
    return True


def check_primitives(rep, rid, core):
    n = 0
    for name, want in PRIMITIVES.items():
        f = assoc_fn(core, 'crux_core::command::Command', name)
        if f is None:
            rep.missing(rid, 'Command::%s' % name)
            continue
        bodies = [f] + core.closures_of(f)
        got = {}
        for g in bodies:
            for cname, pat in CTX_CALLS.items():
                for bb, t in g.calls(pat):
                    got.setdefault(cname, []).append((g, bb, t))
            for bb, t in g.calls(*CHANNEL_SENDS):
                got.setdefault('raw-send', []).append((g, bb, t))
        n += 1
        extra = sorted(k for k in got if k not in want)
        rep.expect(rid, not extra, '%s|nothing-else' % name, 'the task body makes no context call besides %s' % (sorted(want) or 'none'),
                   'Command::%s: its task body also calls %s — the primitive no longer produces exactly its single output' % (name, extra))
        for cname, pname in want.items():
            sites = got.get(cname, [])
            key = '%s|%s-once' % (name, cname)
            if len(sites) != 1:
                rep.bad(rid, key, 'Command::%s: expected exactly one call of ctx.%s in its task body, found %d' % (name, cname, len(sites)))
                continue
            g, bb, t = sites[0]
            every = must_pass(g, bb) and not g.in_cycle(bb) and body_unconditional(core, g, f)
            pi = param_index(f, pname)
            src = trace_to_root(core, g, t['args'][1], f)
            own = pi is not None and bool(src) and all(h.path == f.path and o.kind == 'arg' and o.n == pi and not o.suffix for h, o in src)
            rep.expect(rid, every and own, key,
                       'ctx.%s is called once on every path of the task body with the primitive\'s `%s`' % (cname, pname),
                       'Command::%s: ctx.%s is %s' % (name, cname, 'not reached on every path of the task body (or sits in a loop)' if not every
                                                      else 'not given the primitive\'s own `%s` argument unchanged' % pname))
    return n


def check_request_typestate(rep, rid, core):
    """command-API request futures: ReadyToSend -> Sent on the first poll, sending exactly once, keeping the original receiver"""
    SS = 'crux_core::command::context::ShellStream'
    # ---- the three context methods put the effect on the command's own effect channel
    for name, ctor in (('notify_shell', 'resolves_never'), ('request_from_shell', 'resolves_once'), ('stream_from_shell', 'resolves_many_times')):
        f = assoc_fn(core, CTX, name)
        if f is None:
            rep.missing(rid, 'CommandContext::%s' % name)
            continue
        bodies = [f] + core.closures_of(f)
        for hp, caller, bb_, t_ in local_helpers(core, f):
            if hp.npath.startswith('crux_core::command::context::') and hp not in bodies:
                bodies += [hp] + [h for h in core.closures_of(hp) if h not in bodies]
        sends = [(g, bb, t) for g in bodies for bb, t in g.calls(*CHANNEL_SENDS)]
        key = 'ctx.%s|one-send' % name
        if len(sends) != 1:
            rep.bad(rid, key, 'CommandContext::%s: expected exactly one send on the effect channel, found %d' % (name, len(sends)))
            continue
        g, bb, t = sends[0]
        chan = trace_to_root(core, g, t['args'][0], f)
        # the channel is self.effects (or a clone of it)
        def is_effects(h, o):
            if o.kind == 'arg' and o.n == 1 and '.effects' in o.suffix:
                return True
            if o.kind == 'call' and call_matches(o.term, ['core::clone::Clone::clone']):
                return all(x.kind == 'arg' and x.n == 1 and '.effects' in x.suffix for x in origins(h, o.term['args'][0]))
            return False
        chan_ok = bool(chan) and all(is_effects(h, o) for h, o in chan)
        # the payload is Request::<ctor>(operation, ..).into()
        val = trace_to_root(core, g, t['args'][1], f)
        def is_request(h, o):
            if o.kind != 'call' or not call_matches(o.term, ['core::convert::Into::into', 'core::convert::From::from']):
                return False
            rq = origins(h, o.term['args'][0])
            if not rq or not all(x.kind == 'call' and last_seg(x.term.get('callee') or '') == ctor for x in rq):
                return False
            return all(y.kind == 'arg' and y.n == 2 and not y.suffix for x in rq for y in origins(h, x.term['args'][0]))
        val_ok = bool(val) and all(is_request(h, o) for h, o in val)
        once = must_pass(g, bb) and not g.in_cycle(bb)
        rep.expect(rid, chan_ok and val_ok and once, key,
                   'Request::%s(operation, ..).into() is sent exactly once on self.effects' % ctor,
                   'CommandContext::%s: %s' % (name, 'the send does not go to self.effects' if not chan_ok else
                                               'what is sent is not Request::%s(operation, ..).into()' % ctor if not val_ok else
                                               'the send is not on every path exactly once'))
        if name == 'notify_shell':
            continue
        # the sending closure is what the returned future is built from, and it is not called here
        made = [(bb2, t2) for bb2, t2 in f.calls('crux_core::command::context::ShellRequest::new', SS + '::new')]
        ok = len(made) == 1 and g.path != f.path
        if ok:
            first = origins(f, made[0][1]['args'][0], extra_identity=[('alloc::boxed::Box::new', 0)], through_casts=True)

            def is_the_closure(h, o, depth=0):
                if o.kind == 'agg' and o.stmt['rv'].get('def') == g.path:
                    return True
                if o.kind == 'call' and depth < 2:
                    # a crate-local helper that returns the closure
                    for hp in [x for x in bodies if x.kind != 'Closure' and x.npath == norm(o.term.get('resolved') or o.term.get('callee') or '')]:
                        ret_ = origins(hp, {'l': 0, 'p': []}, extra_identity=[('alloc::boxed::Box::new', 0)], through_casts=True)
                        if ret_ and all(is_the_closure(hp, y, depth + 1) for y in ret_):
                            return True
                return False
            ok = bool(first) and all(is_the_closure(f, o) for o in first) and \
                not any(list(h.calls('core::ops::function::FnOnce::call_once')) for h in bodies if h.kind != 'Closure')
            ret = origins(f, {'l': 0, 'p': []})
            ok = ok and bool(ret) and all(o.kind == 'call' and o.bb == made[0][0] for o in ret)
        rep.expect(rid, ok, 'ctx.%s|deferred-to-first-poll' % name, 'the sending closure is handed to the returned future, not run at the call',
                   'CommandContext::%s no longer returns a future built from its sending closure' % name)
    # ---- ShellStream::poll_next: ReadyToSend arm sends on every path and returns Pending; Sent arm delegates
    polls = [f for f in core.built if f.name == 'poll_next' and path_matches(f.assoc.get('self_adt'), SS)]
    send = assoc_fn(core, SS, 'send')
    if len(polls) != 1:
        rep.missing(rid, 'command ShellStream::poll_next')
        return
    f = polls[0]
    adt = core.adts.get(SS)
    vidx = {v['name']: v['idx'] for v in adt['variants']} if adt else {}
    sw = [(sb, st) for sb, st in f.terms('switch')
          if any(o.kind == 'rvalue' and o.stmt['rv']['k'] == 'discr' and path_matches(o.stmt['rv']['a'].get('adt'), SS) for o in origins(f, st['a']))]
    from rules.common import Summaries
    sm = Summaries([core])
    fn_calls = sm.sites(f, ['core::ops::function::FnOnce::call_once'], 'must')
    use_ts = (len(sw) != 1 or send is None) and 'ReadyToSend' in vidx
    if use_ts:
        # the state machine is not written as one match (helpers such as is_sent() / send_request() spliced in, the receiver polled before the
        # state test): read it by a typestate walk of every path from each initial state of *self
        from rules.props import c02 as _c02
        ts = {v: [p_ for p_ in _c02.typestate_paths(core, f, norm(adt['path']), v) if p_['end'] == 'return'] for v in ('ReadyToSend', 'Sent')}
        pr, ps_ = ts['ReadyToSend'], ts['Sent']
        rep.expect(rid, bool(pr) and all(len(p_['calls']) == 1 and p_['final'] == 'Sent' for p_ in pr), 'ShellStream::poll_next|first-poll-sends',
                   'from ReadyToSend every returning path runs the sending closure exactly once and leaves Sent behind',
                   'command ShellStream::poll_next can return from the ReadyToSend state without sending the request effect (or sends twice, or stays ReadyToSend)')
        rep.expect(rid, bool(ps_) and all(not p_['calls'] and p_['final'] == 'Sent' for p_ in ps_), 'ShellStream::poll_next|sent-never-resends',
                   'from Sent no path reaches the sending closure or changes the state', 'command ShellStream::poll_next can send again from the Sent state')
        # from Sent the value returned is the poll of the receiver
        good_ret = bool(ps_)
        for p_ in ps_:
            defs_ = []
            for bb in p_['blocks']:
                t = f.blocks[bb]['t']
                if t['k'] == 'call' and t['d']['l'] == 0 and not t['d']['p']:
                    defs_.append(last_seg(t.get('callee') or '').startswith('poll'))
                for st_ in f.blocks[bb]['st']:
                    if st_['k'] == 'assign' and st_['d']['l'] == 0 and not st_['d']['p']:
                        src = origins(f, st_['rv']['a']) if st_['rv']['k'] == 'use' else []
                        defs_.append(bool(src) and all(o.kind == 'call' and last_seg(o.term.get('callee') or '').startswith('poll') for o in src))
            good_ret = good_ret and bool(defs_) and all(defs_)
        rep.expect(rid, good_ret, 'ShellStream::poll_next|sent-delegates', 'from Sent the poll of the receiver is returned',
                   'command ShellStream::poll_next: from the Sent state something other than the poll of its receiver can be returned')
    elif len(sw) != 1 or 'ReadyToSend' not in vidx:
        rep.bad(rid, 'ShellStream::poll_next|match', 'poll_next is no longer one match on the ReadyToSend / Sent state')
    else:
        sb, st = sw[0]
        arm = {name: next((b for v, b in st['arms'] if v == i), st['otherwise']) for name, i in vidx.items()}
        rets = f.return_blocks()
        r = f.reachable([arm['ReadyToSend']], removed_blocks=fn_calls)
        rep.expect(rid, bool(fn_calls) and not any(x in r for x in rets), 'ShellStream::poll_next|first-poll-sends',
                   'every path of the ReadyToSend arm runs the sending closure before returning',
                   'command ShellStream::poll_next can return from the ReadyToSend state without sending the request effect')
        r2 = f.reachable([arm['Sent']])
        rep.expect(rid, not any(x in r2 for x in fn_calls), 'ShellStream::poll_next|sent-never-resends',
                   'the Sent arm cannot reach the sending closure', 'command ShellStream::poll_next can send again from the Sent state')
        # Sent arm returns the receiver's poll unchanged: every definition of the return value reachable from the Sent arm is a
        # poll-like call on (a borrow of) the Sent payload
        def from_sent(op):
            for o in origins(f, op, extra_identity=[('core::pin::Pin::new_unchecked', 0), ('core::pin::Pin::new', 0), ('core::pin::Pin::as_mut', 0),
                                                    ('core::ops::deref::DerefMut::deref_mut', 0)]):
                toks = list(o.suffix or [])
                if o.kind == 'rvalue' and o.stmt['rv']['k'] == 'ref':
                    toks += list(o.stmt['rv']['a'].get('p') or [])
                if any('as Sent' in p_ for p_ in toks):
                    return True
            return False
        defs = []
        for bb in r2:
            t = f.blocks[bb]['t']
            if t['k'] == 'call' and t['d']['l'] == 0 and not t['d']['p']:
                defs.append((bb, last_seg(t.get('callee') or '').startswith('poll') and bool(t['args']) and from_sent(t['args'][0])))
            for st_ in f.blocks[bb]['st']:
                if st_['k'] == 'assign' and st_['d']['l'] == 0 and not st_['d']['p']:
                    src = origins(f, st_['rv']['a']) if st_['rv']['k'] == 'use' else []
                    good_ = bool(src) and all(o.kind == 'call' and last_seg(o.term.get('callee') or '').startswith('poll') and from_sent(o.term['args'][0]) for o in src)
                    defs.append((bb, good_))
        own = [d for d in defs if d[0] not in f.reachable([arm['ReadyToSend']]) or d[1]]
        rep.expect(rid, bool(own) and all(g_ for _, g_ in own), 'ShellStream::poll_next|sent-delegates', 'the Sent arm returns the poll of its receiver',
                   'command ShellStream::poll_next: the Sent arm can return something other than the poll of its receiver')
    # ---- ShellStream::send (or wherever the state changes): the new state keeps the original receiver and the closure is called
    host = send if send is not None else f
    # every write of a ShellStream state into *self: plain stores through a reference and mem::replace / swap / Pin::set
    state_writes = []  # (block, is_good)
    def classify(value_operand):
        src = origins(host, value_operand)
        aggs = [o for o in src if o.kind == 'agg' and path_matches(o.stmt['rv'].get('adt'), SS)]
        if not aggs or len(aggs) != len(src):
            return None if not aggs else False
        good = True
        for o in aggs:
            if o.stmt['rv'].get('variant') != 'Sent':
                good = False
                continue
            rcv = origins(host, o.stmt['rv']['ops'][0])
            if not rcv or not all(any('as ReadyToSend' in p_ for p_ in x.suffix) for x in rcv):
                good = False
        return good
    for bb, i, s_ in host.stmts('assign'):
        if s_['d']['p'] and s_['d']['p'][-1] == '*' and s_['rv']['k'] == 'use':
            g_ = classify(s_['rv']['a'])
            if g_ is not None:
                state_writes.append((bb, g_))
    for bb, t in host.calls('core::mem::replace', 'core::mem::swap', 'core::pin::Pin::set'):
        if len(t['args']) >= 2:
            g_ = classify(t['args'][1])
            if g_ is not None:
                state_writes.append((bb, g_))
    good = [bb for bb, g_ in state_writes if g_]
    other = [bb for bb, g_ in state_writes if not g_]
    rets_h = host.return_blocks()
    keep = bool(good) and not any(r_ in host.reachable([0], removed_blocks=good) for r_ in rets_h) and \
        not any(o_ in host.reachable_after(gb) for gb in good for o_ in other if o_ != gb)
    calls = [(bb, t) for bb, t in host.calls('core::ops::function::FnOnce::call_once')]
    called = len(calls) == 1 and must_pass(host, calls[0][0]) and \
        all(any('as ReadyToSend' in p for p in x.suffix) for x in origins(host, calls[0][1]['args'][0]))
    if use_ts and host is f:
        # judged on the paths from ReadyToSend only (from Sent nothing is written): the LAST state written is the one holding the original receiver
        keep = bool(pr) and all(p_['writes'] and p_['writes'][-1][0] in good for p_ in pr)
        called = bool(pr) and all(len(p_['calls']) == 1 for p_ in pr) and len(calls) >= 1 and \
            all(all(any('as ReadyToSend' in p for p in x.suffix) for x in origins(host, t_['args'][0])) and origins(host, t_['args'][0]) for _, t_ in calls)
    rep.expect(rid, keep, 'ShellStream::send|keeps-receiver', 'the Sent state stored into *self holds the receiver taken out of ReadyToSend',
               'command ShellStream::send: the state left behind does not hold the original receiver (responses would never arrive)')
    rep.expect(rid, called, 'ShellStream::send|calls-closure', 'the closure taken out of ReadyToSend is called on every path',
               'command ShellStream::send does not call the stored sending closure on every path')
    # ---- ShellRequest::poll: Ready(Some(x)) -> Ready(x), anything else Pending
    SR = 'crux_core::command::context::ShellRequest'
    ps = [g for g in core.built if g.name == 'poll' and path_matches(g.assoc.get('self_adt'), SR)]
    if len(ps) != 1:
        rep.missing(rid, 'command ShellRequest::poll')
        return
    g = ps[0]
    readies = [(bb, s) for bb, i, s in g.stmts('assign') if s['rv']['k'] == 'agg' and s['rv'].get('variant') == 'Ready' and
               path_matches(s['rv'].get('adt'), 'core::task::poll::Poll')]
    ok = len(readies) >= 1
    for bb, s in readies:
        src = origins(g, s['rv']['ops'][0])
        ok = ok and bool(src) and all(o.kind == 'call' and 'poll' in last_seg(o.term.get('callee') or '') and
                                      any('as Some' in p for p in o.suffix) for o in src)
    rep.expect(rid, ok, 'ShellRequest::poll|output-unchanged', 'Ready carries exactly the Some(..) payload of the inner poll',
               'command ShellRequest::poll: the value it completes with is not the payload its channel delivered')
