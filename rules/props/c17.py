"""C17 — key-value operations and results pass through unaltered (structural clauses)."""
from rules.facts import norm, path_matches, origins, flows_to, call_matches, last_seg

CONFIGS = {'quick': ['default', 'controls'], 'thorough': ['allfeat']}
TECHNIQUE = ('static analysis: sibling table over the five operations x {capability API, command API} x un-wrapper, with '
             'pass-through provenance of every field and a shape rule for the Value <-> Option conversions')
EXPLANATION = (
    'R17.a for each operation K the capability-API function, the command-API function and unwrap_K are paired: the function builds '
    'KeyValueOperation::K and nothing else, issues exactly one request_from_shell outside any loop, and hands the result to unwrap_K, '
    'which produces its Ok value only from the KeyValueResponse::K arm; R17.b every field of the operation comes from the like-named '
    'parameter through at most Into::into, every component returned by unwrap_K comes from the matched response field through at most '
    'the Value -> Option conversion, and the shell\'s error is returned (a clone is tabled); R17.c the two Value conversions map '
    'None <-> Value::None and Some(b) <-> Value::Bytes(b) with b moved and no call. Bytes across the bridge are C10; R17.f shares its codec rules (no byte limit, one options value, fresh output buffer), since a limit would reject large values only on the bridge path; R17.g shares the wire-type rules of C10 restricted to the crux_kv types (only wire-neutral serde attributes, both directions derived). R17.h each public capability method (K with an event constructor, K_async) makes one call of its request function on every path with the like-named parameters and hands back exactly the awaited answer. R17.b returns-unwrapped: in the body that calls unwrap_K the value returned is that call\'s result and nothing else.')

OPS = [('Get', 'get', 'unwrap_get', {'key': 'key'}, {'value'}),
       ('Set', 'set', 'unwrap_set', {'key': 'key', 'value': 'value'}, {'previous'}),
       ('Delete', 'delete', 'unwrap_delete', {'key': 'key'}, {'previous'}),
       ('Exists', 'exists', 'unwrap_exists', {'key': 'key'}, {'is_present'}),
       ('ListKeys', 'list_keys', 'unwrap_list_keys', {'prefix': 'prefix', 'cursor': 'cursor'}, {'keys', 'next_cursor'})]

INTO = [('core::convert::Into::into', 0), ('core::convert::From::from', 0)]


def param_names(fn, operand, extra=INTO):
    """names of the parameters / captured variables the operand comes from (through moves and Into::into)"""
    out = set()
    calls = set()
    for o in origins(fn, operand, extra_identity=extra):
        if o.kind == 'arg':
            if o.n == 1 and fn.kind == 'Closure':
                for tok in o.suffix:
                    if tok.startswith('.^'):
                        out.add(tok[2:])
            else:
                for d in fn.j['debug']:
                    if d['place']['l'] == o.n and not d['place']['p']:
                        out.add(d['name'])
        elif o.kind == 'call':
            calls.add(norm(o.term.get('callee') or '?'))
        else:
            calls.add(o.kind)
    return out, calls


def bodies(kv, fn):
    return [fn] + kv.closures_of(fn)


def check(ctx, rep):
    rep.rule('R17.a', 'each API function builds its own operation, issues one request, and pairs with its un-wrapper and response kind', floor=15)
    rep.rule('R17.b', 'operation fields come from the like-named parameters; results come from the matched response fields; errors pass through', floor=15)
    rep.rule('R17.c', 'Value <-> Option<Vec<u8>> map None<->None and Some(b)<->Bytes(b) by moves only', floor=2)
    kv = ctx.crate('default', 'crux_kv')
    if kv is None:
        rep.missing('R17.a', 'crux_kv facts')
        return
    for variant, fname, uname, fields, resp_fields in OPS:
        apis = {
            'capability': [f for f in kv.built if f.kind == 'Fn' and f.name == fname and f.npath == 'crux_kv::' + fname],
            'command': [f for f in kv.built if f.kind == 'AssocFn' and f.name == fname and path_matches(f.assoc.get('self_adt'), 'crux_kv::command::KeyValue')],
        }
        if not apis['capability']:
            # the private request function folded into the capability's own `<name>_async` method
            apis['capability'] = [f for f in kv.built if f.kind == 'AssocFn' and f.name == fname + '_async' and path_matches(f.assoc.get('self_adt'), 'crux_kv::KeyValue')
                                  and not f.assoc.get('trait')]
        for api, fs in apis.items():
            key = '%s|%s' % (api, variant)
            if len(fs) != 1:
                rep.bad('R17.a', key + '|missing', '%s API function for %s not found (%d)' % (api, variant, len(fs)))
                continue
            bs = bodies(kv, fs[0])
            aggs = [(g, bb, s) for g in bs for bb, i, s in g.stmts('assign') if s['rv']['k'] == 'agg' and
                    path_matches(s['rv'].get('adt'), 'crux_kv::KeyValueOperation')]
            reqs = [(g, bb, t) for g in bs for bb, t in g.calls('crux_core::capability::CapabilityContext::request_from_shell',
                                                                 'crux_core::command::Command::request_from_shell',
                                                                 'crux_core::command::context::CommandContext::request_from_shell')]
            unws = [(g, bb, t) for g in bs for bb, t in g.calls() if last_seg(t.get('callee') or '').startswith('unwrap_') and
                    'KeyValueResult' in norm(t.get('cself') or t.get('callee') or '')]
            # the un-wrapper may also be handed over as a function item (`.map(KeyValueResult::unwrap_get)`, or as an argument of a helper)
            unw_names = [last_seg(u[2]['callee']) for u in unws]
            for g in bs:
                seen_items = set()
                for blk in g.blocks:
                    ops_ = [st_['rv'].get('a') for st_ in blk['st'] if st_['k'] == 'assign' and st_['rv']['k'] == 'use'] + list(blk['t'].get('args') or [])
                    for op in ops_:
                        fnp = (op or {}).get('fn') if isinstance(op, dict) else None
                        if fnp and last_seg(fnp).startswith('unwrap_') and 'KeyValueResult' in norm(fnp) and fnp not in seen_items:
                            seen_items.add(fnp)
                unw_names += [last_seg(x) for x in seen_items]
            ok = len(aggs) == 1 and aggs[0][2]['rv']['variant'] == variant and len(reqs) == 1 and not reqs[0][0].in_cycle(reqs[0][1]) and \
                sorted(set(unw_names)) == [uname]
            if ok:
                # the request carries the aggregate
                g, bb, t = reqs[0]
                arg = t['args'][-1]
                ok = any(o.kind == 'agg' and o.stmt is aggs[0][2] for o in origins(g, arg))
            if ok:
                # ... and the shell is asked on EVERY path: no return of the body that holds the request is reachable without it
                g, bb, t = reqs[0]
                if any(r_ in g.reachable([0], removed_blocks=[bb]) for r_ in g.return_blocks()):
                    ok = False
            rep.expect('R17.a', ok, key, 'builds %s, one request_from_shell, result to %s' % (variant, uname),
                       'crux_kv %s API `%s`: built %s, %d request(s), un-wrapper %s' % (
                           api, fname, [a[2]['rv']['variant'] for a in aggs], len(reqs), sorted(set(unw_names))))
            # ... and what the un-wrapper returned is what the API function hands back: in the body that calls unwrap_K the value returned
            # is that call's result and nothing else (seeded: a helper between the two turning CursorNotFound for cursor 0 into an empty page)
            for g_, bb_, t_ in unws:
                ret_ = origins(g_, {'l': 0, 'p': []})
                rep.expect('R17.b', bool(ret_) and all(o.kind == 'call' and o.bb == bb_ for o in ret_), key + '|returns-unwrapped',
                           'the result of %s is returned as it is' % uname,
                           'crux_kv %s API `%s`: what %s returned is changed before it reaches the app (%s): a result or an error the shell reported '
                           'is replaced' % (api, fname, uname, sorted(set(o.kind if o.kind != 'call' else last_seg(o.term.get('callee') or '?') for o in ret_))))
            # R17.b fields
            if len(aggs) == 1:
                g, bb, s = aggs[0]
                for fld, op in zip(s['rv']['fields'], s['rv']['ops']):
                    names, calls = param_names(g, op)
                    want = fields.get(fld)
                    rep.expect('R17.b', names == {want} and not calls, '%s|%s.%s' % (api, variant, fld),
                               'field %s <- parameter %s' % (fld, want),
                               'crux_kv %s API `%s`: field %s of the operation comes from %s %s, expected parameter `%s` through at most into()'
                               % (api, fname, fld, sorted(names), sorted(calls), want))
        # the un-wrapper
        us = [f for f in kv.built if f.kind == 'AssocFn' and f.name == uname and path_matches(f.assoc.get('self_adt'), 'crux_kv::KeyValueResult')]
        key = 'unwrap|%s' % variant
        if len(us) != 1:
            rep.bad('R17.a', key + '|missing', '%s not found' % uname)
            continue
        u = us[0]
        # what the function returns: the Ok payload and the Err payload of the return place (aggregates built on the way, `?` and
        # spliced helpers are followed by the provenance walk)
        leaves = []

        def collect(op, depth=0, body=None):
            body = body or u
            os_ = origins(body, op, extra_identity=INTO)
            for o in os_:
                if o.kind == 'agg' and o.stmt['rv'].get('ak') == 'tuple' and depth < 4:
                    for x in o.stmt['rv']['ops']:
                        collect(x, depth + 1, body)
                    continue
                # the payload picked by a closure built in this body and called here (`pick(response)` inside a spliced generic helper):
                # what the closure returns, with its parameter standing for the argument it is called with
                if o.kind == 'call' and body is u and depth < 4 and 'call_once' in last_seg(o.term.get('callee') or 'call_once') and len(o.term.get('args') or []) == 2:
                    clos = [x for x in origins(u, o.term['args'][0]) if x.kind == 'agg' and x.stmt['rv'].get('ak') == 'closure']
                    g_ = kv.by_exact(clos[0].stmt['rv']['def']) if len(clos) == 1 else None
                    tup = o.term['args'][1]
                    if g_ is not None and 'l' in tup:
                        def _inner(place, d_=0):
                            out_ = []
                            for i_ in origins(g_, place, extra_identity=INTO):
                                if i_.kind == 'agg' and i_.stmt['rv'].get('ak') == 'tuple' and d_ < 3:
                                    for x_ in i_.stmt['rv']['ops']:
                                        out_ += _inner(x_, d_ + 1)
                                else:
                                    out_.append(i_)
                            return out_
                        inner = _inner({'l': 0, 'p': list(o.suffix)})
                        if inner and all(i_.kind == 'arg' and i_.n >= 2 for i_ in inner):
                            for i_ in inner:
                                collect({'l': tup['l'], 'p': list(tup.get('p') or []) + ['.%d' % (i_.n - 2)] + list(i_.suffix)}, depth + 1, u)
                            continue
                leaves.append(o)
        collect({'l': 0, 'p': ['as Ok', '.0']})
        comp_ok = bool(leaves)
        seen_fields = set()
        for o in leaves:
            suf = getattr(o, 'suffix', [])
            if o.kind != 'arg' or o.n != 1 or ('as ' + variant) not in suf or 'as Ok' not in suf:
                comp_ok = False
            else:
                seen_fields.add(suf[-1].lstrip('.'))
        comp_ok = comp_ok and seen_fields == resp_fields
        rep.expect('R17.a', comp_ok, key, 'Ok(..) is built only from the fields %s of KeyValueResponse::%s' % (sorted(resp_fields), variant),
                   '%s no longer builds its Ok value from the fields of KeyValueResponse::%s only' % (uname, variant))
        srcs = origins(u, {'l': 0, 'p': ['as Err', '.0']}, through_clone=True)
        err_ok = bool(srcs) and all(o.kind == 'arg' and o.n == 1 and 'as Err' in o.suffix and o.suffix[-1] == '.error' for o in srcs)
        rep.expect('R17.b', err_ok, key + '|error', 'Err(error) returns the shell\'s error (clone tabled)',
                   '%s no longer returns the error reported by the shell unchanged' % uname)
    # R17.h: the PUBLIC methods of the capability (`K` with an event constructor, `K_async`) are pass-throughs around the request
    # function R17.a judges: on every path they ask the shell (one call of the request function, outside any loop, with the like-named
    # parameters) and what they hand back — the return value of `K_async`, the argument of the event constructor given to update_app
    # in `K` — is exactly the awaited answer. (Seeded: `set_async` answering a repeated identical write from a memo.)
    rep.rule('R17.h', 'every public capability method asks the shell on every path and hands back exactly the awaited answer', floor=10)

    # one generic private request function serving all five operations (`request(ctx, operation, unwrap)`) counts as the request function
    # too: a crate-local function that is not a public method of the capability and whose async body asks the shell
    _generic = set()
    for f_ in kv.built:
        if f_.kind in ('Fn', 'AssocFn') and not f_.assoc.get('trait') and f_.name not in [x[1] for x in OPS] + [x[1] + '_async' for x in OPS] and \
                any(True for g_ in [f_] + kv.closures_of(f_) for _ in g_.calls('crux_core::capability::CapabilityContext::request_from_shell')):
            _generic.add(f_.npath)

    def _is_req(t, fname):
        n = norm(t.get('callee') or '')
        if n == 'crux_kv::' + fname:
            return True
        if n in _generic or norm(t.get('resolved') or '') in _generic:
            return True
        return last_seg(n) == fname + '_async' and 'KeyValue' in norm(t.get('cself') or n)

    def _is_generic(t):
        return norm(t.get('callee') or '') in _generic or norm(t.get('resolved') or '') in _generic

    _RFS = 'crux_core::capability::CapabilityContext::request_from_shell'

    def _callee_name(g, t, family):
        """last segment of the function a call reaches; for a call through a function pointer captured by this closure (`unwrap(answer)`
        with `unwrap` handed down from the public method as a function item) the item is looked up where the closure was built"""
        if t.get('callee'):
            return last_seg(norm(t['callee']))
        fop = t.get('f')
        if not isinstance(fop, dict) or 'l' not in fop:
            return '?'
        names = set()
        for o in origins(g, fop, through_casts=True):
            if o.kind == 'const' and getattr(o, 'fn', None):
                names.add(last_seg(norm(o.fn)))
            elif o.kind == 'arg' and o.n == 1 and g.kind == 'Closure':
                ups = [tok[2:] for tok in o.suffix if tok.startswith('.^')]
                for h in family:
                    for _, _, s_ in h.stmts('assign'):
                        rv = s_['rv']
                        if rv['k'] == 'agg' and rv.get('ak') in ('closure', 'coroutine') and rv.get('def') == g.path:
                            for fld, op in zip(rv.get('fields') or [], rv.get('ops') or []):
                                if fld in ups:
                                    if op.get('o') == 'const' and op.get('fn'):
                                        names.add(last_seg(norm(op['fn'])))
                                    else:
                                        for o2 in origins(h, op, through_casts=True):
                                            names.add(last_seg(norm(o2.fn)) if o2.kind == 'const' and getattr(o2, 'fn', None) else '?')
            else:
                names.add('?')
        return names.pop() if len(names) == 1 else '?'

    def _awaited_req(g, operand, fname, uname=None, family=()):
        def awaited(o):
            return o.kind == 'call' and (_is_req(o.term, fname) or call_matches(o.term, [_RFS])) and any(s_[0] == 'await' for s_ in o.steps)
        os_ = origins(g, operand)
        if bool(os_) and all(awaited(o) for o in os_):
            return True
        # the request folded into this body: the answer goes through the operation's own un-wrapper first
        return bool(os_) and uname is not None and all(
            o.kind == 'call' and _callee_name(g, o.term, family) == uname and o.term.get('args') and
            (lambda a_: bool(a_) and all(awaited(x) for x in a_))(origins(g, o.term['args'][0])) for o in os_)

    for variant, fname, uname, fields, resp_fields in OPS:
        for form, mname in (('async', fname + '_async'), ('event', fname)):
            ms = [f for f in kv.built if f.kind == 'AssocFn' and f.name == mname and path_matches(f.assoc.get('self_adt'), 'crux_kv::KeyValue')
                  and not f.assoc.get('trait')]
            key = '%s|%s' % (form, variant)
            if len(ms) != 1:
                rep.bad('R17.h', key + '|missing', 'capability method KeyValue::%s not found (%d)' % (mname, len(ms)))
                continue
            bs = bodies(kv, ms[0])
            if form == 'async' and any(True for g in bs for _ in g.calls('crux_core::capability::CapabilityContext::request_from_shell')):
                # the request function folded into the method: it is the function R17.a judges
                rep.ok('R17.h', key, 'KeyValue::%s is itself the request function (R17.a)' % mname)
                continue
            reqs = [(g, bb, t) for g in bs for bb, t in g.calls() if _is_req(t, fname)]
            folded = False
            if not reqs:
                # the request function spliced into this method's own task body: the request_from_shell call is the request
                reqs = [(g, bb, t) for g in bs for bb, t in g.calls(_RFS)]
                folded = True
            why = []
            if len(reqs) != 1:
                why.append('%d call(s) of the request function' % len(reqs))
            else:
                g, bb, t = reqs[0]
                if g.in_cycle(bb):
                    why.append('the request is made inside a loop')
                if any(r_ in g.reachable([0], removed_blocks=[bb]) for r_ in g.return_blocks()):
                    why.append('a return is reachable without asking the shell')
                if folded or _is_generic(t):
                    # the operation is built here and handed over whole: exactly one KeyValueOperation aggregate in the family, of this
                    # variant, its fields from the like-named parameters
                    ops_ = [(g3, s3) for g3 in bs for _, _, s3 in g3.stmts('assign') if s3['rv']['k'] == 'agg' and path_matches(s3['rv'].get('adt'), 'crux_kv::KeyValueOperation')]
                    if len(ops_) != 1 or ops_[0][1]['rv']['variant'] != variant:
                        why.append('builds %s, expected one KeyValueOperation::%s' % ([o_[1]['rv']['variant'] for o_ in ops_], variant))
                    else:
                        g3, s3 = ops_[0]
                        for fld, op in zip(s3['rv']['fields'], s3['rv']['ops']):
                            names, calls = param_names(g3, op, extra=INTO + [('core::clone::Clone::clone', 0)])
                            if names != {fields.get(fld)} or calls:
                                why.append('field %s comes from %s %s' % (fld, sorted(names), sorted(calls)))
                for i, want in enumerate(fields.values() if not (folded or _is_generic(t)) else []):
                    if 1 + i >= len(t['args']):
                        why.append('argument %d missing' % (1 + i))
                        continue
                    names, calls = param_names(g, t['args'][1 + i], extra=INTO + [('core::clone::Clone::clone', 0)])
                    if names != {want} or calls:
                        why.append('argument %d comes from %s %s, expected parameter `%s`' % (1 + i, sorted(names), sorted(calls), want))
                if form == 'async':
                    if not _awaited_req(g, {'l': 0, 'p': []}, fname):
                        why.append('the value returned is not (only) the awaited answer of the shell')
                else:
                    ups = [(g2, bb2, t2) for g2 in bs for bb2, t2 in g2.calls('crux_core::capability::CapabilityContext::update_app')]
                    if len(ups) != 1:
                        why.append('%d update_app call(s)' % len(ups))
                    else:
                        g2, bb2, t2 = ups[0]
                        if g2.in_cycle(bb2) or any(r_ in g2.reachable([0], removed_blocks=[bb2]) for r_ in g2.return_blocks()):
                            why.append('update_app is not made exactly once on every path')
                        evs = origins(g2, t2['args'][-1])
                        good = bool(evs)
                        for o in evs:
                            if o.kind != 'call' or 'call_once' not in last_seg(o.term.get('callee') or ''):
                                good = False
                                continue
                            rn, rc = param_names(g2, o.term['args'][0])
                            if len(rn) != 1 or rc or (rn & (set(fields.values()) | {'self', 'context'})):
                                good = False
                            tup = o.term['args'][1]
                            if 'l' not in tup or not _awaited_req(g2, {'l': tup['l'], 'p': list(tup['p']) + ['.0']}, fname, uname, bs):
                                good = False
                        if not good:
                            why.append('the event is not the caller\'s constructor applied to exactly the awaited answer of the shell')
            rep.expect('R17.h', not why, key, 'KeyValue::%s: one request on every path, like-named arguments, the awaited answer handed back' % mname,
                       'crux_kv capability method `%s`: %s — the app would get an answer the shell never gave, or the shell would not be asked'
                       % (mname, '; '.join(why)))
    # R17.e: every error the app sees was reported by the shell: crux_kv never constructs a KeyValueError itself
    rep.rule('R17.e', 'crux_kv constructs no KeyValueError of its own (errors are the shell\'s)', floor=1)
    made = []
    for f in kv.built:
        if f.j.get('exp') or '::testing' in f.npath or '::tests' in f.npath:
            continue
        for bb, i, s_ in f.stmts('assign'):
            if s_['rv']['k'] == 'agg' and path_matches(s_['rv'].get('adt'), 'crux_kv::error::KeyValueError'):
                made.append('%s at %s' % (s_['rv']['variant'], f.where(bb)))
    rep.expect('R17.e', not made, 'no-fabricated-error', 'no construction of KeyValueError in crux_kv',
               'crux_kv constructs a KeyValueError itself (%s): the app would see an error the shell never reported' % made)
    _ctl = ctx.crate('controls', 'crux_verif_controls')
    _fs = _ctl.find('c15::fabricate_kv_error') if _ctl else []
    rep.control('R17.e fires on a constructed KeyValueError', bool(_fs) and any(
        s_['rv']['k'] == 'agg' and path_matches(s_['rv'].get('adt'), 'crux_kv::error::KeyValueError') for _, _, s_ in _fs[0].stmts('assign')))
    # R17.c
    for f in kv.built:
        if f.name != 'from' or not path_matches(f.assoc.get('trait'), 'core::convert::From') or 'value' not in f.npath:
            continue
        argt = norm(f.locals[1])
        rett = norm(f.locals[0])
        if {argt, rett} != {'crux_kv::value::Value', 'core::option::Option'}:
            continue
        calls = [norm(t.get('callee') or '?') for bb, t in f.calls()]
        aggs = [s for bb, i, s in f.stmts('assign') if s['rv']['k'] == 'agg' and s['d']['l'] == 0]
        variants = sorted(a['rv']['variant'] for a in aggs)
        payload_moved = False
        for a in aggs:
            if a['rv']['ops']:
                src = origins(f, a['rv']['ops'][0])
                payload_moved = bool(src) and all(o.kind == 'arg' and o.n == 1 and o.suffix[-1:] == ['.0'] for o in src)
        want = ['Bytes', 'None'] if rett == 'crux_kv::value::Value' else ['None', 'Some']
        # None maps to None: the aggregate without payload is built on the None arm
        none_ok = False
        for sb, st in f.terms('switch'):
            for o in origins(f, st['a']):
                if o.kind == 'rvalue' and o.stmt['rv']['k'] == 'discr' and o.stmt['rv']['a']['l'] == 1:
                    arg_adt_none_idx = 0
                    tgt = None
                    for v, b in st['arms']:
                        if v == arg_adt_none_idx:
                            tgt = b
                    if tgt is None:
                        tgt = st['otherwise']
                    r = f.reachable([tgt], removed_blocks=[sb])
                    others = [b for b in f.succ(sb) if b != tgt]
                    ro = f.reachable(others, removed_blocks=[sb])
                    for bb, i, s in f.stmts('assign'):
                        if s['rv']['k'] == 'agg' and s['d']['l'] == 0 and s['rv']['variant'] == 'None' and bb in r and bb not in ro:
                            none_ok = True
        key = 'value|%s->%s' % (argt.rsplit('::', 1)[-1], rett.rsplit('::', 1)[-1])
        if calls == ['core::option::Option::map_or'] and rett == 'crux_kv::value::Value':
            # `value.map_or(Value::None, Value::Bytes)`: the same re-tagging by the combinator — default = the None variant, function = the
            # constructor of the payload variant, applied to the parameter itself
            t_ = next(t for bb, t in f.calls())
            recv = origins(f, t_['args'][0])
            dflt = origins(f, t_['args'][1])
            fn_ = t_['args'][2]
            same = bool(recv) and all(o.kind == 'arg' and o.n == 1 and not o.suffix for o in recv) and \
                bool(dflt) and all(o.kind == 'agg' and o.stmt['rv'].get('variant') == 'None' and path_matches(o.stmt['rv'].get('adt'), 'crux_kv::value::Value') for o in dflt) and \
                fn_.get('o') == 'const' and norm(fn_.get('fn') or '') == 'crux_kv::value::Value::Bytes' and \
                all(o.kind == 'call' and o.term is t_ for o in origins(f, {'l': 0, 'p': []}))
            rep.expect('R17.c', same, key, 'None <-> None, payload moved (map_or(Value::None, Value::Bytes))',
                       'conversion %s -> %s is no longer a pure re-tagging (calls %s)' % (argt, rett, calls))
            continue
        rep.expect('R17.c', not calls and variants == want and payload_moved and none_ok, key,
                   'None <-> None, payload moved, no call', 'conversion %s -> %s is no longer a pure re-tagging (calls %s, builds %s)' % (argt, rett, calls, variants))
    # R17.d: "exactly one operation" also rests on the command primitives underneath: a request / notification made through the command API
    # puts its effect on the effect channel exactly once (shared with C01 R01.f)
    from rules.props import prims as _prims
    _core = ctx.crate('default', 'crux_core')
    rep.rule('R17.d', 'a command-API request, stream or notification puts its effect on the effect channel exactly once (at the call / at the first poll)', floor=10)
    if _core is None:
        rep.missing('R17.d', 'crux_core facts')
    else:
        _prims.check_request_typestate(rep, 'R17.d', _core)
    # R17.f: a value or a page of keys of ANY size is delivered over the bridge as it is under the typed core: the codec has one options
    # value with no byte limit (bincode applies a limit when decoding only, so a large response would be rejected after its one-shot was
    # consumed) and each entry point returns exactly the buffer it serialised into (shared with C10 R10.d / R10.g)
    from rules.props import c10 as _c10
    rep.rule('R17.f', 'the bridge codec has no byte limit and one options value for both directions; entry points return the buffer they serialised into', floor=8)
    if _core is None:
        rep.missing('R17.f', 'crux_core facts')
    else:
        _c10.check_codec(ctx, rep, rid='R17.f')
        _c10.check_output_buffers(rep, 'R17.f', _core)
    # R17.g: what crosses the bridge for a key-value operation is the derived serde encoding of its types, nothing conditional: every serde
    # attribute on the crux_kv wire types is in the neutrality table of C10 (no skip_serializing_if / default, which drop a field for
    # some values only — an empty value — and break the serialised path alone) (shared with C10 R10.a-c, restricted to crux_kv)
    rep.rule('R17.g', 'the crux_kv wire types carry only wire-neutral serde attributes and derive both directions', floor=5)
    if ctx.crate('controls', 'crux_verif_controls') is None:
        rep.missing('R17.g', 'probe crate facts (controls configuration)')
    else:
        _c10.check_wire_types(ctx, _c10.RuleProxy(rep, 'R17.g', lambda key: 'crux_kv::' in key))
    rep.assume('a response of another kind than the operation\'s is a shell protocol error (unwrap_K panics, documented)')
