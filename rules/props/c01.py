"""C01 — a core call runs to quiescence and hands over every effect exactly once (structural clauses)."""
import re

from rules.facts import norm, path_matches, origins, flows_to, call_matches, last_seg, keypath

CONFIGS = {'quick': ['default', 'controls'], 'thorough': ['allfeat']}
TECHNIQUE = ('static analysis: dominance / must-pass-through rules on Core::process and the two executor loops, provenance of '
             'forwarded outputs, a typestate rule on the request futures (send exactly once at first poll), and a linear-resource rule over drop-elaborated MIR with a frozen exception table')
EXPLANATION = (
    'R01.a Core::process runs the executor before looking at events, re-runs it after every update/spawn, returns only when the '
    'event channel is empty and returns exactly the collected drain of the effect channel; R01.b every entry point (process_event, '
    'resolve, both bridge arms) settles through Core::process and the command returned by update flows into the spawner; R01.c in '
    'drop-elaborated MIR of crux_core no effect, event, request, command or response value is dropped on a normal path except in '
    'the tabled situations (receiver gone, rejected resolution, serialised batch); R01.d every match on CommandOutput forwards the '
    'Effect payload to the effect channel and the Event payload to the event channel; R01.e both executor loops read both queues '
    'and can only exit after a pass that found nothing; R01.f the effect of a command-API request, stream or notification is put on the '
    'effect channel exactly once — at the call for a notification, at the first poll (typestate ReadyToSend -> Sent) for the others — and the '
    'future keeps the receiver it was created with; R01.g every future crux provides keeps the current poll\'s waker when it stays Pending '
    '(a task that loses it is evicted and what it would still have requested is lost); R01.h a command reports done / ends its stream only when '
    'its effect and event queues are empty. Does not decide that the fixpoint is reached for every program. R01.i every task that leaves a command publishes `finished` and wakes its join handles (shared with C07). R01.k a combinator returns a fresh command, never an operand (shared with C06 R06.g; the deliberate left-operand hosting of `and`, finding C06-F2, is not repeated here).')


# ---------------------------------------------------------------------------------------------------
# R01.c linear resources

BASE_PAYLOAD = [
    r'Effect', r'Event', r'Ef', r'Ev', r'Eff', r'NewEv', r'NewEffect', r'NewEvent',
    r'<A as crux_core::App>::(Effect|Event)',
    r'crux_core::command::stream::CommandOutput<.*>',
    r'crux_core::core::request::Request<.*>',
    r'crux_core::command::Command<.*>',
    r'crux_core::bridge::Request<.*>',
    r'<Op as crux_core::capability::Operation>::Output',
    r'<<A as crux_core::App>::Effect as crux_core::core::effect::Effect>::Ffi',
]
WRAPPERS = ['core::option::Option', 'core::result::Result', 'crossbeam_channel::err::SendError',
            'crossbeam_channel::err::TrySendError', 'futures_channel::mpsc::TrySendError', 'alloc::vec::Vec',
            'core::task::poll::Poll', 'alloc::boxed::Box', 'alloc::vec::into_iter::IntoIter']
_BASE_RX = re.compile(r'^(%s)$' % '|'.join(BASE_PAYLOAD))


def split_args(s):
    out, depth, cur = [], 0, ''
    for ch in s:
        if ch in '<([':
            depth += 1
        elif ch in '>)]':
            depth -= 1
        if ch == ',' and depth == 0:
            out.append(cur.strip())
            cur = ''
        else:
            cur += ch
    if cur.strip():
        out.append(cur.strip())
    return out


def is_payload(ty, extra_base=()):
    ty = ty.strip()
    if _BASE_RX.match(ty) or ty in extra_base:
        return True
    for w in WRAPPERS:
        if ty.startswith(w + '<') and ty.endswith('>'):
            return any(is_payload(a, extra_base) for a in split_args(ty[len(w) + 1:-1]))
    if ty.startswith('(') and ty.endswith(')') and ',' in ty:
        return any(is_payload(a, extra_base) for a in split_args(ty[1:-1]))
    return False


# (function key path, dropped type) -> (max count, reason)
DROP_TABLE = {
    ('crux_core::bridge::BridgeWithSerializer::process',
     'alloc::vec::Vec<crux_core::bridge::Request<<<A as crux_core::App>::Effect as crux_core::core::effect::Effect>::Ffi>>'):
        (2, 'the batch of registered requests is dropped after it has been serialised by reference (both exits)'),
    ('crux_core::capability::shell_request::<impl crux_core::capability::CapabilityContext<Op, Ev>>::request_from_shell::{closure#0}',
     'core::option::Option<<Op as crux_core::capability::Operation>::Output>'):
        (1, 'previous content of the result slot, overwritten by the resolution (always None for a one-shot request)'),
    ('crux_core::capability::shell_request::<impl crux_core::capability::CapabilityContext<Op, Ev>>::request_from_shell::{closure#0}',
     '<Op as crux_core::capability::Operation>::Output'):
        (1, 'the awaiting future is gone (Weak::upgrade failed): a late response is discarded'),
    ('crux_core::capability::shell_stream::<impl crux_core::capability::CapabilityContext<Op, Ev>>::stream_from_shell::{closure#0}',
     '<Op as crux_core::capability::Operation>::Output'):
        (1, 'the consuming stream is gone (Weak::upgrade failed): the item is discarded and Err returned'),
    ('crux_core::capability::CommandSpawner::spawn::{closure#0}', 'crux_core::command::Command<Effect, Event>'):
        (1, 'the hosted command is dropped after its stream ended (end of the forwarding task)'),
    ('<crux_core::command::context::ShellStream<T> as futures_core::stream::Stream>::poll_next',
     'core::task::poll::Poll<core::option::Option<T>>'):
        (1, 'poll result asserted to be Pending before the request was sent (nothing can have been delivered yet)'),
}
# the error of a failed channel send carries the value that could not be sent; where it may be let go, by the function the code belongs to
# (whatever closure, match arm or `map_err` it sits in): (function, payload) -> (max count, reason)
FAILED_SEND = {
    ('crux_core::command::context::CommandContext::request_from_shell', '<Op as crux_core::capability::Operation>::Output'):
        (1, 'the awaiting task was cancelled (receiver gone): a late response is discarded, documented `let _ =`'),
    ('crux_core::command::context::CommandContext::stream_from_shell', '<Op as crux_core::capability::Operation>::Output'):
        (1, 'the stream consumer is gone: the item is discarded and the resolve closure reports Err'),
    ('<crux_core::command::stream::CommandSink<Effect, Event> as futures_sink::Sink<crux_core::command::stream::CommandOutput<Effect, Event>>>::start_send', 'Effect'):
        (1, 'the host\'s effect receiver is gone: CannotSendEffect is returned'),
    ('<crux_core::command::stream::CommandSink<Effect, Event> as futures_sink::Sink<crux_core::command::stream::CommandOutput<Effect, Event>>>::start_send', 'Event'):
        (1, 'the host\'s event receiver is gone: CannotSendEvent is returned'),
}
_SEND_ERR = re.compile(r'^(?:core::result::Result<\(\), )?(?:futures_channel::mpsc::TrySendError|crossbeam_channel::err::SendError|crossbeam_channel::err::TrySendError)<(.*?)>+$')
# value types carried by the generic shell futures
EXTRA_BASE = {'T'}


def payload_drops(crate):
    """non-cleanup drops (Drop terminators and mem::drop/forget calls) of payload values in drop-elaborated MIR"""
    out = []
    for f in crate.elab:
        if f.j.get('exp'):
            continue
        if f.npath.startswith('crux_core::testing') or '::testing::' in f.npath:
            continue
        extra = EXTRA_BASE if ('shell_request' in f.npath or 'shell_stream' in f.npath or 'command::context' in f.npath) else ()
        for bb, t in f.terms('drop'):
            ty = t['d']['t']
            if is_payload(ty, extra):
                out.append((f, bb, ty, 'drop'))
        for bb, t in f.calls('core::mem::drop', 'core::mem::forget'):
            ta = (t.get('targs') or ['?'])[0]
            if is_payload(ta, extra):
                out.append((f, bb, ta, last_seg(t['callee'])))
    return out


def _noidx(k):
    return re.sub(r'\{closure#\d+\}', '{closure}', k)


def _batch_serialised(f, ty):
    """the batch of registered bridge requests may be dropped by the function that serialised it by reference"""
    return ty.startswith('alloc::vec::Vec<crux_core::bridge::Request<') and any(True for _ in f.calls('erased_serde::ser::Serialize::erased_serialize'))


def _iterator_exhausted(f, bb, ty):
    """an owning iterator over payload values may be dropped once next() has returned None: the drop is reachable only through the
    None edge of a next() on that same iterator (a `break` or `?` inside the loop would make it reachable otherwise)"""
    if not re.match(r'^(alloc::vec::into_iter::IntoIter|core::iter::adapters::\w+::\w+|alloc::vec::drain::Drain)<', ty):
        return False
    t = f.blocks[bb]['t']
    place = t.get('d') if t['k'] == 'drop' else None
    if place is None or place.get('p'):
        return False
    loc = place['l']
    none_edges = []
    for nb, nt in f.calls('core::iter::traits::iterator::Iterator::next'):
        def borrows_loc(op):
            # origins() looks through borrows and reborrows: the receiver denotes the dropped iterator when both have the same origins
            mine = set((o.kind, getattr(o, 'bb', None), tuple(o.suffix or [])) for o in origins(f, {'l': loc, 'p': []}))
            theirs = set((o.kind, getattr(o, 'bb', None), tuple(o.suffix or [])) for o in origins(f, op))
            return bool(mine) and mine == theirs and all(k_ == 'call' for k_, _, _ in mine)
        if borrows_loc(nt['args'][0]):
            none_edges += none_edges_of(f, nb, nt)
    return bool(none_edges) and bb not in f.reachable([0], removed_edges=none_edges)


def _known_none(f, bb, ty):
    """an Option local dropped where it is known to be None (`if received.is_none() { ..; return Pending }`): the drop is reachable only
    through the true edge of is_none() (false edge of is_some()) on that very local, or the None arm of a match on it"""
    if not ty.startswith('core::option::Option<'):
        return False
    t = f.blocks[bb]['t']
    place = t.get('d') if t['k'] == 'drop' else None
    if place is None or place.get('p'):
        return False
    loc = place['l']
    edges = []
    for cb, ct in f.calls('core::option::Option::is_none', 'core::option::Option::is_some'):
        src = origins(f, ct['args'][0])
        if not src or not all(o.kind == 'rvalue' and o.stmt['rv']['k'] == 'ref' and o.stmt['rv']['a'].get('l') == loc and not o.stmt['rv']['a'].get('p') for o in src):
            # origins() looks through the borrow: compare with the origins of the local itself
            mine = set((o.kind, getattr(o, 'bb', None), tuple(o.suffix or [])) for o in origins(f, {'l': loc, 'p': []}))
            theirs = set((o.kind, getattr(o, 'bb', None), tuple(o.suffix or [])) for o in src)
            if not mine or mine != theirs:
                continue
        res = ct['d']['l']
        for sb, st in f.terms('switch'):
            if any(o.kind == 'call' and o.bb == cb and not o.suffix for o in origins(f, st['a'])):
                zero = [(sb, b2) for v, b2 in st['arms'] if v == 0]
                edges += [(sb, st['otherwise'])] if last_seg(ct['callee']) == 'is_none' else zero
    for sb, st in f.terms('switch'):
        for o in origins(f, st['a']):
            if o.kind == 'rvalue' and o.stmt['rv']['k'] == 'discr' and o.stmt['rv']['a'].get('l') == loc and not o.stmt['rv']['a'].get('p'):
                edges += [(sb, b2) for v, b2 in st['arms'] if v == 0]
    return bool(edges) and bb not in f.reachable([0], removed_edges=edges)


def check_linear(rep, crate, cfg, rid='R01.c', only=None):
    counts = {}
    table = {(_noidx(k[0]), k[1]): v for k, v in DROP_TABLE.items()}
    table.update({(k[0], 'failed send of ' + k[1]): v for k, v in FAILED_SEND.items()})
    missing = set(f.path for f in crate.built) - set(f.path for f in crate.elab)
    if missing or crate.j.get('elab_stolen'):
        rep.bad(rid, 'elab-incomplete@' + cfg, 'drop-elaborated MIR is missing for %d bodies (%s ...): the linear rule would be blind there'
                % (len(missing), sorted(missing)[:3]))
    for f, bb, ty, how in payload_drops(crate):
        if only is not None and not only(f, ty):
            continue
        if how == 'drop' and _known_none(f, bb, ty):
            rep.ok(rid, '%s|drops None %s@%s' % (_noidx(f.kpath), ty, cfg), 'the Option is dropped only where it was found to be None')
            continue
        if how == 'drop' and _iterator_exhausted(f, bb, ty):
            rep.ok(rid, '%s|drops exhausted %s@%s' % (_noidx(f.kpath), ty, cfg), 'the iterator is dropped only after next() returned None')
            continue
        key = (_noidx(f.kpath), ty)
        m_ = _SEND_ERR.match(ty)
        if m_ and (crate.host_root(f), m_.group(1)) in FAILED_SEND:
            key = (crate.host_root(f), 'failed send of ' + m_.group(1))
        if key not in table:
            # the body was lifted out of the tabled function (a method of a private struct, an async helper): the row of the function it belongs to
            hr_ = crate.host_root(f)
            cands_ = [k2 for k2 in table if k2[1] == ty and (k2[0] == hr_ or k2[0].startswith(hr_ + '::')) and hr_ != _noidx(f.kpath)]
            if len(cands_) == 1:
                key = cands_[0]
        if f.blocks[bb].get('inl') and key not in table and re.search(r'(^|[<, (])[A-Z]\w*($|[>, )])', ty):
            # a drop inside a spliced generic helper names the helper's type parameters: match the rows of this function whose type has
            # the same shape with a concrete type in place of each parameter (`Option<T>` ~ `Option<<Op as Operation>::Output>`)
            shape = re.escape(ty)
            shape = re.sub(r'(?<![\w:])([A-Z]\w*)(?![\w:])', '.+', shape)
            rows = [k2 for k2 in table if k2[0] == key[0] and re.match('^' + shape + '$', k2[1])]
            if len(rows) > 1 and re.match(r'^[A-Z]\w*$', ty):
                # a bare type parameter stands for a plain payload value, not for a wrapped one
                rows = [k2 for k2 in rows if not re.match(r'^(core::option::Option|core::result::Result|alloc::vec::Vec)<', k2[1])]
            if len(rows) == 1:
                key = rows[0]
        counts.setdefault(key, []).append((f, bb, how))
    for key, sites in sorted(counts.items()):
        fk, ty = key
        row = table.get(key)
        if row is None and _batch_serialised(sites[0][0], ty):
            row = (2, 'the batch of registered requests is dropped after it has been serialised by reference (both exits)')
        k = '%s|drops %s' % (fk, ty)
        if row is None:
            f, bb, how = sites[0]
            rep.bad(rid, k, 'a %s value is dropped (%s) on a normal path at %s and this drop is not in the exception table'
                    % (ty, how, f.where(bb)), site=k + '@' + cfg)
        elif len(sites) > row[0]:
            f, bb, how = sites[-1]
            rep.bad(rid, k + '|count', '%d drops of %s in %s, the table allows %d (%s)' % (len(sites), ty, fk, row[0], row[1]),
                    site=k + '@' + cfg)
        else:
            rep.ok(rid, k + '@' + cfg, 'tabled: ' + row[1])
    return counts


# ---------------------------------------------------------------------------------------------------

def single(rep, rid, crate, pattern, what=None, **kw):
    fs = crate.find(pattern, **kw)
    fs = [f for f in fs if f.kind != 'Closure']
    if len(fs) != 1:
        rep.missing(rid, what or pattern)
        return None
    return fs[0]


def field_of_receiver(fn, operand, through_clone=False):
    """names of the struct fields (or captured variables) the operand's origins project"""
    out = set()
    for o in origins(fn, operand, through_clone=through_clone):
        for tok in getattr(o, 'suffix', []) or []:
            if tok.startswith('.'):
                out.add(tok[1:].lstrip('^'))
    return out


def none_edges_of(fn, call_bb, call_t):
    """edges taken when the Option returned by the call is None"""
    res = call_t['d']['l']
    edges = []
    for bb, t in fn.terms('switch'):
        for o in origins(fn, t['a']):
            if o.kind == 'rvalue' and o.stmt['rv']['k'] == 'discr' and o.stmt['rv']['a']['l'] == res and not o.stmt['rv']['a']['p']:
                tgt = None
                for v, b in t['arms']:
                    if v == 0:
                        tgt = b
                if tgt is None:
                    tgt = t['otherwise']
                edges.append((bb, tgt))
    return edges


def check_process(rep, core):
    f = single(rep, 'R01.a', core, 'crux_core::core::Core::process')
    if f is None:
        return
    from rules.common import Summaries
    sm = Summaries([core])
    # helper-aware sites: a local helper that always runs the executor counts as run_all; one that may call update/spawn counts as such
    run_all = sm.sites(f, ['QueuingExecutor::run_all'], 'must')
    updates = sm.sites(f, ['crux_core::App::update'], 'may')
    spawns = sm.sites(f, ['CommandSpawner::spawn'], 'may')
    receives = [(bb, t) for bb, t in f.calls('capability::channel::Receiver::receive', 'capability::channel::Receiver::try_receive')]
    drains = [(bb, t) for bb, t in f.calls('capability::channel::Receiver::drain')]
    rets = f.return_blocks()
    if not (run_all and updates and spawns and len(receives) == 1 and len(drains) == 1 and rets):
        rep.bad('R01.a', 'process-shape', 'Core::process: expected run_all, update, spawn, one receive and one drain; found %d/%d/%d/%d/%d'
                % (len(run_all), len(updates), len(spawns), len(receives), len(drains)))
        return
    rb, rt = receives[0]
    db, dt = drains[0]
    rep.expect('R01.a', any(f.dominates(b, rb) and b != rb for b in run_all), 'run-before-look',
               'run_all dominates the first look at the event channel',
               'Core::process looks at the event channel before running the executor')
    for what, sites in (('update', updates), ('spawn', spawns)):
        rep.expect('R01.a', bool(sites) and all(f.all_paths_pass(b, rets, via_blocks=run_all) for b in sites), 'rerun-after-%s' % what,
                   'every path from %s to the return passes a later run_all' % what,
                   'Core::process can return after %s without running the executor again' % what, site='process#after-' + what)
    ev_field = field_of_receiver(f, rt['args'][0])
    ev_ty = rt['args'][0]['t']
    rep.expect('R01.a', 'Event' in ev_ty and 'Effect' not in ev_ty, 'receive-on-events',
               'the loop reads the event channel (%s)' % ','.join(sorted(ev_field)),
               'the loop in Core::process no longer reads the event channel (receiver type %s)' % ev_ty)
    ne = none_edges_of(f, rb, rt)
    rep.expect('R01.a', bool(ne) and all(r not in f.reachable([0], removed_edges=ne) for r in rets), 'return-only-when-empty',
               'the return is reachable only through the None edge of the event receive',
               'Core::process can return while events are still queued')
    # (v) quiescence: no work is run after the last look at the event channel — every path from a run of the executor to the return
    #     passes the None edge of the receive (events emitted by that run are seen before returning)
    rep.expect('R01.a', bool(ne) and all(f.all_paths_pass(b, rets, via_edges=ne) for b in run_all), 'look-after-every-run',
               'every path from a run_all to the return passes the None edge of the event receive',
               'Core::process can run the executor and return without looking at the event channel again: events emitted by that run '
               'stay queued (unapplied) until some later, unrelated call')
    ef_ty = dt['args'][0]['t']
    after_drain = f.reachable_after(db)
    rep.expect('R01.a', 'Effect' in ef_ty and not (set(run_all + updates + spawns) & after_drain) and all(r in after_drain for r in rets),
               'drain-last', 'the effect channel is drained after the last run and nothing runs afterwards',
               'Core::process drains %s and then still runs work, or drains the wrong channel' % ef_ty)
    ret_src = origins(f, {'l': 0, 'p': []})
    direct = bool(ret_src) and all(o.kind == 'call' and call_matches(o.term, ['core::iter::traits::iterator::Iterator::collect']) and
                                   all(x.kind == 'call' and x.bb == db for x in origins(f, o.term['args'][0])) for o in ret_src)
    if not direct:
        direct = loop_copy_of(f, ret_src, db)
    rep.expect('R01.a', direct, 'collect-of-drain', 'the returned Vec is the collect of the drain iterator with no adaptor',
               'Core::process no longer returns the plain collect of the drained effects (an adaptor or another source is in between)')


def check_entry_points(rep, core):
    pe = single(rep, 'R01.b', core, 'crux_core::core::Core::process_event')
    if pe is not None:
        from rules.common import Summaries
        sm = Summaries([core])
        ups = [(bb, t) for bb, t in pe.calls('crux_core::App::update')]
        sps = [(bb, t) for bb, t in pe.calls('CommandSpawner::spawn')]
        prs = [(bb, t) for bb, t in pe.calls('crux_core::core::Core::process')]
        ok = len(ups) == 1 and len(sps) == 1 and len(prs) == 1
        if not ok and len(prs) == 1:
            # update + spawn extracted into a helper: the helper must spawn the command update returned, and precede process()
            hs = [b for b in sm.sites(pe, ['CommandSpawner::spawn'], 'must') if b in sm.sites(pe, ['crux_core::App::update'], 'must')]
            rets = pe.return_blocks()
            helper_ok = False
            for hb in hs:
                callee = pe.blocks[hb]['t'].get('resolved') or pe.blocks[hb]['t'].get('callee')
                for g in sm.cg.by_path.get(norm(callee), []):
                    gu = [(bb, t) for bb, t in g.calls('crux_core::App::update')]
                    gs = [(bb, t) for bb, t in g.calls('CommandSpawner::spawn')]
                    if len(gu) == 1 and len(gs) == 1 and all(o.kind == 'call' and o.bb == gu[0][0] for o in origins(g, gs[0][1]['args'][1])):
                        helper_ok = True
            ok2 = helper_ok and all(pe.dominates(hb, prs[0][0]) for hb in hs) and all(r not in pe.reachable([0], removed_blocks=[prs[0][0]]) for r in rets) \
                and all(o.kind == 'call' and o.bb == prs[0][0] for o in origins(pe, {'l': 0, 'p': []}))
            rep.expect('R01.b', ok2, 'process_event', 'helper(update -> spawn(command)) -> process(), whose result is returned',
                       'Core::process_event no longer spawns the command returned by update and returns process()')
        elif ok:
            flows = all(o.kind == 'call' and o.bb == ups[0][0] for o in origins(pe, sps[0][1]['args'][1])) and \
                bool(origins(pe, sps[0][1]['args'][1]))
            ordered = pe.dominates(ups[0][0], sps[0][0]) and pe.dominates(sps[0][0], prs[0][0])
            rets = pe.return_blocks()
            settles = all(r not in pe.reachable([0], removed_blocks=[prs[0][0]]) for r in rets)
            ret_is_process = all(o.kind == 'call' and o.bb == prs[0][0] for o in origins(pe, {'l': 0, 'p': []}))
            ok = flows and ordered and settles and ret_is_process
            rep.expect('R01.b', ok, 'process_event', 'update -> spawn(command) -> process(), whose result is returned',
                       'Core::process_event no longer spawns the command returned by update and returns process()')
        else:
            rep.bad('R01.b', 'process_event', 'Core::process_event no longer spawns the command returned by update and returns process()')
    rs = single(rep, 'R01.b', core, 'crux_core::core::Core::resolve')
    if rs is not None:
        prs = [bb for bb, t in rs.calls('crux_core::core::Core::process')]
        oks = [bb for bb, i, s in rs.stmts('assign') if s['rv']['k'] == 'agg' and s['rv'].get('adt') == 'core::result::Result'
               and s['rv']['variant'] == 'Ok']
        ok = len(prs) == 1 and len(oks) >= 1 and all(rs.dominates(prs[0], b) for b in oks)
        if not ok and not prs and not oks:
            # `resolved.map(|()| self.process())`: the Ok the function returns is built by Result::map from the closure's result, and the
            # closure is the settle
            ret = origins(rs, {'l': 0, 'p': []})
            maps = [o for o in ret if o.kind == 'call' and call_matches(o.term, ['core::result::Result::map'])]
            if ret and len(maps) == len(ret):
                ok = True
                for o in maps:
                    clos = [core.by_exact(x.stmt['rv']['def']) for x in origins(rs, o.term['args'][1]) if x.kind == 'agg' and x.stmt['rv'].get('ak') == 'closure']
                    if len(clos) != 1 or clos[0] is None:
                        ok = False
                        continue
                    g_ = clos[0]
                    pc = [bb for bb, t in g_.calls('crux_core::core::Core::process')]
                    ok = ok and len(pc) == 1 and not any(r_ in g_.reachable([0], removed_blocks=pc) for r_ in g_.return_blocks()) and \
                        all(y.kind == 'call' and y.bb == pc[0] for y in origins(g_, {'l': 0, 'p': []}))
        rep.expect('R01.b', ok, 'resolve', 'the Ok return of Core::resolve is dominated by process()',
                   'Core::resolve can return Ok without settling through process()')
    from rules.props import c09
    ok, detail = c09.bridge_pipeline(core)
    rep.expect('R01.b', ok, 'bridge-process', 'the serialised requests are the registered effects returned by Core::process_event / Core::process (%s)' % detail,
               'the bridge can serialise requests that are not the effects of a run of the core through process_event / process (%s)' % detail)


def loop_copy_of(f, ret_src, source_bb):
    """the loop form of `source.collect()`: the returned value is one fresh Vec, and a loop over the iterator made at source_bb pushes
    every item into it, untouched, exactly once per iteration; nothing else changes the Vec"""
    if not ret_src or not all(o.kind == 'call' and call_matches(o.term, ['alloc::vec::Vec::new', 'alloc::vec::Vec::with_capacity']) for o in ret_src):
        return False
    vbs = set(o.bb for o in ret_src)
    if len(vbs) != 1:
        return False
    vb = vbs.pop()
    touching = [(bb, t) for bb, t in f.calls() if norm(t.get('callee') or '').startswith('alloc::vec::Vec::') and t.get('args') and bb != vb and
                any(o.kind == 'call' and o.bb == vb for o in origins(f, t['args'][0]))]
    pushes = [(bb, t) for bb, t in touching if last_seg(t['callee']) == 'push']
    MUT = {'push', 'insert', 'remove', 'pop', 'truncate', 'clear', 'retain', 'retain_mut', 'dedup', 'dedup_by', 'dedup_by_key', 'drain', 'swap_remove', 'extend',
           'extend_from_slice', 'append', 'split_off', 'resize', 'sort', 'sort_by', 'sort_by_key', 'sort_unstable', 'reverse', 'swap', 'rotate_left', 'rotate_right'}
    others = [last_seg(t['callee']) for bb, t in touching if last_seg(t['callee']) in MUT and last_seg(t['callee']) != 'push']
    if len(pushes) != 1 or others:
        return False
    pb, pt = pushes[0]
    items = origins(f, pt['args'][1])
    if not items or not all(o.kind == 'call' and last_seg(o.term.get('callee') or '') == 'next' and o.suffix == ['as Some', '.0'] for o in items) or \
            len(set(o.bb for o in items)) != 1:
        return False
    nb = items[0].bb
    nt = f.blocks[nb]['t']
    it_src = origins(f, nt['args'][0], extra_identity=[('core::iter::traits::collect::IntoIterator::into_iter', 0)])
    if not it_src or not all(o.kind == 'call' and o.bb == source_bb for o in it_src):
        return False
    ne = none_edges_of(f, nb, nt)
    if not ne:
        return False
    some_targets = [s2 for s2 in f.succ(ne[0][0]) if (ne[0][0], s2) not in ne]
    return bool(some_targets) and f.in_cycle(nb) and not f.in_cycle(vb) and \
        all(nb not in f.reachable([st_], removed_blocks=[pb]) and not (set(f.return_blocks()) & f.reachable([st_], removed_blocks=[pb])) for st_ in some_targets)


def payload_sinks(fn, scrut_local, variant):
    """call sinks of the payload `(scrut as Variant).0`"""
    res = []
    for bb, idx, s in fn.stmts('assign'):
        rv = s['rv']
        if rv['k'] == 'use' and rv['a'].get('l') == scrut_local and rv['a'].get('p') == ['as ' + variant, '.0']:
            res += flows_to(fn, s['d']['l'], whole_only=True)
    return res


def command_output_matches(fn):
    out = []
    for bb, idx, s in fn.stmts('assign'):
        rv = s['rv']
        if rv['k'] == 'discr' and path_matches(rv['a'].get('adt'), 'crux_core::command::stream::CommandOutput') and not rv['a']['p']:
            out.append(rv['a']['l'])
    return out


SEND_CALLS = ['crux_core::capability::channel::Sender::send', 'crossbeam_channel::channel::Sender::send']


def _field_item_is(core, f, fields, variant):
    """the fields named are fields of the function's own type whose declared type is a sender of `variant` items (Sender<Effect>)"""
    root = next((g for g in core.built if g.path == (f.root or f.path)), f)
    a = core.adts.get(norm(root.assoc.get('self_adt') or '')) if root.assoc else None
    if a is None or not fields:
        return False
    tys = {fl['name']: fl['ty'] for v in a['variants'] for fl in v['fields']}
    return all(x in tys and re.search(r'Sender<' + re.escape(variant) + r'>', tys[x]) for x in fields)


def check_forwarders(rep, core):
    n = 0
    for f in core.built:
        if f.j.get('exp') or '::testing' in f.npath:
            continue
        for scrut in command_output_matches(f):
            # a match that lives in a helper spliced into several functions stands for one site in each of them
            root_ = f.root or f.path
            n += max(1, len(set(h.root or h.path for h in core.built if root_ in (h.j.get('inlined') or []) and (h.root or h.path) != root_)))
            for variant, chans, other in (('Effect', ('shell_channel', 'effects'), ('app_channel', 'events')),
                                          ('Event', ('app_channel', 'events'), ('shell_channel', 'effects'))):
                sinks = payload_sinks(f, scrut, variant)
                key = '%s|%s-arm' % (f.kpath, variant)
                verdict = None
                for s in sinks:
                    if s[0] == 'callarg':
                        _, bb, t, k, via = s
                        if call_matches(t, SEND_CALLS) and k == 1:
                            fields = field_of_receiver(f, t['args'][0])
                            if any(any(c in x for c in chans) for x in fields) and not any(any(c in x for c in other) for x in fields):
                                verdict = ('ok', 'payload is sent on %s' % ','.join(sorted(fields)))
                            elif not any(any(c in x for c in other) for x in fields) and (
                                    variant in str(t['args'][0].get('t') or '') or _field_item_is(core, f, fields, variant)):
                                # whatever the field is called: the sender's item type is this variant's payload type (Sender<Effect> for
                                # the Effect arm), which the two channels of a command never share
                                verdict = ('ok', 'payload is sent on the %s channel (%s)' % (variant, ','.join(sorted(fields)) or 'by type'))
                            else:
                                verdict = ('bad', 'payload is sent on %s' % ','.join(sorted(fields)))
                        elif t.get('callee') is None or call_matches(t, ['core::ops::function::FnMut::call_mut', 'core::ops::function::Fn::call',
                                                                        'core::ops::function::FnOnce::call_once']):
                            # mapped by the user's function: the result must be re-wrapped in the same variant
                            res = flows_to(f, t['d']['l'], whole_only=True)
                            wrapped = [x for x in res if x[0] == 'return']
                            aggs = [st for b2, i2, st in f.stmts('assign') if st['rv']['k'] == 'agg' and
                                    path_matches(st['rv'].get('adt'), 'crux_core::command::stream::CommandOutput')]
                            same = any(a['rv']['variant'] == variant and any(
                                o.kind == 'call' and o.bb == bb for o in origins(f, a['rv']['ops'][0])) for a in aggs)
                            verdict = ('ok', 'mapped once by the user function and re-wrapped as %s' % variant) if same else \
                                ('bad', 'mapped value is not re-wrapped as %s' % variant)
                        else:
                            verdict = verdict or ('bad', 'payload passed to %s' % norm(t.get('callee') or '?'))
                if verdict is None:
                    # re-wrapped untouched?
                    aggs = [st for b2, i2, st in f.stmts('assign') if st['rv']['k'] == 'agg' and
                            path_matches(st['rv'].get('adt'), 'crux_core::command::stream::CommandOutput') and st['rv']['variant'] == variant]
                    for a in aggs:
                        srcs = origins(f, a['rv']['ops'][0])
                        if srcs and all(o.kind in ('arg', 'call', 'undefined', 'rvalue', 'agg') for o in srcs):
                            # origin must be the scrutinee's payload
                            if any(getattr(o, 'suffix', None) and o.suffix[:2] == ['as ' + variant, '.0'] for o in srcs) or \
                                    _moves_from(f, a['rv']['ops'][0], scrut, variant):
                                verdict = ('ok', 're-wrapped untouched as %s' % variant)
                if verdict is None:
                    verdict = ('bad', 'payload of the %s arm is neither sent nor re-wrapped' % variant)
                rep.expect('R01.d', verdict[0] == 'ok', key, verdict[1],
                           '%s: the %s arm of a match on CommandOutput: %s' % (f.path, variant, verdict[1]))
    if n < 4:
        rep.bad('R01.d', 'sites', 'expected 4 matches on CommandOutput (spawner task, CommandSink::start_send, map_effect, map_event), found %d' % n)


def _moves_from(fn, operand, scrut, variant, depth=0):
    if 'l' not in operand or depth > 8:
        return False
    if operand['l'] == scrut and operand.get('p', [])[:2] == ['as ' + variant, '.0']:
        return True
    for d in fn.defs(operand['l']):
        if d[0] == 'stmt' and not d[3]['d']['p'] and d[3]['rv']['k'] == 'use' and 'l' in d[3]['rv']['a']:
            if _moves_from(fn, d[3]['rv']['a'], scrut, variant, depth + 1):
                return True
    return False


def queue_reads(fn, field):
    """reads of the channel in `self.<field>` with the edges taken when the read found it empty:
    try_recv -> Err edge, next() over try_iter() -> None edge, is_empty -> true edge.  Returns [(block, [empty edges])]"""
    out = []
    for bb, t in fn.calls('crossbeam_channel::channel::Receiver::try_recv'):
        if field in field_of_receiver(fn, t['args'][0]):
            res = t['d']['l']
            edges = []
            for sb, st in fn.terms('switch'):
                if any(o.kind == 'rvalue' and o.stmt['rv']['k'] == 'discr' and o.stmt['rv']['a']['l'] == res and not o.stmt['rv']['a']['p'] for o in origins(fn, st['a'])):
                    edges.append((sb, next((b_ for v, b_ in st['arms'] if v == 1), st['otherwise'])))  # Err = 1
            out.append((bb, edges))
    iters = {}
    for bb, t in fn.calls('crossbeam_channel::channel::Receiver::try_iter'):
        if field in field_of_receiver(fn, t['args'][0]):
            iters[bb] = t
    for bb, t in fn.calls('core::iter::traits::iterator::Iterator::next'):
        src = origins(fn, t['args'][0], extra_identity=[('core::iter::traits::collect::IntoIterator::into_iter', 0)])
        if src and all(o.kind == 'call' and o.bb in iters for o in src):
            out.append((bb, none_edges_of(fn, bb, t)))
    for bb, t in fn.calls('crossbeam_channel::channel::Receiver::is_empty'):
        if field in field_of_receiver(fn, t['args'][0]):
            res = t['d']['l']
            edges = []
            for sb, st in fn.terms('switch'):
                if any(o.kind == 'call' and o.bb == bb and not o.suffix for o in origins(fn, st['a'])):
                    edges.append((sb, st['otherwise']))
            out.append((bb, edges))
    return out


QUEUE_TAKERS = re.compile(r'^crossbeam_channel::channel::Receiver::(try_recv|recv|recv_timeout|recv_deadline|try_iter|iter)$|'
                          r'^<&?crossbeam_channel::channel::Receiver<.*> as core::iter::traits::collect::IntoIterator>::into_iter$|'
                          r'^crossbeam_channel::select')
ITER_STEPS = {'next', 'into_iter', 'by_ref', 'peekable', 'fuse'}


def check_ready_ids_are_run(rep, rid, core):
    """every place that takes task ids off a ready queue (a Receiver<TaskId>) hands what it took to run_task: a wake-up is consumed only by
    polling the task it names.  Sites are found by the receiver's item type, wherever they are."""
    n = 0
    for f in core.built:
        if f.j.get('exp') or '::tests' in f.npath or f.j.get('test'):
            continue
        for bb, t in f.calls():
            cn = norm(t.get('callee') or '')
            if not QUEUE_TAKERS.match(cn) or not t.get('args'):
                continue
            a0 = t['args'][0]
            ty = str(f.locals[a0['l']]) if 'l' in a0 else ''
            if not re.search(r'Receiver<[\w:]*TaskId>', ty) and 'ready_queue' not in field_of_receiver(f, a0):
                continue
            n += 1
            seen, work, runs, others = set(), [t['d']['l']], False, []
            while work:
                l = work.pop()
                if l in seen:
                    continue
                seen.add(l)
                for s_ in flows_to(f, l):
                    if s_[0] != 'callarg':
                        continue
                    c2 = last_seg(s_[2].get('callee') or '')
                    if c2 == 'run_task':
                        runs = True
                    elif c2 in ITER_STEPS and 'l' in (s_[2].get('d') or {}):
                        work.append(s_[2]['d']['l'])
                    else:
                        others.append(c2)
            key = '%s|%s|taken-ids-are-run' % (f.kpath, last_seg(cn))
            rep.expect(rid, runs, key, 'the ids taken by %s reach run_task' % last_seg(cn),
                       '%s takes task ids off the ready queue that never reach run_task (they go to %s): a wake-up of another task can be '
                       'swallowed, and that task is never polled for the value it was resolved with' % (f.where(bb), sorted(set(others)) or 'nothing'))
    if n < 2:
        rep.bad(rid, 'ready-queue-readers', 'expected the two readers of a ready queue (Command::run_until_settled, QueuingExecutor::run_all), found %d' % n)


def check_executor_loops(rep, core, rid='R01.e'):
    f = single(rep, rid, core, 'crux_core::capability::executor::QueuingExecutor::run_all')
    if f is not None:
        spawn_reads = queue_reads(f, 'spawn_queue')
        ready_reads = queue_reads(f, 'ready_queue')
        runs = [(bb, t) for bb, t in f.calls('QueuingExecutor::run_task')]
        spawn_r = [bb for bb, e in spawn_reads]
        ready_r = [bb for bb, e in ready_reads]
        ok_shape = bool(spawn_r) and bool(ready_r) and len(runs) >= 2 and all(e for _, e in spawn_reads + ready_reads)
        common = ok_shape and any(s_ in f.reachable_after(r_) for s_ in spawn_r for r_ in ready_r) and any(r_ in f.reachable_after(s_) for s_ in spawn_r for r_ in ready_r)
        rep.expect(rid, common, 'run_all-one-loop', 'the spawn queue and the ready queue are read inside one common loop',
                   'run_all no longer reads both queues inside one loop (%d/%d reads, %d run_task calls)' % (len(spawn_r), len(ready_r), len(runs)))
        if ok_shape:
            rets = f.return_blocks()
            E_s = [e for _, es in spawn_reads for e in es]
            E_r = [e for _, es in ready_reads for e in es]

            def quiescent_after(starts):
                """no return is reachable from `starts` (path-sensitively in the progress flags) without observing the spawn queue
                empty again, nor without observing the ready queue empty again"""
                return not (set(rets) & f.reachable_ps(starts, removed_edges=E_s)) and not (set(rets) & f.reachable_ps(starts, removed_edges=E_r))
            adt = core.adts.get('crux_core::capability::executor::RunTask')
            names = {v['name']: v['idx'] for v in adt['variants']} if adt else {}
            n_sp = n_rd = 0
            ok_sp = ok_rd = True
            for rb, rt in runs:
                res = rt['d']['l']
                sw = [(bb, t) for bb, t in f.terms('switch') if any(
                    o.kind == 'rvalue' and o.stmt['rv']['k'] == 'discr' and o.stmt['rv']['a']['l'] == res for o in origins(f, t['a']))]
                if not sw:
                    # a task just taken from the spawn queue (its state is not inspected)
                    n_sp += 1
                    ok_sp = ok_sp and quiescent_after(f.succ(rb))
                else:
                    n_rd += 1
                    sbb, st = sw[0]
                    for vn in ('Suspended', 'Completed'):
                        tgt = next((b_ for v, b_ in st['arms'] if v == names.get(vn)), st['otherwise'])
                        ok_rd = ok_rd and bool(names) and quiescent_after([tgt])
            # ... and never without having looked at all: whoever calls run_all may have queued work that no other thread will see
            # (a thread already inside may have made its last look), so no return is reachable from the entry without finding both queues empty
            rep.expect(rid, quiescent_after([0]), 'run_all-looks-before-return', 'every return of run_all follows a look at both queues that found them empty',
                       'run_all can return without having looked at the queues (e.g. because another thread is "already running" it): work queued by '
                       'this caller just after that thread\'s last look is run by nobody and its effects are returned by no call')
            rep.expect(rid, n_sp >= 1 and ok_sp, 'run_all-flag-after-spawned',
                       'after running a newly spawned task, run_all returns only after finding both queues empty again',
                       'run_all can run a newly spawned task and return without looking at both queues again')
            # a task that is out of its slot (another thread is polling it) keeps its wake-up: on the Unavailable result the id is put
            # back on the ready queue on every path before run_all reads a queue again or returns
            requeue_ok = True
            n_un = 0
            for rb, rt in runs:
                res = rt['d']['l']
                sw = [(bb, t) for bb, t in f.terms('switch') if any(
                    o.kind == 'rvalue' and o.stmt['rv']['k'] == 'discr' and o.stmt['rv']['a']['l'] == res for o in origins(f, t['a']))]
                if not sw or 'Unavailable' not in names:
                    continue
                n_un += 1
                sbb, st = sw[0]
                tgt = next((b_ for v, b_ in st['arms'] if v == names['Unavailable']), st['otherwise'])
                resends = [bb for bb, t in f.calls('crossbeam_channel::channel::Sender::send') if 'ready_sender' in field_of_receiver(f, t['args'][0]) and
                           all(o.kind == 'call' and o.bb in ready_r for o in origins(f, t['args'][1], extra_identity=[('core::ops::deref::Deref::deref', 0)])
                               if o.kind == 'call')]
                stops = set(spawn_r + ready_r + rets)
                if not resends or (stops & f.reachable_ps([tgt], removed_blocks=resends)):
                    requeue_ok = False
            rep.expect(rid, n_un >= 1 and requeue_ok, 'run_all-requeues-unavailable',
                       'on Unavailable the task id goes back on the ready queue before the next queue read or the return',
                       'run_all can drop the wake-up of a task that another thread is polling: on the Unavailable result the id is not put back '
                       'on the ready queue on every path (nobody will poll that task for this wake-up)')
            rep.expect(rid, n_rd >= 1 and ok_rd, 'run_all-flag-after-ready',
                       'after a woken task ran (Suspended / Completed), run_all returns only after finding both queues empty again',
                       'run_all: a task that ran (Suspended/Completed) does not force another look at both queues, so the loop may exit with work queued')
    g = single(rep, rid, core, 'crux_core::command::Command::run_until_settled')
    if g is not None:
        spawn_new = [bb for bb, t in g.calls('crux_core::command::Command::spawn_new_tasks')]
        runs = [bb for bb, t in g.calls('crux_core::command::Command::run_task')]
        clears = [bb for bb, t in g.calls('slab::Slab::clear')]
        empties = [bb for bb, t in g.calls('crossbeam_channel::channel::Receiver::is_empty')]
        rets = g.return_blocks()
        ok = bool(spawn_new) and bool(runs) and bool(empties)
        rep.expect(rid, ok and all(g.all_paths_pass(r, rets, via_blocks=spawn_new + clears) for r in runs), 'settle-respawn',
                   'after any task ran, the spawn queue is re-read before the loop can exit',
                   'run_until_settled can exit after running a task without re-reading the spawn queue')
        # ... and the loop is left only when the ready queue was found empty (or the command aborted): no budget, timeout or count may
        # end a pass with wake-ups still queued — nothing reschedules them, and a hosted command would answer Pending with runnable tasks
        empty_edges = [e for _, es in queue_reads(g, 'ready_queue') for e in es]
        rep.expect(rid, ok and bool(empty_edges) and not (set(rets) & g.reachable([0], removed_edges=empty_edges, removed_blocks=clears)),
                   'settle-exits-only-when-empty', 'every return follows a look at the ready queue that found it empty (or the abort branch)',
                   'run_until_settled can return while wake-ups are still in the ready queue (a poll budget, a counter, a time limit): the tasks they '
                   'belong to are runnable but nothing will run them, so the command neither progresses nor reports done')
        rep.expect(rid, ok and all(any(g.dominates(s, e) and s != e for s in spawn_new) for e in empties), 'settle-order',
                   'spawn_new_tasks precedes the emptiness test of the ready queue',
                   'run_until_settled tests the ready queue before moving spawned tasks into it')


def check(ctx, rep):
    rep.rule('R01.a', 'Core::process: run before look, re-run after update/spawn, return only when no event is left, return the drain', floor=8)
    rep.rule('R01.b', 'every entry point settles through Core::process', floor=3)
    rep.rule('R01.c', 'no effect/event/request/command/response value is dropped on a normal path outside the exception table', floor=1)
    rep.rule('R01.d', 'every match on CommandOutput forwards Effect to the effect channel and Event to the event channel', floor=4)
    rep.rule('R01.e', 'both executor loops read both queues and exit only after an idle pass', floor=5)
    core = ctx.crate('default', 'crux_core')
    if core is None:
        rep.missing('R01.a', 'crux_core facts')
        return
    check_process(rep, core)
    check_entry_points(rep, core)
    check_linear(rep, core, 'default')
    if ctx.has('allfeat'):
        c2 = ctx.crate('allfeat', 'crux_core')
        if c2 is not None:
            check_linear(rep, c2, 'allfeat')
    check_forwarders(rep, core)
    check_executor_loops(rep, core)
    # R01.f: request / stream / notification effects are put on the effect channel exactly once (typestate of the command-API futures)
    from rules.props import prims, c05, c07
    rep.rule('R01.f', 'the effect of a command-API request, stream or notification is put on the effect channel exactly once: at the call '
             '(notification) or at the first poll (ReadyToSend -> Sent), and the future keeps its receiver', floor=10)
    prims.check_request_typestate(rep, 'R01.f', core)
    # R01.g: no task with outstanding work is lost: a future crux provides never stays Pending without this poll's waker (else the
    # eviction test discards the task and everything it would still have requested) — shared with C05 R05.c / C07 R07.d
    rep.rule('R01.g', 'every future crux provides keeps the current poll\'s waker when it stays Pending (a task that loses it is evicted and its later effects are lost)', floor=5)
    c05.check_pending_wakers(rep, 'R01.g', core, ctx.crate('default', 'crux_time'))
    # R01.j: no wake-up is lost on its way to the ready queue, however the waker is invoked (shared with C05 R05.b)
    rep.rule('R01.j', 'every way of waking a task waker enqueues the task, marks it woken and wakes the parent, on every path', floor=5)
    c05.check_wake_impls(rep, 'R01.j', core, ctx.crate('default', 'crux_time'))
    # R01.i: a task parked on a JoinHandle is woken whenever the joined task leaves the command, or everything it would still request is lost
    rep.rule('R01.i', 'every task that leaves a command — finished, aborted or evicted — publishes `finished` and wakes its join handles', floor=2)
    c07.check_finish_notify(rep, 'R01.i', core)
    # R01.k: the effects of one member of a composition are not lost because an unrelated member was aborted: a combinator returns a
    # fresh command, never one of its operands (shared with C06 R06.g; seeded: Command::all as reduce(Command::and)). The deliberate
    # left-operand hosting of `and` is finding C06-F2 of its own property and is not reported a second time here (exact key).
    from rules.props import c06 as _c06, c10 as _c10
    _c06.check_fresh_host(_c10.RuleProxy(rep, 'R01.k', lambda key: key != 'Command::and|returns-operand'), core, rid='R01.k')
    # R01.h: outputs already produced are not thrown away when a hosted command ends (shared with C07 R07.a / R07.e)
    rep.rule('R01.h', 'a command reports done / ends its stream only when its effect and event queues are empty', floor=3)
    c07.check_is_done(rep, 'R01.h', core)
    c07.check_stream_end(rep, 'R01.h', core)
    controls(ctx, rep)
    rep.assume('duplication of an effect or event is impossible: the runtime is generic over Effect/Event with no Clone bound (rustc)')
    rep.assume('crossbeam-channel unbounded channels deliver every sent message exactly once, FIFO')
    rep.assume('user futures and App::update are outside every rule')


def controls(ctx, rep):
    c = ctx.crate('controls', 'crux_verif_controls')
    if c is None:
        rep.control('controls crate analysed', False)
        return
    # linear rule sees a dropped effect
    hits = [1 for f in c.elab if 'c01::drops_effect' in f.npath for bb, t in f.terms('drop') if is_payload(t['d']['t'], {'Effect'})]
    rep.control('R01.c fires on a dropped generic Effect', bool(hits))
    hits = [1 for f in c.elab if 'c01::moves_effect' in f.npath for bb, t in f.terms('drop') if is_payload(t['d']['t'], {'Effect'})]
    rep.control('R01.c quiet when the Effect is moved on', not hits and any('c01::moves_effect' in f.npath for f in c.elab))


def thorough_extra(ctx, rep):
    from rules import witness
    witness.report(rep, 'W01')
