"""C09 — the serialized bridge is a faithful, correctly routed image of the core (structural clauses)."""
import re
from rules.facts import norm, path_matches, origins, flows_to, call_matches, last_seg
from rules.props import c01, c06

CONFIGS = {'quick': ['default', 'controls'], 'thorough': ['allfeat']}
TECHNIQUE = ('static analysis: provenance rules on ResolveRegistry (the id is the slab key; lookup and removal use the id parameter), '
             'edge-dominance rule on removal, exactly-once pipeline rule in the bridge, variant-pairing rule on macro-generated '
             'Effect::serialize of two probe apps')
EXPLANATION = (
    'R09.a in ResolveRegistry::register the id of the returned request is the key returned by Slab::insert of that effect\'s resolver, '
    'through a checked conversion; in resume the lookup and the removal use the id parameter and nothing else; R09.b the removal is '
    'reachable only along the Never edge of a discriminant test made after ResolveSerialized::resolve returned; R09.c in the bridge the '
    'effects returned by the core flow through register, one call per effect with no adaptor, into the vector that is serialised, and no '
    'effect or request is dropped except the serialised batch; R09.d in every generated `impl Effect` (derive and attribute macro, '
    'expanded from the current tree in the probe crate) arm i of serialize passes the constructor of the same-named Ffi variant, and '
    'From<Request<Op>> builds the variant whose payload is Op; R09.e a registry entry changes state only when a one-shot is consumed — a stream '
    'entry never does, so its id stays bound while it can be resolved, and nothing but a resolver\'s own resolve() overwrites its arity state (no placeholder '
    'is swapped into the registry). Byte-level equality with the typed core for every history is not decided '
    '(C02 R02.b and C10 R10.d cover arity and codec). R09.a also requires that nothing renumbers the registry slab (who-may-call), R09.f that Bridge::view serialises a fresh Core::view on every path. R09.g the bridge uses one bincode options value, without a byte limit, for decoding and encoding, and every entry point returns exactly the buffer it created and serialised into (shared with C10).')


def check_entry_writers(rep, rid, core):
    """who may write a registry entry: the arity state of a ResolveSerialized (and of a typed Resolve) is changed only inside its own
    `resolve` — nothing else replaces, swaps, takes or overwrites one through a reference (a placeholder swapped into the registry
    while the lock is released makes a concurrent response see the wrong arity)"""
    n = 0
    for adt, owner in (('crux_core::bridge::request_serde::ResolveSerialized', 'resolve'), ('crux_core::core::resolve::Resolve', 'resolve')):
        short = adt.rsplit('::', 1)[-1]
        rx = re.compile(r"(^|[ &<(])" + re.escape(adt) + r"(<[^ ]*>)?$")
        for f in core.built:
            if f.j.get('exp'):
                continue
            writes = []
            for bb, t in f.calls('core::mem::replace', 'core::mem::swap', 'core::mem::take'):
                if rx.search((t.get('targs') or [''])[0]):
                    writes.append((bb, last_seg(t['callee'])))
            for bb, i, st in f.stmts('assign'):
                d = st['d']
                if d['p'] and d['p'][-1] == '*' and rx.search(d.get('t') or ''):
                    writes.append((bb, 'store'))
            if not writes:
                continue
            n += 1
            own = f.name == owner and path_matches(f.assoc.get('self_adt'), adt) or \
                (f.kind == 'Closure' and (f.root or '').endswith('::' + owner) and short + '::' in (f.root or ''))
            rep.expect(rid, bool(own), '%s|writes %s' % (f.kpath, short), 'the only writer of a %s state is its own resolve' % short,
                       '%s overwrites a %s through a reference (%s): the arity state of an entry may only change inside %s::resolve'
                       % (f.where(writes[0][0]), short, ', '.join(sorted(set(w for _, w in writes))), short))
    if n < 2:
        rep.bad(rid, 'entry-writers', 'expected the two resolve functions to write their own state, found %d writer(s)' % n)


VEC_MUTATORS = {'pop', 'remove', 'swap_remove', 'truncate', 'clear', 'retain', 'retain_mut', 'dedup', 'dedup_by', 'dedup_by_key', 'drain', 'sort', 'sort_by',
                'sort_by_key', 'sort_unstable', 'sort_unstable_by', 'sort_unstable_by_key', 'reverse', 'insert', 'swap', 'split_off', 'append', 'extend',
                'rotate_left', 'rotate_right'}


def bridge_pipeline_loop(core, cg, STOP, first, need_both=True):
    """loop form of the pipeline: a fresh Vec, and inside `for e in effects` exactly one push(register(e)) on every iteration"""
    from rules.common import deep_origins
    from rules.props import c01
    h = first[0][0]
    if any(x is not h for x, _ in first):
        return False, 'loop form: the batch is created in several functions', set()
    pushes = [(bb, t) for bb, t in h.calls('alloc::vec::Vec::push') if 'bridge::Request<' in ' '.join(t.get('targs') or [])]
    others = [last_seg(t['callee']) for bb, t in h.calls() if 'alloc::vec::Vec' in norm(t.get('callee') or '') and 'bridge::Request<' in ' '.join(t.get('targs') or [])
              and last_seg(t['callee']) in VEC_MUTATORS]
    if len(pushes) != 1 or others:
        return False, 'loop form: expected exactly one push into the batch and no other mutation (pushes %d, other %s)' % (len(pushes), others), set()
    pb, pt = pushes[0]
    regs = [o for o in origins(h, pt['args'][1])]
    if not regs or not all(o.kind == 'call' and call_matches(o.term, ['crux_core::bridge::registry::ResolveRegistry::register']) for o in regs) or len(set(o.bb for o in regs)) != 1:
        return False, 'loop form: what is pushed is not the result of one register(..) call', set()
    rb = regs[0].bb
    items = origins(h, regs[0].term['args'][1])
    if not items or not all(o.kind == 'call' and last_seg(o.term.get('callee') or '') == 'next' and o.suffix == ['as Some', '.0'] for o in items) or \
            len(set(o.bb for o in items)) != 1:
        return False, 'loop form: the registered value is not the item of a next() call', set()
    nb = items[0].bb
    nt = h.blocks[nb]['t']
    none_edges = c01.none_edges_of(h, nb, nt)
    some_targets = [s2 for s2 in h.succ(none_edges[0][0]) if (none_edges[0][0], s2) not in none_edges] if none_edges else []
    every = bool(some_targets) and h.in_cycle(nb) and pb in h.reachable_after(nb) and \
        all(nb not in h.reachable([st_], removed_blocks=[pb]) and not (set(h.return_blocks()) & h.reachable([st_], removed_blocks=[pb])) for st_ in some_targets) and \
        rb != pb and h.dominates(rb, pb)
    it_src = origins(h, nt['args'][0], extra_identity=[('core::iter::traits::collect::IntoIterator::into_iter', 0)])
    roots = []
    for o in it_src:
        if o.kind == 'call' and last_seg(o.term.get('callee') or '') == 'into_iter':
            roots += deep_origins(cg, h, o.term['args'][0], stop_calls=STOP)
        else:
            roots.append((h, o))
    from_core = bool(roots) and all(o.kind == 'call' and call_matches(o.term, STOP) and [tok for tok in o.suffix if tok not in ('as Ok', '.0', 'as Continue')] == []
                                    for _, o in roots)
    ents = set(last_seg(o.term['callee']) for _, o in roots if o.kind == 'call')
    if need_both:
        from_core = from_core and len(ents) == 2
    return (every and from_core), 'loop form; effects come from the core entry points: %s; every item is registered once and pushed: %s' % (from_core, every), ents


def bridge_pipeline(core):
    """The vector handed to erased_serialize is `collect(map(into_iter(effects), |e| register(e)))` where `effects` is the result of
    Core::process_event / Core::process; followed across helper functions.  Returns (ok, detail)."""
    from rules.common import CallGraph, deep_origins
    cg = CallGraph([core])
    STOP = ['crux_core::core::Core::process_event', 'crux_core::core::Core::process']
    sers = []
    for f in core.built:
        if '::bridge::' not in f.npath or f.j.get('exp'):
            continue
        for bb, t in f.calls('erased_serde::ser::Serialize::erased_serialize'):
            if 'bridge::Request<' in (t['args'][0].get('t') or ''):
                sers.append((f, bb, t))
    if not sers:
        return False, 'no serialisation of the request batch found'
    if len(sers) > 1:
        # several entry points may each serialise their own batch (the shared dispatcher inlined by hand): every one of them must be a
        # pipeline over a core run, and together they must cover both core entry points
        entries = set()
        details = []
        for site in sers:
            ok_, detail_, ents_ = _pipeline_at(core, cg, STOP, site, need_both=False)
            details.append(detail_)
            if not ok_:
                return False, detail_
            entries |= ents_
        return (entries == {'process_event', 'process'}), '%d serialisation sites, entry points %s; %s' % (len(sers), sorted(entries), details[0])
    ok_, detail_, _ = _pipeline_at(core, cg, STOP, sers[0], need_both=True)
    return ok_, detail_


def _pipeline_at(core, cg, STOP, site, need_both=True):
    from rules.common import deep_origins
    f, bb, t = site
    first = deep_origins(cg, f, t['args'][0], stop_calls=STOP)
    if first and all(o.kind == 'call' and last_seg(o.term.get('callee') or '') in ('new', 'with_capacity') and 'alloc::vec::Vec' in norm(o.term.get('callee') or '')
                     for h, o in first):
        return bridge_pipeline_loop(core, cg, STOP, first, need_both)
    # nothing reorders, drops or adds to the batch between its collection and its serialisation (the order of a batch is the order in
    # which the typed core returns the requests)
    batch_src = origins(f, t['args'][0])
    touched = []
    for b2, t2 in f.calls():
        c2 = norm(t2.get('callee') or '')
        if b2 != bb and t2.get('args') and (c2.startswith('alloc::vec::Vec::') or c2.startswith('alloc::slice::') or c2.startswith('core::slice::')) and \
                (last_seg(c2) in VEC_MUTATORS or last_seg(c2).startswith('sort') or last_seg(c2) in ('push', 'reverse', 'swap', 'fill', 'select_nth_unstable')):
            src2 = origins(f, t2['args'][0], extra_identity=[('core::ops::deref::DerefMut::deref_mut', 0)])
            if batch_src and src2 and set((o.kind, getattr(o, 'bb', None)) for o in src2) == set((o.kind, getattr(o, 'bb', None)) for o in batch_src) and \
                    all(o.kind == 'call' for o in src2):
                touched.append(last_seg(c2))
    if touched and not (first and all(o.kind == 'call' and last_seg(o.term.get('callee') or '') in ('new', 'with_capacity') for h, o in first)):
        return False, 'the collected batch is changed before it is serialised (%s)' % sorted(set(touched)), set()
    cur = [(f, t['args'][0])]
    chain = []
    clo = None
    for want in ('collect', 'map'):
        nxt = []
        for g, op in cur:
            for h, o in deep_origins(cg, g, op, stop_calls=STOP):
                if o.kind != 'call' or last_seg(o.term.get('callee') or '') != want:
                    return False, 'chain %s then %s' % (chain, (o.kind, last_seg(o.term.get('callee') or '') if o.kind == 'call' else '')), set()
                if want == 'map':
                    for x in origins(h, o.term['args'][1]):
                        if x.kind == 'agg' and x.stmt['rv'].get('ak') == 'closure':
                            clo = core.by_exact(x.stmt['rv']['def'])
                nxt.append((h, o.term['args'][0]))
        chain.append(want)
        cur = nxt
    roots = []
    for g, op in cur:
        roots += deep_origins(cg, g, op, stop_calls=STOP)
    # `resume(id, data).map(|()| self.core.process())`: the Ok payload of Result::map is what the closure given to it returns
    for _ in range(3):
        more, changed = [], False
        for h, o in roots:
            if o.kind == 'call' and call_matches(o.term, ['core::result::Result::map', 'core::option::Option::map', 'core::result::Result::and_then']) and \
                    len(o.term['args']) > 1:
                clos = [core.by_exact(x.stmt['rv']['def']) for x in origins(h, o.term['args'][1]) if x.kind == 'agg' and x.stmt['rv'].get('ak') == 'closure']
                if clos and all(c_ is not None for c_ in clos):
                    payload = [tok for tok in o.suffix if tok not in ('as Ok', '.0', 'as Continue', 'as Some')]
                    for c_ in clos:
                        inner = {'l': 0, 'p': (['as Ok', '.0'] if last_seg(o.term['callee']) == 'and_then' else []) + payload}
                        more += deep_origins(cg, c_, inner, stop_calls=STOP)
                    changed = True
                    continue
            more.append((h, o))
        roots = more
        if not changed:
            break
    from_core = bool(roots) and all(o.kind == 'call' and call_matches(o.term, ['crux_core::core::Core::process_event', 'crux_core::core::Core::process'])
                                    and [tok for tok in o.suffix if tok not in ('as Ok', '.0', 'as Continue')] == [] for h, o in roots)
    ents = set(last_seg(o.term['callee']) for h, o in roots if o.kind == 'call')
    if need_both:
        from_core = from_core and len(ents) == 2
    one_register = False
    if clo is not None:
        regs = [(b2, t2) for b2, t2 in clo.calls('crux_core::bridge::registry::ResolveRegistry::register')]
        one_register = len(regs) == 1 and not clo.in_cycle(regs[0][0]) and \
            all(o.kind == 'arg' and o.n == 2 for o in origins(clo, regs[0][1]['args'][1])) and \
            all(o.kind == 'call' and o.bb == regs[0][0] for o in origins(clo, {'l': 0, 'p': []}))
    return (from_core and one_register), 'chain %s; effects come from the core entry points: %s; closure registers its argument once and returns the request: %s' % (
        chain, from_core, one_register), ents


# Slab operations that never change the key of an existing entry
SLAB_KEY_STABLE = {'new', 'with_capacity', 'insert', 'get', 'get_mut', 'remove', 'try_remove', 'contains', 'len', 'is_empty', 'capacity', 'reserve',
                   'reserve_exact', 'shrink_to_fit', 'iter', 'iter_mut', 'vacant_entry', 'key'}


def check_slab_keys(rep, rid, core, elem, label, floor, extra=()):
    """a slab whose keys are held elsewhere as ids (task ids in wakers and queues, effect ids in the shell) is only used through
    operations that leave every remaining entry under its key"""
    moved, n = [], 0
    for f in core.built:
        if f.j.get('exp') or '::testing' in f.npath:
            continue
        for bb, t in f.calls():
            c = norm(t.get('callee') or '')
            if c.startswith('slab::Slab::') and elem in ' '.join(t.get('targs') or []):
                n += 1
                if last_seg(c) not in SLAB_KEY_STABLE and last_seg(c) not in extra:
                    moved.append('%s at %s' % (last_seg(c), f.where(bb)))
    rep.expect(rid, n >= floor and not moved, '%s|keys-are-stable' % label, '%d slab operations, none of which moves an entry to another key' % n,
               'the %s slab is used through %s: live entries can end up under another key than the id that wakers, queues or the shell hold for them'
               % (label, moved or 'too few operations (%d)' % n))


def check_fresh_view(rep, rid, core):
    """every view entry point of the bridge computes the view from the model as it is when it is called: no return is reachable
    without a (transitive) call of Core::view — a cached copy goes stale when a call fails after update has run"""
    from rules.common import Summaries
    sm9 = Summaries([core])
    for f in [g for g in core.built if g.kind == 'AssocFn' and g.name == 'view' and '::bridge::' in g.npath and not g.j.get('exp')]:
        sites = sm9.sites(f, ['crux_core::core::Core::view'], 'must')
        fresh = bool(sites) and not any(r_ in f.reachable([0], removed_blocks=sites) for r_ in f.return_blocks())
        rep.expect(rid, fresh, '%s|fresh-view' % f.kpath, 'no return is reachable without a (transitive) call of Core::view',
                   '%s can return Ok without having serialised the current view of the core (a cached copy would go stale when a call fails after '
                   'update has run)' % f.path)


def check_resume_atomic(rep, rid, res):
    """the lookup of the entry, its resolution and its removal all happen inside ONE region of the registry lock"""
    from rules.props import c03
    regions = c03.lock_regions(res, ['std::sync::poison::mutex::Mutex::lock'])
    ops = [bb for bb, t in res.calls('slab::Slab::get_mut', 'slab::Slab::get', 'slab::Slab::remove', 'slab::Slab::try_remove',
                                     'crux_core::bridge::request_serde::ResolveSerialized::resolve')]
    ok = len(regions) == 1 and len(ops) >= 3 and all(b in regions[0][3] for b in ops)
    rep.expect(rid, ok, 'resume|one-lock-region', 'lookup, resolve and remove lie in the single region of the registry lock',
               'ResolveRegistry::resume: the lookup, the resolution and the removal of an entry are not inside one region of the registry lock '
               '(%d lock region(s)): a concurrent response for the same id can interleave' % len(regions))


def check_resume(rep, rid_a, rid_b, core, res):
    """ResolveRegistry::resume touches only the entry addressed by the id parameter, resolves exactly that entry with the body parameter, and
    removes an entry only when it can no longer be resolved"""
    # R09.a resume: every slab access indexes with id.0
    accesses = [(bb, t) for bb, t in res.calls('slab::Slab::get_mut', 'slab::Slab::get', 'slab::Slab::remove', 'slab::Slab::try_remove', 'slab::Slab::contains')]
    idx_ok = bool(accesses) and all(all(o.kind == 'arg' and o.n == 2 and o.suffix == ['.0'] for o in origins(res, t['args'][1], through_casts=True))
                                    and origins(res, t['args'][1], through_casts=True) for bb, t in accesses)
    others = [last_seg(t['callee']) for bb, t in res.calls() if norm(t.get('callee') or '').startswith('slab::Slab::') and
              last_seg(t['callee']) not in ('get_mut', 'get', 'remove', 'try_remove', 'contains')]
    rep.expect(rid_a, idx_ok and not others and len(accesses) >= 2, 'resume|index', 'get_mut and remove both index with the id parameter',
               'ResolveRegistry::resume touches the slab with an index other than the id parameter, or through %s' % others)
    entry_ok = False
    rcalls = [(bb, t) for bb, t in res.calls('crux_core::bridge::request_serde::ResolveSerialized::resolve')]
    gets = [(bb, t) for bb, t in res.calls('slab::Slab::get_mut')]
    if rcalls and gets:
        # the resolved entry is what was looked up (or taken out) under the id; the data is the body parameter
        OKOR = [('core::option::Option::ok_or', 0), ('core::option::Option::ok_or_else', 0)]
        entry_ok = all(all(o.kind == 'call' and call_matches(o.term, ['slab::Slab::get_mut', 'slab::Slab::remove', 'slab::Slab::try_remove'])
                           for o in origins(res, t['args'][0], extra_identity=OKOR)) and origins(res, t['args'][0], extra_identity=OKOR) and
                       all(o.kind == 'arg' and o.n == 3 for o in origins(res, t['args'][1], through_casts=True)) for bb, t in rcalls)
    rep.expect(rid_a, entry_ok, 'resume|entry', 'the looked-up entry is resolved with the body parameter',
               'ResolveRegistry::resume resolves something other than the entry looked up under the id, or with other data')
    # R09.b
    removes = [(bb, t) for bb, t in res.calls('slab::Slab::remove', 'slab::Slab::try_remove')]
    adt = core.adts.get('crux_core::bridge::request_serde::ResolveSerialized')
    vidx = {v['name']: v['idx'] for v in adt['variants']}

    def discr_tests():
        """switches on the discriminant of a registry entry: [(switch block, terminator, block of the discriminant read)]"""
        out = []
        for sb, st in res.terms('switch'):
            for o in origins(res, st['a']):
                if o.kind == 'rvalue' and o.stmt['rv']['k'] == 'discr' and path_matches(o.stmt['rv']['a'].get('adt'), 'request_serde::ResolveSerialized'):
                    out.append((sb, st, o.bb))
        return out

    def variants_reaching(sb, st, target):
        """variants of the entry under which `target` is reachable from this test (path-sensitive in bool temporaries)"""
        out = set()
        for name, idx in vidx.items():
            tgt = None
            for v, b in st['arms']:
                if v == idx:
                    tgt = b
            if tgt is None:
                tgt = st['otherwise']
            if target in res.reachable_ps([tgt], removed_blocks=[sb]):
                out.add(name)
        return out
    ok = bool(removes) and bool(rcalls)
    for rmb, rmt in removes:
        feasible = set(vidx)
        after_resolve = False
        for sb, st, test_bb in discr_tests():
            if not res.dominates(sb, rmb):
                continue
            feasible &= variants_reaching(sb, st, rmb)
            if any(res.dominates(rb, test_bb) and rb != test_bb for rb, _ in rcalls):
                after_resolve = True
        consumed = any(any(o.kind == 'call' and o.bb == rmb for o in origins(res, t['args'][0])) for bb, t in rcalls)
        this_ok = (feasible == {'Never'} and after_resolve) or (feasible == {'Once'} and consumed)
        ok = ok and this_ok
    rep.expect(rid_b, ok, 'resume|remove-when-unresolvable',
               'an entry is removed only on the Never edge of a test made after resolve() (or as a one-shot being consumed)',
               'ResolveRegistry::resume removes an entry that may still be resolvable (a Many entry, or before the Never test)')


def check_register(rep, rid, core, reg):
    """every effect gets the slab key of its own resolver as its id (on every path), and nothing renumbers the slab"""
    # R09.a register
    inserts = [(bb, t) for bb, t in reg.calls('slab::Slab::insert')]
    sers = [(bb, t) for bb, t in reg.calls('crux_core::core::effect::Effect::serialize')]
    aggs = [s for bb, i, s in reg.stmts('assign') if s['rv']['k'] == 'agg' and path_matches(s['rv'].get('adt'), 'crux_core::bridge::Request')]
    ok = False
    detail = ''
    if len(inserts) == 1 and len(sers) == 1 and len(aggs) == 1:
        ib, it = inserts[0]
        sb, st = sers[0]
        fields = dict(zip(aggs[0]['rv']['fields'], aggs[0]['rv']['ops']))
        # id <- EffectId(expect(try_into(insert(..))))
        id_ok = False
        for o in origins(reg, fields['id']):
            if o.kind == 'agg' and path_matches(o.stmt['rv'].get('adt'), 'registry::EffectId'):
                for x in origins(reg, o.stmt['rv']['ops'][0]):
                    if x.kind == 'call' and call_matches(x.term, ['core::result::Result::expect', 'core::result::Result::unwrap']):
                        for y in origins(reg, x.term['args'][0]):
                            if y.kind == 'call' and call_matches(y.term, ['core::convert::TryInto::try_into', 'core::convert::TryFrom::try_from']):
                                if all(z.kind == 'call' and z.bb == ib for z in origins(reg, y.term['args'][0])):
                                    id_ok = True
        resolver_ok = all(o.kind == 'call' and o.bb == sb and o.suffix == ['.1'] for o in origins(reg, it['args'][1])) and bool(origins(reg, it['args'][1]))
        effect_ok = all(o.kind == 'call' and o.bb == sb and o.suffix == ['.0'] for o in origins(reg, fields['effect'])) and bool(origins(reg, fields['effect']))
        src_ok = all(o.kind == 'arg' and o.n == 2 for o in origins(reg, st['args'][0]))
        ok = id_ok and resolver_ok and effect_ok and src_ok
        detail = 'id from the insert key: %s; inserted resolver is serialize().1: %s; returned effect is serialize().0: %s' % (id_ok, resolver_ok, effect_ok)
    rep.expect(rid, ok, 'register', detail or 'shape', 'ResolveRegistry::register: the returned id is not the slab key of this effect\'s resolver (%s)' % detail)
    # R09.a (keys are ids): the slab key of an entry IS the EffectId the shell holds, so nothing may move entries to other keys
    moved = []
    n_slab = 0
    for f in core.built:
        if f.j.get('exp'):
            continue
        for bb, t in f.calls():
            c = norm(t.get('callee') or '')
            if c.startswith('slab::Slab::') and 'ResolveSerialized' in ' '.join(t.get('targs') or []):
                n_slab += 1
                if last_seg(c) not in SLAB_KEY_STABLE:
                    moved.append('%s at %s' % (last_seg(c), f.where(bb)))
    rep.expect(rid, n_slab >= 3 and not moved, 'registry|keys-are-stable', '%d slab operations on the registry, none of which renumbers entries' % n_slab,
               'the bridge registry\'s slab is used through %s: entries can end up under another key than the EffectId the shell was given, so '
               'pending responses are rejected or resume another request' % moved)


def check(ctx, rep):
    rep.rule('R09.a', 'the effect id is the slab key; lookup and removal use the id parameter only', floor=3)
    rep.rule('R09.b', 'a registry entry is removed only once it has become Never, tested after resolve returned', floor=1)
    rep.rule('R09.c', 'every effect returned by the core is registered once and serialised; none is dropped', floor=2)
    rep.rule('R09.d', 'generated Effect::serialize pairs each variant with the same-named Ffi constructor; From<Request<Op>> builds the variant of Op', floor=20)
    core = ctx.crate('default', 'crux_core')
    probe = ctx.crate('controls', 'crux_verif_controls')
    if core is None or probe is None:
        rep.missing('R09.a', 'crux_core / probe facts')
        return
    reg = c06.method(core, 'crux_core::bridge::registry::ResolveRegistry', 'register')
    res = c06.method(core, 'crux_core::bridge::registry::ResolveRegistry', 'resume')
    if reg is None or res is None:
        rep.missing('R09.a', 'ResolveRegistry::register / resume')
        return
    check_register(rep, 'R09.a', core, reg)
    check_resume(rep, 'R09.a', 'R09.b', core, res)
    # R09.f: the view the bridge hands out is the serialisation of the core's view at that moment: each view() runs Core::view and
    # returns the buffer that serialisation wrote (no copy kept from an earlier call can be returned)
    rep.rule('R09.f', 'Bridge::view serialises a fresh Core::view on every path to its Ok return', floor=2)
    check_fresh_view(rep, 'R09.f', core)
    # R09.g: the bridge accepts every message the typed core would and returns exactly the bytes it serialised: the single bincode options
    # value carries no byte limit or other option that makes the decoder reject (or the encoder change) what the other direction produced,
    # and each entry point serialises into a buffer created in that call and returns it (shared with C10 R10.d / R10.g)
    from rules.props import c10 as _c10
    rep.rule('R09.g', 'one bincode options value without limit for both directions; entry points return exactly the buffer they serialised into', floor=8)
    _c10.check_codec(ctx, rep, rid='R09.g')
    _c10.check_output_buffers(rep, 'R09.g', core)
    # R09.e: an id stays bound to its request for as long as the request can be resolved: the entry's state only changes
    # by a one-shot being consumed (shared with C02 R02.a, serialised resolver only)
    rep.rule('R09.e', 'a registry entry changes state only when a one-shot is consumed; a stream entry never changes state', floor=3)
    from rules.props import c02
    fs = c02.find_method(core, 'crux_core::bridge::request_serde::ResolveSerialized', 'resolve')
    if len(fs) != 1:
        rep.missing('R09.e', 'ResolveSerialized::resolve')
    else:
        tab = c02.arity_table(core, fs[0], 'crux_core::bridge::request_serde::ResolveSerialized')
        if not tab or set(tab) != {'Never', 'Once', 'Many'}:
            rep.bad('R09.e', 'table', 'ResolveSerialized::resolve is no longer a match on the three arities')
        else:
            rep.expect('R09.e', not tab['Many']['writes_self'], 'Many-keeps-state', 'the Many arm never writes *self',
                       'ResolveSerialized::resolve changes the state of a stream entry: resume() then frees a live stream\'s id, the slab hands '
                       'it to the next request, and later responses under that id resume the wrong request')
            rep.expect('R09.e', tab['Once']['writes_never_before_call'] and tab['Once']['closure_is_taken_payload'], 'Once-consumed',
                       'the Once arm becomes Never exactly by taking its closure out', 'the Once arm of ResolveSerialized::resolve no longer consumes the entry')
            rep.expect('R09.e', not tab['Never']['writes_self'] and tab['Never']['closure_calls'] == 0, 'Never-stays', 'the Never arm changes nothing',
                       'the Never arm of ResolveSerialized::resolve writes or calls something')
    check_entry_writers(rep, 'R09.e', core)
    # R09.c
    ok, detail = bridge_pipeline(core)
    rep.expect('R09.c', ok, 'process|pipeline', detail, 'the bridge does not serialise exactly effects.into_iter().map(register).collect() of a core run (%s)' % detail)
    counts = c01.check_linear(rep, core, 'default', rid='R09.c', only=lambda f, ty: ('bridge' in f.npath) and ('Effect' in ty or 'bridge::Request' in ty))
    # R09.d
    n_ser = 0
    for f in probe.built:
        if not path_matches(f.assoc.get('trait'), 'crux_core::core::effect::Effect') or f.name != 'serialize':
            continue
        if 'probe' not in f.npath:
            continue
        n_ser += 1
        eff_adt = probe.adts.get(norm(f.assoc['self_adt']))
        vnames = {v['idx']: v['name'] for v in eff_adt['variants']}
        top = None
        for sb, st in f.terms('switch'):
            if any(o.kind == 'rvalue' and o.stmt['rv']['k'] == 'discr' and o.stmt['rv']['a']['l'] == 1 for o in origins(f, st['a'])):
                top = (sb, st)
        if top is None:
            rep.bad('R09.d', '%s|match' % f.kpath, 'generated serialize does not match on self')
            continue
        seen = set()
        for bb, t in f.calls('crux_core::core::request::Request::serialize'):
            # which variant's payload is passed, and which constructor
            vs = set()
            for o in origins(f, t['args'][0]):
                for tok in o.suffix if o.kind == 'arg' else []:
                    if tok.startswith('as '):
                        vs.add(tok[3:])
            ctor = t['args'][1].get('fn') or ''
            cname = last_seg(ctor)
            ffi = norm(ctor).rsplit('::', 1)[0]
            key = '%s|%s' % (f.kpath, '/'.join(sorted(vs)))
            good = len(vs) == 1 and cname in vs and ffi.endswith('Ffi')
            seen |= vs
            rep.expect('R09.d', good, key, 'variant %s -> %s::%s' % (sorted(vs), ffi.rsplit('::', 1)[-1], cname),
                       'generated %s passes the payload of variant %s to the Ffi constructor %s' % (f.path, sorted(vs), ctor))
        rep.expect('R09.d', seen == set(vnames.values()), '%s|all-variants' % f.kpath, 'all %d variants are serialised' % len(vnames),
                   'generated %s handles variants %s of %s' % (f.path, sorted(seen), sorted(vnames.values())))
        # Ffi enum declares the same names in the same order, each carrying the operation of the Request
        ffi_adt = probe.adts.get(norm(f.assoc['self_adt']) + 'Ffi')
        same = ffi_adt is not None and [v['name'] for v in ffi_adt['variants']] == [v['name'] for v in eff_adt['variants']]
        if same:
            for ve, vf in zip(eff_adt['variants'], ffi_adt['variants']):
                te = norm(ve['fields'][0]['ty'])
                tf = norm(vf['fields'][0]['ty'])
                if not ve['fields'][0]['ty'].startswith('crux_core::core::request::Request<') or \
                        ve['fields'][0]['ty'][len('crux_core::core::request::Request<'):-1] != vf['fields'][0]['ty']:
                    same = False
        rep.expect('R09.d', same, '%s|ffi-shape' % f.kpath, 'the Ffi enum mirrors the effect enum variant by variant with the bare operation',
                   'the generated Ffi enum of %s does not mirror the effect enum' % norm(f.assoc['self_adt']))
    if n_ser < 2:
        rep.bad('R09.d', 'instances', 'expected generated Effect impls from both #[derive(Effect)] and #[effect], found %d' % n_ser)
    # From<Request<Op>>
    for f in probe.built:
        if f.name != 'from' or not path_matches(f.assoc.get('trait'), 'core::convert::From') or 'probe' not in f.npath:
            continue
        if not (f.j.get('exp') and any('ffect' in m for m in f.j['exp'])):
            continue
        eff_adt = probe.adts.get(norm(f.assoc['self_adt']))
        arg_ty = f.locals[1]
        built = [s for bb, i, s in f.stmts('assign') if s['rv']['k'] == 'agg' and norm(s['rv'].get('adt')) == norm(f.assoc['self_adt'])]
        good = False
        if len(built) == 1 and eff_adt:
            vn = built[0]['rv']['variant']
            v = [x for x in eff_adt['variants'] if x['name'] == vn][0]
            good = v['fields'][0]['ty'] == arg_ty and all(o.kind == 'arg' and o.n == 1 for o in origins(f, built[0]['rv']['ops'][0]))
        rep.expect('R09.d', good, '%s|from' % f.kpath, 'builds the variant whose payload type is the argument type',
                   'generated %s builds a variant whose payload is not its argument' % f.path)
    rep.assume('slab keys are unique among occupied entries (slab contract): distinct outstanding requests get distinct ids')
