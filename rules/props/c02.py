"""C02 — a response reaches exactly the task that asked, with the declared arity (structural clauses)."""
import re

from rules.facts import norm, path_matches, origins, flows_to, call_matches, last_seg
from rules.common import panic_sites

CONFIGS = {'quick': ['default', 'controls'], 'thorough': ['allfeat']}
TECHNIQUE = ('static analysis: per-variant summaries of the typed and the serialised resolver compared as sibling tables, '
             'provenance rules on the private response channels and resolve closures, compile-fail witnesses (thorough)')
EXPLANATION = (
    'R02.a for each of Never/Once/Many the typed resolver (Resolve::resolve) and the serialised one (ResolveSerialized::resolve) '
    'are summarised: Never returns the Never error and calls nothing; Once writes Never to *self before it calls the taken '
    'closure; Many calls the closure, writes nothing and returns its result; the two tables must agree. R02.b Resolve::'
    'deserializing maps each arity to the same-named serialised arity and feeds the continuation only the Ok payload of the '
    'deserialiser. R02.c each request owns a private channel / shared state whose sending half lives only in its resolve closure. '
    'R02.d the value passed to a resolve closure flows unchanged into the channel send / result slot. R02.e stream closures '
    'return the failure of the send; one-shot closures may discard it but never unwrap it. R02.f Core::resolve reports a rejected resolution as '
    'an Err value. R02.g a value delivered into a legacy future reaches the asking task (pending poll keeps this poll\'s waker under the slot\'s '
    'lock; resolve delivers, takes and wakes under it). R02.h a serialised resolution addressed to no outstanding request (a second response to a '
    'one-shot) is an Err, never a panic. R02.i the arity state of a resolver is written only inside its own resolve(). Cross-delivery freedom under every '
    'interleaving is argued from ownership, not decided. R02.j every serialised effect, notifications included, is stored under and announced with the slab key of its own resolver, and nothing renumbers the registry (shared with C09). R02.m the bridge codec has one options value and no byte limit (shared with C10): a limit applies when decoding only, after the one-shot entry was taken out. R02.n the command-API request futures are plain typestate machines: from Sent every poll is the poll of the receiver (shared with C01 R01.f).')

CLOSURE_CALLS = ['core::ops::function::Fn::call', 'core::ops::function::FnMut::call_mut', 'core::ops::function::FnOnce::call_once']


def find_method(crate, adt, name):
    return [f for f in crate.built if f.name == name and f.kind == 'AssocFn' and path_matches(f.assoc.get('self_adt'), adt)
            and not f.assoc.get('trait')]


def _ts_rec(calls, S, blocks, end):
    return {'calls': [c_ for c_ in calls if c_[0] != 'W'], 'writes': [(c_[1], c_[2]) for c_ in calls if c_[0] == 'W'], 'final': S, 'blocks': set(blocks), 'end': end}


def typestate_paths(crate, fn, adt_path, initial, limit=4000, _depth=0):
    """Abstract interpretation of a resolver function for one initial state of *self.

    Abstract state: the variant currently stored in *self, and for every local that holds a value of an enum (a resolver moved out
    by mem::replace, an Option / Result built on the way) the variant it was built as.  A switch on the discriminant of a place whose
    variant is known follows only the feasible arm; every other switch follows all arms.  Returns one record per path to a return
    or a panic: {'calls': [(block, state of *self at the call)], 'final': state at the end, 'blocks': set, 'end': 'return'|'panic'}."""
    adt = crate.adts.get(adt_path)
    vidx = {v['name']: v['idx'] for v in adt['variants']}
    vname = {v['idx']: v['name'] for v in adt['variants']}
    out = []
    # (block, self_state, frozenset(local -> (adt, variant name, vidx)), calls tuple, blocks frozenset)
    work = [(0, initial, frozenset(), (), frozenset())]
    steps = 0

    def is_self(place):
        return place.get('l') == 1 and place.get('p') == ['*']
    pinned = str(fn.locals[1]).startswith('core::pin::Pin<&')
    from rules.facts import is_identity_call as _idc

    def self_ref(operand, known_refs):
        # a (re)borrow of *self: `&mut *_1`, or a copy/move of such a borrow
        return operand.get('l') in known_refs and not operand.get('p')
    while work and steps < limit:
        steps += 1
        bb, S, locs, calls, blocks = work.pop()
        if bb in blocks:
            continue  # no loops expected; do not spin
        blocks = blocks | {bb}
        L = dict(locs)
        refs = set(k for k, v in L.items() if v == 'REF-SELF')
        blk = fn.blocks[bb]
        for st in blk['st']:
            if st['k'] != 'assign':
                continue
            d, rv = st['d'], st['rv']
            if is_self(d) or (d.get('p') == ['*'] and L.get(d.get('l')) == 'REF-SELF'):
                # *self = <value>
                if rv['k'] == 'use' and not rv['a'].get('p') and isinstance(L.get(rv['a'].get('l')), tuple) and L[rv['a']['l']][0] == adt_path:
                    S = L[rv['a']['l']][1]
                elif rv['k'] == 'agg' and path_matches(rv.get('adt'), adt_path):
                    S = rv['variant']
                else:
                    S = '?'
                calls = calls + (('W', bb, S),)
                continue
            if d['p']:
                continue
            l = d['l']
            if rv['k'] == 'agg' and rv.get('ak') == 'adt' and rv.get('variant') is not None:
                L[l] = (norm(rv['adt']), rv['variant'], rv.get('vidx'))
            elif rv['k'] == 'ref' and is_self(rv['a']):
                L[l] = 'REF-SELF'
            elif rv['k'] == 'ref' and pinned and rv['a'].get('l') == 1 and not rv['a'].get('p'):
                L[l] = 'REF-SELF'     # `&mut self` of a `self: Pin<&mut Self>` method stands for the reference to *self
            elif rv['k'] == 'ref' and rv['a'].get('p') == ['*'] and L.get(rv['a'].get('l')) == 'REF-SELF':
                L[l] = 'REF-SELF'
            elif rv['k'] == 'use' and not rv['a'].get('p') and rv['a'].get('l') in L:
                L[l] = L[rv['a']['l']]
            elif rv['k'] == 'use' and rv['a'].get('o') == 'const' and rv['a'].get('v') is not None and rv['a'].get('t') in ('bool', 'u8', 'u32', 'usize', 'isize', 'i32'):
                L[l] = ('#const', rv['a']['v'])      # `matches!(self, Sent(_))` compiles to a bool set on each arm of the state test
            elif rv['k'] == 'use' and rv['a'].get('l') == 1 and not rv['a'].get('p'):
                L[l] = 'REF-SELF'
            else:
                L.pop(l, None)
        t = blk['t']
        k = t['k']
        if k == 'call':
            if call_matches(t, ['core::mem::replace']) and len(t['args']) == 2 and (L.get(t['args'][0].get('l')) == 'REF-SELF' or t['args'][0].get('l') == 1):
                newv = L.get(t['args'][1].get('l'))
                old = S
                S = newv[1] if isinstance(newv, tuple) and newv[0] == adt_path else '?'
                calls = calls + (('W', bb, S),)
                if not t['d']['p']:
                    L[t['d']['l']] = (adt_path, old, vidx.get(old))
            elif call_matches(t, ['core::mem::take']) and t['args'] and (L.get(t['args'][0].get('l')) == 'REF-SELF'):
                if not t['d']['p']:
                    L[t['d']['l']] = (adt_path, S, vidx.get(S))
                S = '?'
            elif call_matches(t, ['core::mem::swap']):
                S = '?'
            elif _idc(t) is not None and t.get('args') and not t['args'][0].get('p') and \
                    (L.get(t['args'][0].get('l')) == 'REF-SELF' or (pinned and t['args'][0].get('l') == 1)) and not t['d']['p']:
                # Pin::as_mut / get_mut / deref_mut of the reference to *self
                L[t['d']['l']] = 'REF-SELF'
            else:
                sub = None
                if _depth < 2 and t.get('args') and not t['args'][0].get('p') and \
                        (L.get(t['args'][0].get('l')) == 'REF-SELF' or t['args'][0].get('l') == 1):
                    # a method of the same type given *self: its own paths from the current state (only when it reads or writes the state)
                    cal = norm(t.get('resolved') or t.get('callee') or '')
                    gs = [g_ for g_ in crate.built if g_.npath == cal and g_.kind == 'AssocFn' and path_matches(g_.assoc.get('self_adt'), adt_path)
                          and not g_.assoc.get('trait') and g_.path != fn.path]
                    if len(gs) == 1 and S in vidx:
                        sub = [p_ for p_ in typestate_paths(crate, gs[0], adt_path, S, limit, _depth + 1) if p_['end'] == 'return']
                if sub:
                    if not t['d']['p']:
                        L.pop(t['d']['l'], None)
                    if t.get('tg') is not None:
                        for p_ in sub:
                            inner = tuple((bb, x[1]) for x in p_['calls']) + tuple(('W', bb, x[1]) for x in p_['writes'])
                            work.append((t['tg'], p_['final'], frozenset(L.items()), calls + inner, blocks))
                    continue
                if call_matches(t, CLOSURE_CALLS):
                    calls = calls + ((bb, S),)
                if not t['d']['p']:
                    L.pop(t['d']['l'], None)
            if any(pb == bb for pb, kk, dd, tt in panic_sites(fn)) and t.get('tg') is None:
                out.append(_ts_rec(calls, S, blocks, 'panic'))
                continue
            if t.get('tg') is None:
                out.append(_ts_rec(calls, S, blocks, 'diverge'))
                continue
            work.append((t['tg'], S, frozenset(L.items()), calls, blocks))
            continue
        if k == 'return':
            out.append(_ts_rec(calls, S, blocks, 'return'))
            continue
        if k == 'switch':
            feasible = None
            if not t['a'].get('p') and isinstance(L.get(t['a'].get('l')), tuple) and L[t['a']['l']][0] == '#const':
                feasible = L[t['a']['l']][1]
            for o in origins(fn, t['a']):
                if o.kind == 'rvalue' and o.stmt['rv']['k'] == 'discr':
                    pl = o.stmt['rv']['a']
                    if (pl.get('l') == 1 and pl.get('p') == ['*']) or (pl.get('p') == ['*'] and L.get(pl.get('l')) == 'REF-SELF'):
                        if S in vidx:
                            feasible = vidx[S]
                    elif not pl.get('p') and isinstance(L.get(pl.get('l')), tuple) and L[pl['l']][2] is not None:
                        feasible = L[pl['l']][2]
            if feasible is not None:
                tgt = next((b2 for v, b2 in t['arms'] if v == feasible), t['otherwise'])
                work.append((tgt, S, frozenset(L.items()), calls, blocks))
            else:
                for s2 in fn.succ(bb):
                    work.append((s2, S, frozenset(L.items()), calls, blocks))
            continue
        succs = fn.succ(bb)
        if not succs:
            out.append(_ts_rec(calls, S, blocks, 'diverge'))
        for s2 in succs:
            work.append((s2, S, frozenset(L.items()), calls, blocks))
    return out


def arity_table(crate, fn, adt_path):
    """{variant: summary} for a resolver function, from a typestate walk of every path for each initial state of *self"""
    adt = crate.adts.get(adt_path)
    if adt is None:
        return None
    names = [v['name'] for v in adt['variants']]
    if not any(o.kind == 'rvalue' and o.stmt['rv']['k'] == 'discr' for bb, t in fn.terms('switch') for o in origins(fn, t['a'])):
        return None
    table = {}
    for name in names:
        paths = typestate_paths(crate, fn, adt_path, name)
        live = [p_ for p_ in paths if p_['end'] == 'return']
        if not live:
            return None
        region = set().union(*[p_['blocks'] for p_ in live])
        ncalls = max(len(p_['calls']) for p_ in live)
        call_sites = sorted(set((cb, st_) for p_ in live for cb, st_ in p_['calls']))
        closure_calls = [(cb, fn.blocks[cb]['t']) for cb in sorted(set(cb for cb, _ in call_sites))]
        changed = any(p_['final'] != name for p_ in live) or any(st_ != name for _, st_ in call_sites)
        summ = {'closure_calls': ncalls, 'writes_never_before_call': bool(call_sites) and all(st_ == 'Never' for _, st_ in call_sites) and name != 'Never',
                'writes_self': changed, 'final_states': sorted(set(p_['final'] for p_ in live)),
                'returns_never_error': False, 'returns_closure_result': False, 'closure_is_taken_payload': False,
                'output_passed_unchanged': None, 'panics': []}
        for cb, ct in closure_calls:
            src = origins(fn, ct['args'][0])
            if src and all(o.kind == 'call' and call_matches(o.term, ['core::mem::replace', 'core::mem::take']) and ('as ' + name) in o.suffix for o in src):
                summ['closure_is_taken_payload'] = True
        # what the paths of this state return
        rets = origins(fn, {'l': 0, 'p': []})
        for p_ in live:
            for bb in p_['blocks']:
                for s_ in fn.blocks[bb]['st']:
                    if s_['k'] == 'assign' and s_['rv']['k'] == 'agg' and s_['rv'].get('variant') == 'Never' and \
                            path_matches(s_['rv'].get('adt'), 'crux_core::core::resolve::ResolveError'):
                        summ['returns_never_error'] = True
        for cb, ct in closure_calls:
            unchanged = False
            for o in origins(fn, ct['args'][1]):
                if o.kind == 'agg' and o.stmt['rv'].get('ak') == 'tuple':
                    inner = origins(fn, o.stmt['rv']['ops'][0], through_casts=True)
                    unchanged = bool(inner) and all(x.kind == 'arg' and x.n == 2 and [t for t in x.suffix if t != '*'] == [] for x in inner)
            summ['output_passed_unchanged'] = unchanged
            res = flows_to(fn, ct['d']['l'], whole_only=True)
            if ct['d']['l'] == 0 or any(s_[0] == 'return' for s_ in res) or any(
                    s_[0] == 'callarg' and call_matches(s_[2], ['core::result::Result::map_err']) and
                    (s_[2]['d']['l'] == 0 or any(x[0] == 'return' for x in flows_to(fn, s_[2]['d']['l'], whole_only=True))) for s_ in res):
                summ['returns_closure_result'] = True
        summ['panics'] = sorted(set(k for bb in region for (pb, k, d, t) in panic_sites(fn) if pb == bb))
        table[name] = summ
    return table


EXPECT = {
    'Never': {'closure_calls': 0, 'writes_self': False, 'returns_never_error': True},
    'Once': {'closure_calls': 1, 'writes_never_before_call': True, 'closure_is_taken_payload': True, 'output_passed_unchanged': True},
    'Many': {'closure_calls': 1, 'writes_self': False, 'returns_closure_result': True, 'output_passed_unchanged': True},
}


def closure_arg(crate, fn, call_t, k):
    """the closure Fn passed (by value, possibly boxed) as argument k of a call"""
    for o in origins(fn, call_t['args'][k], through_casts=True):
        if o.kind == 'agg' and o.stmt['rv'].get('ak') in ('closure', 'coroutine'):
            return crate.by_exact(o.stmt['rv']['def']), o.stmt
    return None, None


def check(ctx, rep):
    rep.rule('R02.a', 'the typed and the serialised resolver implement the same Never/Once/Many table', floor=7)
    rep.rule('R02.b', 'Resolve::deserializing preserves the arity and calls the continuation only with the deserialised Ok payload', floor=5)
    rep.rule('R02.c', 'each request owns a private channel / shared state whose sending half lives only in its resolve closure', floor=4)
    rep.rule('R02.d', 'the resolved value flows unchanged into the channel send / result slot', floor=4)
    rep.rule('R02.e', 'stream resolve closures report a closed consumer; one-shot closures never unwrap the send', floor=4)
    core = ctx.crate('default', 'crux_core')
    if core is None:
        rep.missing('R02.a', 'crux_core facts')
        return
    tables = {}
    for label, adt, in (('typed', 'crux_core::core::resolve::Resolve'), ('serialized', 'crux_core::bridge::request_serde::ResolveSerialized')):
        fs = find_method(core, adt, 'resolve')
        if len(fs) != 1:
            rep.missing('R02.a', '%s::resolve' % adt)
            continue
        tab = arity_table(core, fs[0], adt)
        if tab is None or set(tab) != {'Never', 'Once', 'Many'}:
            rep.bad('R02.a', '%s|table' % label, '%s::resolve is no longer a match on the three arities of *self' % adt)
            continue
        tables[label] = tab
        for variant, want in EXPECT.items():
            got = tab[variant]
            diffs = {k: (got.get(k), v) for k, v in want.items() if got.get(k) != v}
            rep.expect('R02.a', not diffs, '%s|%s' % (label, variant), 'summary %s' % {k: got.get(k) for k in want},
                       '%s resolver, arity %s: %s' % (label, variant, '; '.join('%s is %s, must be %s' % (k, a, b) for k, (a, b) in diffs.items())))
    if len(tables) == 2:
        same = all(tables['typed'][v].get(k) == tables['serialized'][v].get(k) for v in EXPECT for k in EXPECT[v])
        rep.expect('R02.a', same, 'siblings-agree', 'both resolvers produce the same table',
                   'the typed and the serialised resolver disagree: %s vs %s' % (tables['typed'], tables['serialized']))
    check_deserializing(rep, core)
    check_private_channels(rep, core)
    check_core_resolve(rep, core)
    # R02.g: a value put into a legacy future's slot reaches the asking task only if that task is woken: shared with C05 R05.c-e
    from rules.props import c05
    rep.rule('R02.g', 'legacy shell futures: a delivered value reaches the asking task (pending poll keeps this poll\'s waker under the '
             'slot\'s lock; resolve delivers, takes and wakes under it)', floor=8)
    c05.check_pending_wakers(rep, 'R02.g', core, None, only=lambda f: 'capability::shell_request::' in f.npath or 'capability::shell_stream::' in f.npath, floor=2)
    c05.check_legacy_futures(rep, 'R02.g', 'R02.g', core)
    check_registry_miss(rep, core)
    from rules.props import c09, c06
    # R02.j: over the bridge a response is routed by id: every effect (notifications included) is stored under, and announced with, the slab
    # key of its own resolver, so no two outstanding requests share an id and a response for a notification meets its Never entry
    rep.rule('R02.j', 'every serialised effect is registered and announced under the slab key of its own resolver; nothing renumbers the registry', floor=2)
    reg_fn = c06.method(core, 'crux_core::bridge::registry::ResolveRegistry', 'register')
    if reg_fn is None:
        rep.missing('R02.j', 'ResolveRegistry::register')
    else:
        c09.check_register(rep, 'R02.j', core, reg_fn)
    # R02.k: a resolution the registry rejects (spent one-shot, finished stream, unknown id) is rejected towards the shell too: the bridge
    # returns resume()'s error and runs the core only on its Ok edge (shared with C12 R12.b)
    from rules.props import c12 as _c12
    rep.rule('R02.k', 'the bridge returns every error of ResolveRegistry::resume and runs the core only when the resolution was accepted', floor=1)
    _c12.check_resume_result(rep, 'R02.k', core, _c12.boundary_fns(core))
    # R02.l: a response "reaches the task that asked" only if that task is still there: the task hosting a nested command is evicted when
    # a wake made during its own poll leaves no trace, so every way of waking a task waker does the whole job (shared with C05 R05.b)
    from rules.props import c05 as _c05
    rep.rule('R02.l', 'every way of waking a task waker enqueues the task, marks it woken and wakes the parent, on every path', floor=5)
    _c05.check_wake_impls(rep, 'R02.l', core, None)
    # R02.m: over the serialised bridge the one allowed resolution of a request must be decodable whatever its size: bincode applies a
    # byte limit when DEcoding only, after the bridge has taken the one-shot entry out of the registry — a large response is rejected, the
    # request is consumed and the task that asked never hears (a stream loses the item and keeps going). One options value, no limit
    # (shared with C10 R10.d / C09 R09.g; seeded: `.with_limit(1 MiB)` in Bridge::bincode_options "against corrupt length prefixes")
    from rules.props import c10 as _c10
    rep.rule('R02.m', 'the bridge codec has one options value for both directions and no byte limit', floor=5)
    _c10.check_codec(ctx, rep, rid='R02.m')
    # R02.n: "every resolution of a stream reaches the consumer once, in order" on the command API rests on the request futures being plain
    # typestate machines: ReadyToSend sends once and keeps the receiver, and from Sent every poll IS the poll of that receiver — no buffer
    # of its own between the channel and the consumer (shared with C01 R01.f; seeded: a `Vec` batch drained with push and handed out with
    # pop — a burst of resolutions arrives reversed)
    from rules.props import prims as _prims
    rep.rule('R02.n', 'a command-API request / stream future sends once and then only polls its receiver (no buffering or reordering of its own)', floor=10)
    _prims.check_request_typestate(rep, 'R02.n', core)
    rep.rule('R02.i', 'the arity state of a resolver (typed or serialised) is written only inside its own resolve', floor=2)
    c09.check_entry_writers(rep, 'R02.i', core)
    rep.assume('futures::channel::mpsc::unbounded and crux_core::capability::channel return two halves of one fresh FIFO channel')
    rep.assume('Request<Op> cannot be cloned and its resolve field is crate-private (rustc; pinned by witnesses W02.1-3 in the thorough tier)')


def check_registry_miss(rep, core):
    """R02.h: on the serialised path a resolution addressed to an id with no entry (a one-shot already resolved and removed) is
    rejected with an error value: the None edge of the registry lookup in ResolveRegistry::resume reaches the return with an Err and
    cannot reach a panic"""
    rep.rule('R02.h', 'a serialised resolution addressed to no outstanding request is rejected with an error value, not a panic', floor=2)
    from rules.common import panic_sites
    fs = find_method(core, 'crux_core::bridge::registry::ResolveRegistry', 'resume')
    if len(fs) != 1:
        rep.missing('R02.h', 'ResolveRegistry::resume')
        return
    f = fs[0]
    looks = [(bb, t) for bb, t in f.calls('slab::Slab::get_mut', 'slab::Slab::get', 'slab::Slab::contains', 'slab::Slab::try_remove')]
    if not looks:
        rep.missing('R02.h', 'registry lookup in ResolveRegistry::resume')
        return
    panics = [bb for bb, kind, detail, t in panic_sites(f) if not (kind == 'expect' and 'PoisonError' in ((t['args'][0].get('t') if t['args'] else '') or ''))]
    miss_edges = []
    look_bbs = [b for b, t in looks]

    def level(place, depth=0):
        """what the value tested is, in terms of the lookup: 'option' (the lookup's own result), 'result' (`.ok_or(..)` of it),
        'flow' (`?` applied to either); None when it is something else"""
        src = origins(f, place)
        if not src or depth > 3:
            return None
        kinds = set()
        for x in src:
            if x.kind != 'call' or x.suffix:
                return None
            if x.bb in look_bbs:
                kinds.add('option')
            elif call_matches(x.term, ['core::option::Option::ok_or', 'core::option::Option::ok_or_else']) and level(x.term['args'][0], depth + 1) == 'option':
                kinds.add('result')
            elif call_matches(x.term, ['core::ops::try_trait::Try::branch']) and level(x.term['args'][0], depth + 1) in ('option', 'result'):
                kinds.add('flow')
            else:
                return None
        return kinds.pop() if len(kinds) == 1 else None
    for sb, st in f.terms('switch'):
        for o in origins(f, st['a']):
            if o.kind == 'rvalue' and o.stmt['rv']['k'] == 'discr':
                lv = level(o.stmt['rv']['a'])
                if lv is not None:
                    # not found = None (0) of the Option, Err (1) of the Result, Break (1) of the ControlFlow
                    want = 0 if lv == 'option' else 1
                    hit = [b for v, b in st['arms'] if v == want]
                    miss_edges += [(sb, b) for b in hit] or [(sb, st['otherwise'])]
            if o.kind == 'call' and o.bb in [b for b, t in looks] and 'contains' in last_seg(o.term.get('callee') or ''):
                miss_edges += [(sb, b) for v, b in st['arms'] if v == 0]
    if not miss_edges:
        rep.bad('R02.h', 'resume|miss-edge', 'ResolveRegistry::resume: no branch on the result of the registry lookup found')
        return
    reach = set()
    for sb, b in miss_edges:
        reach |= f.reachable([b])
    rep.expect('R02.h', not any(p in reach for p in panics), 'resume|miss-no-panic', 'the not-found edge reaches no panic',
               'ResolveRegistry::resume panics when no request is outstanding under the id (a second resolution of a one-shot over the bridge)')
    errs = [bb for bb, i, s in f.stmts('assign') if s['rv']['k'] == 'agg' and s['rv'].get('variant') == 'Err' and path_matches(s['rv'].get('adt'), 'core::result::Result')]
    # `?` builds the returned Err in from_residual
    errs += [bb for bb, t in f.calls('core::ops::try_trait::FromResidual::from_residual')]
    rets = f.return_blocks()
    ok = bool(errs) and all(b in errs or not any(r in f.reachable([b], removed_blocks=errs) for r in rets) for sb, b in miss_edges)
    rep.expect('R02.h', ok, 'resume|miss-returns-err', 'every path from the not-found edge to the return constructs an Err',
               'ResolveRegistry::resume can return without an error when no request is outstanding under the id')


def check_core_resolve(rep, core):
    """R02.f: Core::resolve returns a rejected resolution as an error value (it is neither unwrapped nor asserted on)"""
    from rules.common import failure_reaches_error
    rep.rule('R02.f', 'Core::resolve reports a rejected resolution as an Err value on every path (no unwrap, no assertion)', floor=2)
    fs = [f for f in core.built if f.name == 'resolve' and f.kind == 'AssocFn' and path_matches(f.assoc.get('self_adt'), 'crux_core::core::Core')]
    if len(fs) != 1:
        rep.missing('R02.f', 'Core::resolve')
        return
    f = fs[0]
    calls = [(bb, t) for bb, t in f.calls('crux_core::core::request::Request::resolve')]
    if len(calls) != 1:
        rep.bad('R02.f', 'shape', 'Core::resolve no longer calls Request::resolve exactly once')
        return
    bb, t = calls[0]
    ok, why = failure_reaches_error(f, t['d']['l'], allow_panic=False)
    # an inspection such as `is_ok()` feeding an assertion is not propagation
    inspected = [s for s in flows_to(f, t['d']['l']) if s[0] == 'callarg' and last_seg(s[2].get('callee') or '') in
                 ('is_ok', 'is_err', 'unwrap', 'expect', 'is_ok_and', 'is_err_and')]
    rep.expect('R02.f', not inspected, 'Core::resolve|not-asserted', 'the result of Request::resolve is only propagated with `?`',
               'Core::resolve inspects the result of Request::resolve with %s before propagating it (a debug_assert!): in builds with '
               'debug assertions a second resolution of a one-shot request panics instead of being rejected with an error'
               % [last_seg(s[2]['callee']) for s in inspected])
    asserts = [(pb, k, d) for pb, k, d, pt in panic_sites(f) if k == 'panic']
    rep.expect('R02.f', not asserts, 'Core::resolve|no-panic', 'no panic!/assert! in Core::resolve',
               'Core::resolve can panic (%s)' % [d for _, _, d in asserts])
    prop_ok = any(s[0] == 'callarg' and call_matches(s[2], ['core::ops::try_trait::Try::branch']) for s in flows_to(f, t['d']['l'], whole_only=True))
    if not prop_ok:
        # the same by an explicit match: the Err the function returns is the Err of Request::resolve, and with that result being Err no
        # Ok is built for the return (finite-domain evaluation over the two variants of the result)
        errs = origins(f, {'l': 0, 'p': ['as Err', '.0']}, extra_identity=[('core::result::Result::map', 0)])   # map leaves an Err as it is
        same_err = bool(errs) and all(o.kind == 'call' and o.bb == bb and o.suffix == ['as Err', '.0'] for o in errs)
        oks = [b2 for b2, i2, s2 in f.stmts('assign') if s2['rv']['k'] == 'agg' and s2['rv'].get('adt') == 'core::result::Result' and s2['rv'].get('variant') == 'Ok'
               and s2['d']['l'] == 0 and not s2['d']['p']]
        reach = f.reachable_ps([bb], call_values=lambda b_, t_: ('V', 'core::result::Result', 1) if b_ == bb else None)
        # (whether a return is reached at all with an Err is the business of the no-panic clause above: the debug_assert! of C02-F1 sits here)
        prop_ok = same_err and not (set(oks) & reach)
    rep.expect('R02.f', prop_ok, 'Core::resolve|propagates', 'the ResolveError is returned through `?`',
               'Core::resolve no longer returns the ResolveError of a rejected resolution')


def check_deserializing(rep, core):
    fs = [f for f in core.built if f.name == 'deserializing' and f.kind == 'AssocFn']
    if len(fs) != 1:
        rep.missing('R02.b', 'Resolve::deserializing')
        return
    f = fs[0]
    adt = core.adts.get('crux_core::core::resolve::Resolve')
    vidx = {v['name']: v['idx'] for v in adt['variants']}
    top = None
    for bb, t in f.terms('switch'):
        for o in origins(f, t['a']):
            if o.kind == 'rvalue' and o.stmt['rv']['k'] == 'discr' and o.stmt['rv']['a']['l'] == 1:
                top = (bb, t)
    if top is None:
        rep.bad('R02.b', 'match', 'Resolve::deserializing no longer matches on self')
        return
    sb, st = top
    for name, idx in vidx.items():
        tgt = None
        for v, b in st['arms']:
            if v == idx:
                tgt = b
        if tgt is None:
            tgt = st['otherwise']
        others = [b for v, b in st['arms'] if b != tgt] + ([st['otherwise']] if st['otherwise'] != tgt else [])
        region = f.reachable([tgt]) - f.reachable(others)
        built = [s['rv']['variant'] for bb in region for s in f.blocks[bb]['st'] if s['k'] == 'assign' and s['rv']['k'] == 'agg'
                 and path_matches(s['rv'].get('adt'), 'crux_core::bridge::request_serde::ResolveSerialized')]
        rep.expect('R02.b', built == [name], 'arity|%s' % name, 'Resolve::%s becomes ResolveSerialized::%s' % (name, name),
                   'Resolve::deserializing maps %s to %s' % (name, built))
    # the two closures: the continuation is invoked once, and only with the Ok payload of the deserialiser — directly after `?`,
    # as the function given to map / and_then on the deserialiser's result, or inside a closure given to them
    n = 0
    for g in core.closures_of(f):
        ups = flatten_upvars(core, g)
        conts = [n_ for n_, ty_ in ups if ty_.startswith('alloc::boxed::Box<dyn')]
        others = [n_ for n_, ty_ in ups if not ty_.startswith('alloc::boxed::Box<dyn')]
        if len(conts) != 1 or not others or g.parent != f.path:
            continue
        n += 1
        cont = conts[0]

        def from_upvar(fn, operand, name):
            os = origins(fn, operand, through_casts=True)
            return bool(os) and all(o.kind == 'arg' and o.n == 1 and any(tok.lstrip('.').lstrip('^') == name for tok in o.suffix) for o in os)
        deser_calls = [(bb, t) for bb, t in g.calls(*CLOSURE_CALLS) if any(from_upvar(g, t['args'][0], o_) for o_ in others)]
        invocations = []
        ok = len(deser_calls) == 1
        if ok:
            db, dt = deser_calls[0]
            # A: called directly
            for bb, t in g.calls(*CLOSURE_CALLS):
                if from_upvar(g, t['args'][0], cont):
                    fed = False
                    for o in origins(g, t['args'][1]):
                        if o.kind == 'agg' and o.stmt['rv'].get('ak') == 'tuple':
                            inner = origins(g, o.stmt['rv']['ops'][0])
                            fed = bool(inner) and all(x.kind == 'call' and x.bb == db and (any(s_[0] == 'try' for s_ in x.steps) or x.suffix == ['as Ok', '.0']) for x in inner)
                    invocations.append(('direct', fed))
            # B / C: given to a combinator on the deserialiser's result
            for bb, t in g.calls('core::result::Result::map', 'core::result::Result::and_then'):
                on_deser = all(o.kind == 'call' and o.bb == db for o in origins(g, t['args'][0])) and bool(origins(g, t['args'][0]))
                if from_upvar(g, t['args'][1], cont):
                    invocations.append(('as-function', on_deser))
                else:
                    for o in origins(g, t['args'][1]):
                        if o.kind == 'agg' and o.stmt['rv'].get('ak') == 'closure':
                            h = core.by_exact(o.stmt['rv']['def'])
                            if h is None:
                                continue
                            for hb, ht in h.calls(*CLOSURE_CALLS):
                                if from_upvar(h, ht['args'][0], cont):
                                    fed = False
                                    for x in origins(h, ht['args'][1]):
                                        if x.kind == 'agg' and x.stmt['rv'].get('ak') == 'tuple':
                                            inner = origins(h, x.stmt['rv']['ops'][0])
                                            fed = bool(inner) and all(y.kind == 'arg' and y.n == 2 and not y.suffix for y in inner)
                                    invocations.append(('in-closure', fed and on_deser))
        rep.expect('R02.b', ok and len(invocations) == 1 and invocations[0][1], '%s|continuation' % keypath_noidx(g.kpath),
                   'the continuation is invoked once (%s) with the Ok payload of the deserialiser' % (invocations[0][0] if invocations else '-'),
                   'in %s the continuation is not invoked exactly once with the Ok payload of the deserialiser (%s)' % (g.path, invocations))
    if n < 2:
        rep.bad('R02.b', 'closures', 'expected the Once and the Many deserialising closures, found %d' % n)


def keypath_noidx(k):
    import re
    return re.sub(r'\{closure#\d+\}', '{closure}', k)


def flatten_upvars(core, g):
    """(name, type) of what a closure captures, a captured struct that did not exist when the rules were confirmed being replaced by its
    fields (named by the field, generic parameters replaced by the arguments the capture was instantiated with)"""
    from rules import inline
    from rules.props import c01
    known = inline.inventory().get('adts:' + core.name) or set()
    out = []
    for u in g.upvars:
        ty = u['ty']
        base = norm(ty.split('<')[0])
        a = core.adts.get(base)
        if a is None or a['kind'] != 'struct' or base in known or not known or ty.startswith('&'):
            out.append((u['name'], ty))
            continue
        args = c01.split_args(ty[ty.index('<') + 1:-1]) if '<' in ty and ty.endswith('>') else []
        sub = dict(zip(a.get('generics') or [], [x.strip() for x in args]))
        for fld in a['variants'][0]['fields']:
            fty = fld['ty']
            for gp, ga in sub.items():
                fty = re.sub(r'(?<![\w:])' + re.escape(gp) + r'(?![\w:])', lambda _m, _a=ga: _a, fty)
            out.append((fld['name'], fty))
    return out


def flatten_caps(core, caps, _depth=0):
    """captured (name, type) pairs with a captured struct of the crate replaced by its fields (a closure whose state was moved into a
    struct that did not exist when the rules were confirmed captures the same things)"""
    from rules import inline
    known = inline.inventory().get('adts:' + core.name) or set()
    if not known:
        return [(n, norm(t)) for n, t in caps]
    out = []
    for name, ty in caps:
        a = core.adts.get(norm(ty.split('<')[0])) if _depth < 3 else None
        if a is not None and a['kind'] == 'struct' and not ty.startswith('&') and a['path'] not in known:
            out += flatten_caps(core, [('%s.%s' % (name, f['name']), f['ty']) for f in a['variants'][0]['fields']], _depth + 1)
        else:
            out.append((name, norm(ty)))
    return out


def check_private_channels(rep, core):
    sites = []
    for f in core.built:
        if f.j.get('exp') or '::testing' in f.npath:
            continue
        for bb, t in f.calls('crux_core::core::request::Request::resolves_once', 'crux_core::core::request::Request::resolves_many_times'):
            sites.append((f, bb, t))
    if len(sites) < 4:
        rep.bad('R02.c', 'sites', 'expected 4 request constructions with a resolve closure (2 command API, 2 legacy), found %d' % len(sites))
    for f, bb, t in sites:
        many = last_seg(t['callee']) == 'resolves_many_times'
        clo, clo_stmt = closure_arg(core, f, t, 1)
        key = '%s|%s' % (f.kpath, last_seg(t['callee']))
        if clo is None:
            rep.bad('R02.c', key + '|closure', 'resolve closure of %s not found' % f.path)
            continue
        caps = flatten_caps(core, [(u['name'], u['ty']) for u in clo.upvars])
        # --- R02.c
        chan_calls = [(b2, t2) for b2, t2 in f.calls('futures_channel::mpsc::unbounded', 'crux_core::capability::channel::channel')]
        arc_new = [(b2, t2) for b2, t2 in f.calls('alloc::sync::Arc::new') if 'SharedState' in t2['d']['t']]
        ok = False
        detail = ''
        if chan_calls and not arc_new:
            # command API: (sender, receiver) = mpsc::unbounded(); sender only in the closure, receiver only in the future
            cb, ct = chan_calls[0]
            sender_caps = [c for c in caps if 'Sender' in c[1]]
            sender_ops = [o for o in clo_stmt['rv']['ops']]
            from_chan = all(any(x.kind == 'call' and x.bb == cb and '.0' in x.suffix for x in origins(f, o)) for o in sender_ops)
            clones = [1 for b3, t3 in f.calls('core::clone::Clone::clone') if any(
                x.kind == 'call' and x.bb == cb and '.0' in x.suffix for x in origins(f, t3['args'][0]))]
            recv_to_future = False
            for b3, t3 in f.calls('crux_core::command::context::ShellRequest::new', 'crux_core::command::context::ShellStream::new'):
                if any(x.kind == 'call' and x.bb == cb and '.1' in x.suffix for x in origins(f, t3['args'][1])):
                    recv_to_future = True
            ok = len(chan_calls) == 1 and len(caps) == 1 and len(sender_caps) == 1 and from_chan and not clones and recv_to_future
            detail = 'closure captures %s; sender cloned %d time(s); receiver to future: %s' % (caps, len(clones), recv_to_future)
        elif arc_new:
            weak = [c for c in caps if c[1] == 'alloc::sync::Weak']
            strong = [c for c in caps if c[1] == 'alloc::sync::Arc']
            allowed_extra = [c for c in caps if 'capability::channel::Sender' in c[1]] if many else []
            ok = len(arc_new) == 1 and len(weak) == 1 and not strong and len(caps) == 1 + len(allowed_extra)
            if many:
                ok = ok and len(chan_calls) == 1 and len(allowed_extra) == 1
            # the future returned owns the strong reference
            ret = origins(f, {'l': 0, 'p': []})
            owns = any(o.kind == 'agg' and any(x.kind == 'call' and x.bb == arc_new[0][0] for x in origins(f, o.stmt['rv']['ops'][0]))
                       for o in ret if o.kind == 'agg')
            ok = ok and owns
            detail = 'closure captures %s; the returned future owns the Arc: %s' % (caps, owns)
        rep.expect('R02.c', ok, key + '|private', detail,
                   '%s: the response channel/state is not private to this request (%s)' % (f.path, detail))
        # --- R02.d / R02.e inside the closure (and its nested closures)
        bodies = [clo] + core.closures_of(clo)
        delivered = False
        for g in bodies:
            for b3, t3 in g.calls('futures_channel::mpsc::UnboundedSender::unbounded_send', 'crux_core::capability::channel::Sender::send'):
                srcs = origins(g, t3['args'][1])
                if srcs and all(x.kind == 'arg' and x.n == 2 and not x.suffix for x in srcs):
                    delivered = True
            for b3, i3, s3 in g.stmts('assign'):
                if s3['d']['p'] and s3['d']['p'][-1] == '.result' and s3['rv']['k'] == 'agg' and s3['rv'].get('variant') == 'Some':
                    srcs = origins(g, s3['rv']['ops'][0])
                    if srcs and all(x.kind == 'arg' and x.n == 2 and not x.suffix for x in srcs):
                        delivered = True
                if s3['d']['p'] and s3['d']['p'][-1] == '.result' and s3['rv']['k'] == 'use':
                    for o in origins(g, s3['rv']['a']):
                        if o.kind == 'agg' and o.stmt['rv'].get('variant') == 'Some':
                            srcs = origins(g, o.stmt['rv']['ops'][0])
                            if srcs and all(x.kind == 'arg' and x.n == 2 and not x.suffix for x in srcs):
                                delivered = True
        rep.expect('R02.d', delivered, key + '|delivered', 'the closure\'s parameter is moved into the send / result slot untouched',
                   'resolve closure of %s no longer delivers its argument unchanged' % f.path)
        # --- R02.e
        unwraps = [(g, b3, k) for g in bodies for (b3, k, d, t3) in panic_sites(g)
                   if k in ('unwrap', 'expect') and not ('PoisonError' in (t3['args'][0].get('t') or ''))]
        if many:
            # Err must be able to reach the return value when the consumer is gone
            err_ret = False
            for g in bodies:
                for b3, i3, s3 in g.stmts('assign'):
                    if s3['rv']['k'] == 'agg' and s3['rv'].get('adt') == 'core::result::Result' and s3['rv']['variant'] == 'Err':
                        err_ret = True
                for b3, t3 in g.calls('core::result::Result::map_err', 'core::option::Option::ok_or', 'core::option::Option::ok_or_else',
                                      'core::ops::try_trait::FromResidual::from_residual'):
                    err_ret = True
            discarded = False
            for g in bodies:
                for b3, t3 in g.calls('futures_channel::mpsc::UnboundedSender::unbounded_send'):
                    sinks = flows_to(g, t3['d']['l'], whole_only=True)
                    if sinks and all(s[0] == 'drop' for s in sinks):
                        discarded = True
            rep.expect('R02.e', err_ret and not discarded and not unwraps, key + '|reports-closed',
                       'a failed delivery reaches the closure\'s Err return',
                       'stream resolve closure of %s %s' % (f.path, 'discards the result of the send' if discarded else
                                                            'cannot return Err' if not err_ret else 'unwraps'))
        else:
            rep.expect('R02.e', not unwraps, key + '|no-unwrap', 'the send result may be discarded but is never unwrapped',
                       'one-shot resolve closure of %s unwraps (%s): a late response would panic' % (f.path, [(g.path, k) for g, b3, k in unwraps]))


def thorough_extra(ctx, rep):
    from rules import witness
    witness.report(rep, 'W02')
