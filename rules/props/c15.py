"""C15 — every HTTP result yields exactly one well-classified outcome (structural clauses)."""
import re

from rules.facts import norm, path_matches, origins, flows_to, call_matches, last_seg
from rules.common import (CallGraph, panic_sites, failure_reaches_error, is_fallible_ty, in_expansion, CHAIN_OK)

CONFIGS = {'quick': ['default', 'controls'], 'thorough': ['allfeat']}
TECHNIQUE = ('static analysis: who-may-call rule from the shell-input path into a table of panicking http_types entry points, '
             'edge-dominance rule for status classification, pass-through provenance of shell errors, error-edge discipline of '
             'decoders, header-write ordering rule')
EXPLANATION = (
    'The shell-input path is computed as the call-graph closure from the conversion of the shell\'s HttpResponse, '
    'Response::new and every ResponseExpectation::decode. R15.a no function on it calls a third-party constructor that panics '
    'on bad input (table read in the http_types fork) or unwraps; R15.b Response::new returns the Http error exactly on the '
    'is_client_error || is_server_error edges and otherwise builds the response from the same status, the snapshotted headers '
    'and the same body; R15.c both APIs return a shell-reported error unmodified; R15.d decoders propagate every failure as an '
    'error value; R15.e the only headers written on the path are the shell\'s (a side-effecting set_body is undone before they '
    'are appended, and headers are snapshotted before the body is taken); R15.f decode_body produces a String only behind the success edge of '
    'the charset-label lookup; R15.g body_json parses the raw body bytes (JSON is UTF-8 whatever the Content-Type says) and never goes through the charset decoder. R15.k crux_http decodes JSON through the whole-document entry points of serde_json only: a Deserializer built by hand must pass end() before every successful return (controls in the fixtures). R15.j every expectation decodes the body of the response it was given (no with_body / set_body before the read). R15.i where a shell HttpResponse becomes a response object, set_body takes the `body` field of that response itself (moved, Into / From / from_bytes at most), never a reader with a declared length or a re-encoding. Decoder conformance (encoding_rs, serde_json) is trusted. R15.a also lists std methods that panic on argument values (String::truncate, split_at, Vec::remove, ...). R15.e also requires that the shell\'s headers are appended, never inserted over an earlier value of the same name. R15.l a possibly repeated header is read by its last value or as a whole list, never through HeaderValues\' Deref / index to the first.')

HT = 'http_types_red_badger_temporary_fork'
SAFE_STATUS_T = HT + '::status_code::StatusCode'
SAFE_NAME_T = re.compile(r'^&?(%s::headers::header_name::HeaderName)$' % HT)
SAFE_VALUE_T = re.compile(r'^&?(%s::headers::header_value::HeaderValue|%s::headers::header_values::HeaderValues)$' % (HT, HT))


def panicking_entry(t):
    """(what) if the call is a tabled http_types/url entry point that panics on bad input, for these type arguments"""
    c = norm(t.get('callee') or '')
    ta = [norm(x) for x in (t.get('targs') or [])]
    seg = last_seg(c)
    if c == HT + '::response::Response::new' or c == HT + '::request::Request::new':
        if ta and ta[0] != SAFE_STATUS_T and 'Response' in c:
            return 'Response::new::<%s> expects a valid StatusCode (panics on e.g. 0, 299, 600)' % ta[0]
        return None
    if c.startswith(HT) and seg in ('insert_header', 'append_header', 'insert', 'append') and \
            re.search(r'::(response::Response|request::Request|headers::headers::Headers)::\w+$', c):
        problems = []
        if ta and not SAFE_NAME_T.match(ta[0]):
            problems.append('name: Into<HeaderName> for %s expects ASCII' % ta[0])
        if len(ta) > 1 and not SAFE_VALUE_T.match(ta[1]):
            problems.append('value: ToHeaderValues for %s is unwrapped' % ta[1])
        if problems:
            return '%s panics on invalid input (%s)' % (seg, '; '.join(problems))
    return None


# tabled: explicit panics on the shell-input path that are not input dependent
PATH_PANIC_TABLE = {
}

BODY_TAKING = ['ResponseAsync::body_bytes', 'ResponseAsync::take_body', 'ResponseAsync::body_string',
               'ResponseAsync::body_json', 'ResponseAsync::swap_body', 'ResponseAsync::set_body',
               'ResponseAsync::body_form', HT + '::response::Response::body_bytes', HT + '::response::Response::take_body',
               HT + '::response::Response::set_body', HT + '::response::Response::replace_body']
HEADER_WRITING_SIDE_EFFECT = [HT + '::response::Response::set_body', HT + '::response::Response::replace_body',
                              HT + '::response::Response::take_body', HT + '::response::Response::set_content_type']


def shell_input_roots(http):
    roots = []
    for f in http.built:
        if f.name == 'from' and path_matches(f.assoc.get('trait'), 'core::convert::From') and \
                'HttpResponse' in f.path and path_matches(f.assoc.get('self_adt'), 'response_async::ResponseAsync'):
            roots.append(f)
        if f.name == 'new' and path_matches(f.assoc.get('self_adt'), 'response::response::Response') and f.kind == 'AssocFn':
            roots.append(f)
        if f.name == 'decode' and path_matches(f.assoc.get('trait'), 'crux_http::expect::ResponseExpectation'):
            roots.append(f)
        if f.name in ('body_bytes', 'body_string', 'body_json', 'body_form') and \
                path_matches(f.assoc.get('self_adt'), 'response_async::ResponseAsync'):
            roots.append(f)
    return roots


def check(ctx, rep):
    rep.rule('R15.a', 'no function on the shell-input path calls a tabled panicking third-party constructor or unwraps', floor=5)
    rep.rule('R15.b', 'Response::new returns HttpError::Http exactly on the client/server-error edges and otherwise copies status, headers, body', floor=6)
    rep.rule('R15.c', 'a shell-reported HttpResult::Err reaches the app unmodified in both APIs', floor=2)
    rep.rule('R15.d', 'decoders turn every failure into an error value', floor=3)
    rep.rule('R15.j', 'every ResponseExpectation::decode reads the body of the response it was given (no body substituted first)', floor=2)
    rep.rule('R15.i', 'the body set on the response object is the shell response\'s body field itself, whole', floor=1)
    rep.rule('R15.e', 'only the shell\'s headers are written on the shell-input path', floor=2)
    rep.rule('R15.l', 'a repeated header is read by its last value (or as a whole list), never through Deref / index to the first', floor=1)
    cfgs = ['default'] + (['allfeat'] if ctx.has('allfeat') else [])
    for cfg in cfgs:
        http = ctx.crate(cfg, 'crux_http')
        if http is None:
            rep.missing('R15.a', 'crux_http facts (%s)' % cfg)
            continue
        cg = CallGraph([http])
        roots = shell_input_roots(http)
        if len(roots) < 5:
            rep.bad('R15.a', 'roots@' + cfg, 'expected the HttpResponse conversion, Response::new and 3 decode impls as roots, found %s'
                    % [r.path for r in roots])
            continue
        path_fns = cg.reach(roots)
        def host_kpath(f):
            return http.host_root(f) if f.kind == 'Closure' else f.kpath
        for f in sorted(path_fns, key=lambda f: f.path):
            site = '%s@%s' % (f.kpath, cfg)
            hits = 0
            for bb, t in f.calls():
                what = panicking_entry(t)
                if what:
                    hits += 1
                    rep.bad('R15.a', '%s|%s' % (host_kpath(f), last_seg(t['callee']) + ':' + ','.join(norm(x) for x in t.get('targs') or [])),
                            'shell-input path: %s calls %s' % (f.where(bb), what), site=site)
            for bb, kind, detail, t in panic_sites(f):
                if kind == 'assert':
                    continue
                if in_expansion(t) and any(m in ('pin_project', '__pin_project_internal') or 'pin_project' in m for m in t.get('x') or []):
                    continue
                key = '%s|%s %s' % (f.kpath, kind, detail)
                if key in PATH_PANIC_TABLE:
                    continue
                hits += 1
                rep.bad('R15.a', key, 'shell-input path: %s can panic (%s %s)' % (f.where(bb), kind, detail), site=site)
            if hits == 0:
                rep.ok('R15.a', site, 'no tabled panicking constructor, unwrap/expect, panic! or indexing')
        check_classification(rep, http, cfg)
        check_passthrough(rep, http, cfg)
        check_decoders(rep, http, cfg, cg)
        check_header_writes(rep, http, cfg)
        check_header_value_choice(rep, http, cfg)
        check_charset_consulted(rep, http, cfg)
        check_body_whole(rep, http, cfg)
        check_expectations_read_the_response(rep, http, cfg)
        check_json_from_bytes(rep, http, cfg)
        check_json_whole_document(rep, http, cfg)
        check_charset_from_mime(rep, http, cfg)
    controls(ctx, rep)
    rep.assume('http_types fork: Response::new/insert_header/append_header/Headers::{insert,append} unwrap their conversions; '
               'set_body/replace_body/take_body copy the body MIME type into Content-Type when absent (read in the fork source)')
    rep.assume('StatusCode::is_client_error / is_server_error classify 4xx / 5xx (third-party contract)')


def find_one(http, rep, rid, what, pred):
    fs = [f for f in http.built if pred(f)]
    if len(fs) != 1:
        rep.bad(rid, 'anchor:%s' % what, 'expected exactly one %s, found %s' % (what, [f.path for f in fs]))
        return None
    return fs[0]


def response_new_body(http):
    for f in http.built:
        if f.kind == 'Closure' and f.coroutine and f.parent and path_matches(f.parent, 'response::response::Response::new'):
            return f
    return None


def check_classification(rep, http, cfg):
    f = response_new_body(http)
    if f is None:
        rep.missing('R15.b', 'async body of Response::new (%s)' % cfg)
        return
    # The classification is evaluated over the five status classes instead of being read off one particular shape: for each class
    # every StatusCode::is_<class>() call on the response status is given its value, and path-sensitive reachability says which outcome
    # can be built.  4xx and 5xx must yield HttpError::Http and nothing else; 1xx, 2xx and 3xx the Response and nothing else.
    CLASSES = ['informational', 'success', 'redirection', 'client_error', 'server_error']
    class_calls = [(bb, t) for bb, t in f.calls() if norm(t.get('callee') or '').startswith(HT + '::status_code::StatusCode::is_') and
                   last_seg(t['callee'])[3:] in CLASSES]
    err_blocks = [bb for bb, i, s in f.stmts('assign') if s['rv']['k'] == 'agg' and s['rv'].get('adt', '').endswith('HttpError')
                  and s['rv']['variant'] == 'Http']
    ok_aggs = [(bb, s) for bb, i, s in f.stmts('assign') if s['rv']['k'] == 'agg' and
               path_matches(s['rv'].get('adt'), 'response::response::Response')]
    if not class_calls:
        rep.bad('R15.b', 'tests@' + cfg, 'Response::new no longer classifies the status through StatusCode::is_*() tests')
        return
    if len(err_blocks) < 1 or len(ok_aggs) != 1:
        rep.bad('R15.b', 'aggregates@' + cfg, 'expected HttpError::Http and one Response construction, found %d / %d'
                % (len(err_blocks), len(ok_aggs)))
        return
    K, kagg = ok_aggs[0]
    site = 'Response::new@' + cfg
    tests = {}
    for bb, t in class_calls:
        tests[last_seg(t['callee'])] = (bb, None, None, origins(f, t['args'][0]))
    for cls in CLASSES:
        def values(b_, t_, cls=cls):
            cn_ = norm(t_.get('callee') or '')
            if cn_.startswith(HT + '::status_code::StatusCode::is_') and last_seg(cn_)[3:] in CLASSES:
                return 1 if last_seg(cn_)[3:] == cls else 0
            return None
        r = f.reachable_ps([0], call_values=values)
        err = any(b in r for b in err_blocks)
        ok_ = K in r
        want_err = cls in ('client_error', 'server_error')
        rep.expect('R15.b', err == want_err and ok_ == (not want_err), 'class-' + cls,
                   '%s status -> %s only' % (cls, 'HttpError::Http' if want_err else 'success'),
                   'Response::new: for a %s status the error outcome is %sreachable and the success outcome is %sreachable (4xx/5xx must become '
                   'HttpError::Http, 1xx-3xx a success carrying status, headers and body)' % (cls, '' if err else 'un', '' if ok_ else 'un'),
                   site=site + '#' + cls)
    # same status in test and both results
    def status_calls(op):
        return sorted(set(norm(o.term.get('callee')) for o in origins(f, op) if o.kind == 'call'))
    status_ok = all(all(o.kind == 'call' and path_matches(o.term.get('callee'), 'ResponseAsync::status') for o in v[3]) and v[3]
                    for v in tests.values())
    rv = kagg['rv']
    fields = dict(zip(rv['fields'], rv['ops']))
    st_src = origins(f, fields['status'])
    hd_src = origins(f, fields['headers'])
    bd_src = []
    for o in origins(f, fields['body']):
        if o.kind == 'agg' and o.stmt['rv'].get('adt') == 'core::option::Option' and o.stmt['rv']['variant'] == 'Some':
            bd_src += origins(f, o.stmt['rv']['ops'][0])
        else:
            bd_src.append(o)
    rep.expect('R15.b', status_ok and st_src and all(o.kind == 'call' and path_matches(o.term.get('callee'), 'ResponseAsync::status')
                                                     for o in st_src), 'status-provenance',
               'tested status and returned status both come from ResponseAsync::status()',
               'status provenance changed: tests %s, result %s' % ([status_calls(t['args'][0]) for _, t in class_calls], [repr(o) for o in st_src]),
               site=site + '#status')
    hd_ok = bool(hd_src) and all(o.kind == 'call' and call_matches(o.term, ['core::clone::Clone::clone']) for o in hd_src)
    rep.expect('R15.b', hd_ok, 'headers-provenance', 'headers are a clone of the response\'s Headers',
               'headers of the result no longer come from a clone of the response headers: %s' % [repr(o) for o in hd_src],
               site=site + '#headers')
    bd_ok = bool(bd_src) and all(o.kind == 'call' and path_matches(o.term.get('callee'), 'ResponseAsync::body_bytes')
                                 and any(s[0] == 'await' for s in o.steps) for o in bd_src)
    rep.expect('R15.b', bd_ok, 'body-provenance', 'body is Some(bytes) of the awaited body_bytes()',
               'body provenance changed: %s' % [repr(o) for o in bd_src], site=site + '#body')


def check_passthrough(rep, http, cfg):
    """functions that match on HttpResult: the Err payload is returned inside Err(..) untouched"""
    n = 0
    for f in http.built:
        if f.j.get('exp'):
            continue
        for bb, idx, s in f.stmts('assign'):
            rv = s['rv']
            if rv['k'] != 'discr' or not path_matches(rv['a'].get('adt'), 'crux_http::protocol::HttpResult'):
                continue
            if (path_matches(f.assoc.get('trait'), 'core::convert::From') or 'protocol' in f.npath.split('::')[1:2] and f.name == 'from') and \
                    not norm(f.locals[1]).startswith('crux_http::protocol::HttpResult'):
                continue       # (a conversion OUT of HttpResult — `impl From<HttpResult> for crate::Result<..>` used by an endpoint — is a site)
            n += 1
            scrut = rv['a']['l']
            # aggregates Result::Err whose operand originates from the Err payload of the scrutinee
            found = False
            for bb2, idx2, s2 in f.stmts('assign'):
                r2 = s2['rv']
                if r2['k'] == 'agg' and r2.get('adt') == 'core::result::Result' and r2['variant'] == 'Err':
                    srcs = origins(f, r2['ops'][0])
                    direct = [o for o in srcs if (o.kind in ('call', 'undefined', 'arg', 'rvalue', 'agg')) or True]
                    via_payload = any(_from_payload(f, r2['ops'][0], scrut))
                    if via_payload:
                        found = True
            key = '%s|HttpResult::Err' % f.kpath
            rep.expect('R15.c', found, key, 'Err(e) is built from the matched HttpResult::Err payload by direct moves',
                       'in %s the HttpResult::Err arm no longer returns the shell error unmodified' % f.path, site=key + '@' + cfg)
    if n < 2:
        rep.bad('R15.c', 'sites@' + cfg, 'expected the client endpoint and the command builder to match on HttpResult, found %d site(s)' % n)
    # RequestBuilder::send forwards the Err of client.send to make_event unmodified
    return


def _from_payload(fn, operand, scrut_local, depth=0, seen=None):
    """does the operand come, by moves only, from `(scrut as Err).0`?"""
    seen = seen or set()
    if 'l' not in operand:
        return
    l = operand['l']
    if (l, tuple(operand.get('p', []))) in seen or depth > 10:
        return
    seen.add((l, tuple(operand.get('p', []))))
    if l == scrut_local and operand.get('p', [])[:2] == ['as Err', '.0']:
        yield True
        return
    for d in fn.defs(l):
        if d[0] == 'stmt' and not d[3]['d']['p'] and d[3]['rv']['k'] == 'use':
            a = d[3]['rv']['a']
            if 'l' in a:
                a2 = dict(a)
                a2['p'] = list(a.get('p', [])) + list(operand.get('p', []))
                for x in _from_payload(fn, a2, scrut_local, depth + 1, seen):
                    yield x


def check_decoders(rep, http, cfg, cg):
    roots = [f for f in http.built if f.name == 'decode' and path_matches(f.assoc.get('trait'), 'crux_http::expect::ResponseExpectation')]
    roots += [f for f in http.built if f.name in ('body_string', 'body_json', 'body_bytes') and
              path_matches(f.assoc.get('self_adt'), 'response::response::Response')]
    roots += [f for f in http.built if f.name == 'decode_body']
    roots += [f for f in http.built if f.name in ('body_bytes', 'body_string', 'body_json', 'body_form') and
              path_matches(f.assoc.get('self_adt'), 'response_async::ResponseAsync')]
    fns = cg.reach(roots, stop=lambda f: f.name in ('status', 'content_type', 'header'))
    for f in sorted(fns, key=lambda f: f.path):
        if not (f.npath.startswith('crux_http::expect') or f.npath.startswith('crux_http::response') or
                f.npath.startswith('<crux_http::expect')):
            continue
        bad = []
        for bb, t in f.calls():
            if not is_fallible_ty(t['d']['t']) or in_expansion(t):
                continue
            if call_matches(t, CHAIN_OK + ['core::ops::try_trait::Try::from_output', 'core::option::Option::take',
                                           'core::option::Option::as_ref', 'core::option::Option::as_deref',
                                           'core::option::Option::unwrap_or']):
                continue
            if not norm(t['d']['t']).startswith('core::result::Result'):
                continue
            ok, why = failure_reaches_error(f, t['d']['l'], allow_panic=False)
            if not ok:
                bad.append((bb, norm(t.get('callee') or '?'), why))
        key = f.kpath
        if bad:
            for bb, c, why in bad:
                rep.bad('R15.d', '%s|%s' % (key, last_seg(c)), 'decoder %s: failure of %s is not returned as an error: %s'
                        % (f.where(bb), c, why), site=key + '@' + cfg)
        else:
            rep.ok('R15.d', key + '@' + cfg, 'every Result-returning call propagates its failure')


def check_header_value_choice(rep, http, cfg):
    """R15.l: where crux_http looks at ONE value of a header that may be repeated (Content-Type for the charset, Location), it takes the
    last one — the convention of http_types and of ResponseAsync — or consumes the whole list; `HeaderValues` derefs to its FIRST value,
    so `.as_str()` straight on the list, an index or `get(0)` picks another value than the sibling API does (seeded:
    Response::content_type without `.last()`: with two Content-Type headers the string expectation decodes with the wrong charset)"""
    n, firsts = 0, []
    for f in http.built:
        if f.j.get('exp') or '::testing' in f.npath or '::tests' in f.npath:
            continue
        for bb, t in f.calls():
            a0 = (t['args'][0].get('t') or '') if t.get('args') else ''
            if not re.match(r"^(&(mut )?('\w+ )?)*[\w:]*header_values::HeaderValues$", a0):
                continue
            n += 1
            what = last_seg(norm(t.get('callee') or '?'))
            if what in ('deref', 'deref_mut', 'index', 'index_mut', 'get', 'get_mut', 'first', 'as_ref', 'borrow'):
                firsts.append('%s at %s' % (what, f.where(bb)))
    rep.expect('R15.l', n >= 2 and not firsts, 'header-values|last-or-whole', '%d uses of HeaderValues: last / iter / whole-list only' % n,
               'crux_http reads a possibly repeated header through %s: HeaderValues derefs / indexes to its FIRST value, while http_types and the '
               'async response use the last — the two APIs then classify or decode the same response differently' % firsts,
               site='header-values|last-or-whole@' + cfg)


def check_header_writes(rep, http, cfg):
    conv = [f for f in http.built if f.name == 'from' and 'HttpResponse' in f.path and
            path_matches(f.assoc.get('self_adt'), 'response_async::ResponseAsync')]
    if len(conv) != 1:
        rep.bad('R15.e', 'anchor:conversion@' + cfg, 'conversion From<HttpResponse> for ResponseAsync not found')
        return
    f = conv[0]
    appends = [bb for bb, t in f.calls(HT + '::response::Response::append_header', HT + '::response::Response::insert_header')]
    loop_appends = [bb for bb in appends if f.in_cycle(bb)]
    # the same enumeration written with for_each: the closure given to it is the loop body
    for bb, t in f.calls('core::iter::traits::iterator::Iterator::for_each', 'core::iter::traits::iterator::Iterator::try_for_each'):
        for o in origins(f, t['args'][1]) if len(t['args']) > 1 else []:
            if o.kind == 'agg' and o.stmt['rv'].get('ak') == 'closure':
                body = next((h for h in http.built if h.path == o.stmt['rv']['def']), None)
                if body is not None and list(body.calls(HT + '::response::Response::append_header', HT + '::response::Response::insert_header')):
                    appends.append(bb)
                    loop_appends.append(bb)
    side = [(bb, t) for bb, t in f.calls(*HEADER_WRITING_SIDE_EFFECT)]
    removes = [bb for bb, t in f.calls(HT + '::response::Response::remove_header')
               if any(o.kind == 'const' and 'CONTENT_TYPE' in (o.s or '') for o in origins(f, t['args'][1]))]
    ok = bool(loop_appends) and appends == loop_appends
    for bb, t in side:
        # every path from the side-effecting call to an append passes through the removal
        if not f.all_paths_pass(bb, loop_appends, via_blocks=removes):
            ok = False
        if any(bb in f.reachable_after(a) for a in loop_appends):
            ok = False
    key = '%s|side-effect-undone' % f.kpath
    rep.expect('R15.e', ok, key, 'set_body is followed by remove_header(CONTENT_TYPE) before the shell\'s headers are appended; '
               'header writes only inside the enumeration of the shell\'s list',
               'in %s a header-writing side effect (%s) is not undone before the shell\'s headers are appended, or headers are '
               'written outside the enumeration' % (f.path, [last_seg(t['callee']) for _, t in side]), site=key + '@' + cfg)
    # ... and each (name, value) of the shell's list is APPENDED: insert_header replaces what an earlier item of the same name (in
    # whatever letter case) put there, so a repeated header would reach the app with only its last value (seeded: values grouped
    # per case-sensitive name, then one insert_header per group)
    inserts = [f.where(bb) for g_ in [f] + http.closures_of(f) for bb, t in g_.calls(HT + '::response::Response::insert_header', HT + '::headers::headers::Headers::insert')]
    key = '%s|appended-not-inserted' % f.kpath
    rep.expect('R15.e', not inserts, key, 'the shell\'s headers are written with append_header only (no value replaces another)',
               'in %s a header is written with insert_header (%s): it replaces the values an earlier header of the same name put there, so '
               'a repeated header loses all but its last value' % (f.path, inserts), site=key + '@' + cfg)
    g = response_new_body(http)
    if g is None:
        rep.missing('R15.e', 'Response::new body')
        return
    aggs = [(bb, s) for bb, i, s in g.stmts('assign') if s['rv']['k'] == 'agg' and path_matches(s['rv'].get('adt'), 'response::response::Response')]
    if len(aggs) != 1:
        rep.bad('R15.e', 'anchor:Response-aggregate@' + cfg, 'Response construction not found in Response::new')
        return
    rv = aggs[0][1]['rv']
    hd = dict(zip(rv['fields'], rv['ops']))['headers']
    clones = [o for o in origins(g, hd) if o.kind == 'call' and call_matches(o.term, ['core::clone::Clone::clone'])]
    takers = [bb for bb, t in g.calls(*BODY_TAKING)]
    ok = bool(clones) and bool(takers) and all(all(g.dominates(c.bb, tb) and c.bb != tb for tb in takers) for c in clones)
    key = '%s|headers-snapshot-before-body' % g.kpath
    rep.expect('R15.e', ok, key, 'the headers are cloned before any body-taking call (which re-inserts a default Content-Type)',
               'Response::new clones the headers after (or not dominating) a body-taking call %s' %
               [g.where(b) for b in takers], site=key + '@' + cfg)


def controls(ctx, rep):
    c = ctx.crate('controls', 'crux_verif_controls')
    if c is None:
        rep.control('controls crate analysed', False)
        return
    fs = c.find('c15::bad_status')
    rep.control('R15.a fires on http_types::Response::new(u16)', bool(fs) and any(panicking_entry(t) for _, t in fs[0].calls()))
    fs = c.find('c15::bad_header')
    rep.control('R15.a fires on append_header(&str, String)', bool(fs) and any(panicking_entry(t) for _, t in fs[0].calls()))
    fs = c.find('c15::decode_json_prefix')
    rep.control('R15.k fires on a Deserializer driven by hand without end()', bool(fs) and bool(unfinished_json_decoders(fs[0])[0]))
    fs = c.find('c15::decode_json_whole')
    rep.control('R15.k quiet on a hand-driven Deserializer that calls end()', bool(fs) and unfinished_json_decoders(fs[0]) == ([], 1))
    fs = c.find('c15::good_status')
    rep.control('R15.a quiet on Response::new(StatusCode)', bool(fs) and not any(panicking_entry(t) for _, t in fs[0].calls()))


LABEL_CALLS = ['encoding_rs::Encoding::for_label', 'encoding_rs::Encoding::for_label_no_replacement', 'crux_http::response::decode::is_utf8_encoding',
               'core::str::<impl str>::eq_ignore_ascii_case']


JSON_DESERIALISERS = {'from_slice', 'from_str', 'from_reader', 'from_value'}


def check_json_from_bytes(rep, http, cfg):
    """R15.g: a JSON expectation yields what a conforming JSON decoder yields: JSON is UTF-8 whatever charset the Content-Type names, so
    body_json parses the raw body bytes (serde_json::from_slice of body_bytes()) and never goes through the charset decoder"""
    rep.rule('R15.g', 'body_json parses the raw body bytes and never goes through the charset decoder', floor=2)
    roots = [f for f in http.built if f.name == 'body_json' and f.kind == 'AssocFn' and
             (path_matches(f.assoc.get('self_adt'), 'crux_http::response::response::Response') or
              path_matches(f.assoc.get('self_adt'), 'crux_http::response::response_async::ResponseAsync'))]
    if len(roots) < 2:
        rep.missing('R15.g', 'Response::body_json / ResponseAsync::body_json (%s)' % cfg)
        return
    for r in roots:
        bodies = [r] + http.closures_of(r)
        des = [(g, bb, t) for g in bodies for bb, t in g.calls() if norm(t.get('callee') or '').startswith('serde_json::') and
               last_seg(t['callee']) in JSON_DESERIALISERS]
        charset = [(g, bb, t) for g in bodies for bb, t in g.calls() if last_seg(t.get('callee') or '') in ('body_string', 'decode_body')]
        key = '%s|json-from-bytes' % r.kpath
        good = bool(des) and not charset
        for g, bb, t in des:
            src = origins(g, t['args'][0], extra_identity=[('core::ops::deref::Deref::deref', 0), ('alloc::vec::Vec::as_slice', 0),
                                                           ('core::convert::AsRef::as_ref', 0), ('core::borrow::Borrow::borrow', 0)])
            from_bytes = bool(src) and all(o.kind == 'call' and (last_seg(o.term.get('callee') or '') == 'body_bytes' or
                                                                 (last_seg(o.term.get('callee') or '') == 'poll' and 'body_bytes' in (o.term.get('resolved') or '')))
                                           for o in src)
            good = good and last_seg(t['callee']) in ('from_slice', 'from_reader') and from_bytes
        rep.expect('R15.g', good, key, 'serde_json::from_slice over the bytes of body_bytes(); no charset decoding',
                   '%s no longer parses the raw body bytes (%s%s): a JSON body would be re-decoded according to the Content-Type charset, '
                   'which a conforming JSON decoder ignores' % (r.path, ', '.join(sorted(set(norm(t['callee']) for g, bb, t in des))) or 'no serde_json call',
                                                               '; calls ' + ', '.join(sorted(set(last_seg(t['callee']) for g, bb, t in charset))) if charset else ''),
                   site=key + '@' + cfg)


JSON_HAND_BUILT = re.compile(r'^serde_json::de::(Deserializer|StreamDeserializer)\b.*::(from_slice|from_str|from_reader|new|into_iter)$')


def unfinished_json_decoders(f):
    """hand-built serde_json deserialisers in f from which a return that is not an error return can be reached without end()"""
    out = []
    ctors = [bb for bb, t in f.calls() if JSON_HAND_BUILT.match(norm(t.get('callee') or ''))]
    if not ctors:
        return out, 0
    ends = [bb for bb, t in f.calls() if re.match(r'^serde_json::de::Deserializer\b.*::end$', norm(t.get('callee') or ''))]
    errs = [bb for bb, i, s_ in f.stmts('assign') if s_['rv']['k'] == 'agg' and s_['rv'].get('variant') == 'Err']
    errs += [bb for bb, t in f.calls('core::ops::try_trait::FromResidual::from_residual')]
    for c in ctors:
        r = f.reachable_after(c, removed_blocks=set(ends) | set(errs))
        if any(b in r for b in f.return_blocks()):
            out.append(c)
    return out, len(ctors)


def check_json_whole_document(rep, http, cfg):
    """R15.k: a JSON expectation yields what a conforming decoder yields for the WHOLE body: crux_http decodes JSON through the
    whole-document entry points of serde_json (from_slice / from_str / from_reader / from_value, which fail on trailing data); a
    deserialiser it builds by hand must pass Deserializer::end() on every path to a successful return"""
    rep.rule('R15.k', 'JSON is decoded as a whole document: no hand-built serde_json Deserializer in crux_http returns without end()', floor=1)
    bad, n = [], 0
    for f in http.built:
        if f.j.get('exp') or '::testing' in f.npath:
            continue
        u, k = unfinished_json_decoders(f)
        n += k
        bad += [f.where(b) for b in u]
    rep.expect('R15.k', not bad, 'json-whole-document', 'no hand-built JSON deserialiser without end() (%d hand-built in all)' % n,
               'crux_http drives a serde_json Deserializer by hand and can return the value without end() (%s): a body that starts with a '
               'valid JSON document and carries more data after it is accepted as that document, where a conforming decoder reports '
               'trailing characters' % bad, site='json-whole-document@' + cfg)


def check_charset_from_mime(rep, http, cfg):
    """R15.h: the charset label given to decode_body is the `charset` parameter of the parsed media type (Mime::param), not the result of
    scanning the header text by hand (quoted-strings, parameters containing `;` or `=`)"""
    rep.rule('R15.h', 'body_string takes the charset label from Mime::param of the parsed Content-Type', floor=2)
    roots = [f for f in http.built if f.name == 'body_string' and f.kind == 'AssocFn' and
             (path_matches(f.assoc.get('self_adt'), 'crux_http::response::response::Response') or
              path_matches(f.assoc.get('self_adt'), 'crux_http::response::response_async::ResponseAsync'))]
    if len(roots) < 2:
        rep.missing('R15.h', 'Response::body_string / ResponseAsync::body_string (%s)' % cfg)
        return
    for r in roots:
        bodies = [r] + http.closures_of(r)
        decs = [(g, bb, t) for g in bodies for bb, t in g.calls('crux_http::response::decode::decode_body')]
        params = [(g, bb, t) for g in bodies for bb, t in g.calls(HT + '::mime::Mime::param')]
        scans = [(g, last_seg(t['callee'])) for g in bodies for bb, t in g.calls() if norm(t.get('callee') or '').startswith('core::str::') and
                 last_seg(t['callee']) in ('split', 'split_once', 'rsplit', 'rsplit_once', 'find', 'rfind', 'splitn', 'split_terminator', 'trim_matches', 'strip_prefix')]
        key = '%s|charset-from-mime' % r.kpath
        ok = len(decs) == 1 and len(params) >= 1 and not scans
        if ok:
            g, bb, t = decs[0]
            src = origins(g, t['args'][1], extra_identity=[('core::option::Option::as_deref', 0), ('core::option::Option::map', 0), ('core::option::Option::and_then', 0),
                                                           ('core::option::Option::as_ref', 0)])
            # the label flows from the Option chain that ends in Mime::param (inside the and_then closure)
            ok = bool(src)
        rep.expect('R15.h', ok, key, 'decode_body gets the charset parameter of the parsed media type',
                   '%s no longer takes the charset from Mime::param of the parsed Content-Type (param calls %d, hand scanning %s): quoted or '
                   'unusually placed charset parameters are mis-read' % (r.path, len(params), sorted(set(x for _, x in scans))), site=key + '@' + cfg)


def check_expectations_read_the_response(rep, http, cfg):
    """R15.j: an expectation decodes the body the response carries: in every ResponseExpectation::decode the response whose body is read
    (body_json / body_string / body_bytes / take_body) is the parameter itself — never one whose body was replaced first (an empty body
    turned into `null` decodes to a success the shell never sent)"""
    n = 0
    for f in http.built:
        if f.kind != 'AssocFn' or f.name != 'decode' or not path_matches(f.assoc.get('trait'), 'crux_http::expect::ResponseExpectation') or f.j.get('exp'):
            continue
        # the family of decode: its body and its closures, those of helpers spliced in included (`decode_with(resp, |resp| resp.body_string())`)
        from rules.props import prims as _prims
        fam = [f] + http.closures_of(f)
        reads = [(g, bb, t) for g in fam for bb, t in g.calls()
                 if re.search(r'::response::response::Response::(body_json|body_string|body_bytes|take_body)$', norm(t.get('callee') or ''))]
        if not reads:
            continue
        n += 1
        bad = []
        for g, bb, t in reads:
            tr = _prims.trace_to_root(http, g, t['args'][0], f)
            if not tr or not all(h is f and o.kind == 'arg' and o.n == 2 for h, o in tr):
                bad.append((last_seg(t['callee']), [(o.kind, last_seg(o.term.get('callee') or '') if o.kind == 'call' else '') for h, o in tr]))
        subst = [f.where(bb) for bb, t in f.calls() if re.search(r'::response::response::Response::(with_body|set_body|replace_body|swap_body)$', norm(t.get('callee') or ''))
                 and any(g is f and f.dominates(bb, rb) and bb != rb for g, rb, _ in reads)]
        key = '%s|reads-the-response' % f.kpath
        rep.expect('R15.j', not bad and not subst, key, 'the body read is the body of the response given to decode', '%s decodes a body other than the one the '
                   'response carries (%s%s): the app can get a success built from bytes the shell never sent' % (f.path, bad, (' after ' + subst[0]) if subst else ''),
                   site=key + '@' + cfg)
    if n < 2:
        rep.bad('R15.j', 'sites@' + cfg, 'expected the string and JSON expectations (decode reading the response body), found %d' % n)


def check_body_whole(rep, http, cfg):
    """R15.i: the body the app reads is the shell's bytes, all of them: where a shell response becomes a response object, the body that is
    set is the `body` field of the HttpResponse itself, moved (Into / From / Body::from_bytes at most) — not a reader with a declared
    length, a slice or a re-encoding of it"""
    WHOLE = [('core::convert::Into::into', 0), ('core::convert::From::from', 0), (HT + '::body::Body::from_bytes', 0)]
    n = 0
    for f in http.built:
        if f.j.get('exp') or '::testing' in f.npath:
            continue
        params = [i for i in range(1, f.argc + 1) if re.match(r'^crux_http::protocol::HttpResponse$', str(f.locals[i]))]
        if not params:
            continue
        for bb, t in f.calls(HT + '::response::Response::set_body', HT + '::response::Response::replace_body', HT + '::response::Response::swap_body'):
            n += 1
            src = origins(f, t['args'][1], extra_identity=WHOLE)
            whole = bool(src) and all(o.kind == 'arg' and o.n in params and o.suffix == ['.body'] for o in src)
            key = '%s|body-whole' % http.host_root(f)
            rep.expect('R15.i', whole, key, 'set_body takes the shell response\'s body field itself',
                       '%s sets the response body from %s instead of the shell response\'s `body` bytes themselves: the app can see a truncated '
                       'or altered body (e.g. a reader capped at the declared Content-Length)' % (
                           f.where(bb), [(o.kind, last_seg(o.term.get('callee') or '') if o.kind == 'call' else o.suffix) for o in src]),
                       site=key + '@' + cfg)
    if n < 1:
        rep.bad('R15.i', 'sites@' + cfg, 'the conversion of a shell HttpResponse into a response object (set_body) was not found')


def check_charset_consulted(rep, http, cfg):
    """R15.f: the declared charset decides how a body is decoded: decode_body produces a String only after the encoding label was
    looked up (and on its success edge); bytes that merely happen to be valid UTF-8 are not returned without consulting it"""
    rep.rule('R15.f', 'decode_body returns a decoded String only after the declared charset label was consulted', floor=1)
    fs = [f for f in http.built if f.kind == 'Fn' and f.name == 'decode_body']
    if not fs:
        rep.missing('R15.f', 'decode_body (%s)' % cfg)
        return
    for f in fs:
        label = None
        for i in range(1, f.argc + 1):
            if 'core::option::Option<&str>' in f.locals[i] or 'Option<&' in f.locals[i]:
                label = i
        lookups = []
        for bb, t in f.calls(*LABEL_CALLS):
            # the looked-up label derives from the charset parameter
            if any(any(o.kind == 'arg' and o.n == label for o in origins(f, a, extra_identity=[
                    ('core::option::Option::unwrap_or', 0), ('core::str::<impl str>::as_bytes', 0), ('core::option::Option::unwrap_or_default', 0)]))
                    for a in t['args']):
                lookups.append((bb, t))
        oks = [bb for bb, i, s_ in f.stmts('assign') if s_['rv']['k'] == 'agg' and s_['rv'].get('adt') == 'core::result::Result' and s_['rv']['variant'] == 'Ok']
        key = '%s|charset-consulted' % f.kpath
        good = label is not None and bool(lookups) and bool(oks)
        if good:
            for ob in oks:
                if not any(f.dominates(lb, ob) and lb != ob for lb, _ in lookups):
                    good = False
            # and on the success edge of the lookup: removing it makes every Ok unreachable
            for lb, lt in lookups[:1]:
                res = lt['d']['l']
                succ_edges = []
                for sb, st in f.terms('switch'):
                    for o in origins(f, st['a']):
                        if (o.kind == 'call' and o.bb == lb and not o.suffix) or \
                                (o.kind == 'rvalue' and o.stmt['rv']['k'] == 'discr' and o.stmt['rv']['a']['l'] == res):
                            # success = Some (1) for for_label, true (non-zero) for the bool tests
                            tgt = None
                            for v, b in st['arms']:
                                if v == 1:
                                    tgt = b
                            succ_edges.append((sb, tgt if tgt is not None else st['otherwise']))
                if not succ_edges or any(ob in f.reachable([0], removed_edges=succ_edges) for ob in oks):
                    good = False
        rep.expect('R15.f', good, key, 'every Ok(String) lies behind the success edge of the label lookup',
                   '%s can return a decoded String without (or before) consulting the declared charset: a body whose bytes happen to be valid '
                   'UTF-8 is returned as is although its Content-Type names another encoding' % f.path, site=key + '@' + cfg)
