"""C13 — finished work is released (structural clauses)."""
import re

from rules.facts import norm, path_matches, origins, flows_to, call_matches, last_seg
from rules.props import c01, c02, c06, c07

CONFIGS = {'quick': ['default', 'controls'], 'thorough': ['allfeat']}
TECHNIQUE = ('static analysis: insert/release pairing table over the four long-lived containers (path rules for the two task slabs, a '
             'typestate rule for the bridge registry, an unconditional-insert rule for the cleared-timer set), field-order rule on Core, '
             'container inventory')
EXPLANATION = (
    'A pairing table over the long-lived containers is derived from the facts and compared with the table confirmed by hand. R13.a the '
    'executor frees a task\'s slot on the Ready edge of its poll on every path and puts the future back on the Pending edge; R13.b '
    '(= C07 R07.b) the command removes and drops finished and cancelled tasks; R13.c the bridge registry is analysed as a typestate '
    '{Never, Once, Many}: transitions are read from ResolveSerialized::resolve, the removal predicate from resume, and each state is '
    'checked for a guaranteed release under the shell protocol (Once: one resume; Never: none; Many: any number) — Never and Many have '
    'none, which are recorded known findings; R13.d an insert into the cleared-timer set that is not tied to a live future has no '
    'guaranteed release (known finding); R13.e the fields of Core that hold user types are declared (and so dropped) before the executor '
    'and the channel receivers (R13.c also requires that every path from resolving a one-shot entry to the return of resume() passes the test that frees it, '
    'including the path on which resolve() returned an error); R13.f the long-lived containers of the runtime crates are exactly the tabled ones. Timely release of '
    'captured values for every program is not decided. R13.i every queue endpoint held by a runtime type is a tabled channel implementation (crossbeam, futures, crux\'s own wrapper) whose backlog is dropped when the receiving side goes. R13.j Command::then hands each operand by value to the call that hosts it, so a finished part is dropped before the next starts.')

CONTAINER_RX = re.compile(r'\b(slab::Slab|std::collections::hash::map::HashMap|std::collections::hash::set::HashSet|'
                          r'alloc::collections::btree::map::BTreeMap|alloc::collections::btree::set::BTreeSet|'
                          r'alloc::collections::vec_deque::VecDeque)<')
CONTAINER_TABLE = {
    'crux_core::capability::executor::QueuingExecutor.tasks': 'executor task slab: R13.a',
    'crux_core::command::Command.tasks': 'command task slab: R13.b',
    'crux_core::bridge::registry::ResolveRegistry.0': 'bridge registry: R13.c',
    'crux_http::config::Config.headers': 'client configuration headers: set once per client, never grows with history (unused today)',
}
STATIC_TABLE = {
    'crux_time::get_timer_id::COUNTER': 'a counter, not a container',
    'crux_time::CLEARED_TIMER_IDS': 'cleared-timer set: R13.d',
}


def check(ctx, rep):
    rep.rule('R13.a', 'the executor frees the slot of a finished task on every path and puts a pending future back', floor=2)
    rep.rule('R13.c', 'every state of a bridge registry entry has a guaranteed release under the shell protocol', floor=4)
    rep.rule('R13.d', 'every insert into the cleared-timer set is paired with a release', floor=2)
    rep.rule('R13.e', 'Core declares (drops) the user-typed fields before the executor and the channel receivers', floor=1)
    rep.rule('R13.f', 'the long-lived containers and interior-mutable statics are exactly the tabled ones', floor=5)
    core = ctx.crate('default', 'crux_core')
    time = ctx.crate('default', 'crux_time')
    if core is None or time is None:
        rep.missing('R13.a', 'crux_core / crux_time facts')
        return
    # ---- R13.h: a task parked on a dropped request is released only if the eviction test can see that nobody holds its waker: the
    # adaptors that keep waker clones of their own are used only where tabled (shared with C04)
    from rules.props import c04 as _c04
    rep.rule('R13.h', 'adaptors that keep clones of the task waker (flatten_unordered, buffer_unordered, select_all, ..) are used only where tabled', floor=1)
    _c04.check_waker_retaining_adaptors(rep, 'R13.h', core)
    # ---- R13.i: what is still QUEUED when a command, a context or the core goes away (a task that was spawned but never started, an
    # effect nobody collected, a waker) is released with it only because of how the queue implementation treats its backlog: crossbeam
    # and futures channels drop every queued message when the receiving side goes; other implementations (async-channel keeps its queue
    # until the last SENDER goes — and a queued task that captured its CommandContext owns such a sender: a cycle nothing breaks) do not.
    # Every queue endpoint held by a runtime type is one of the implementations whose behaviour was confirmed (seeded: the command's
    # spawn queue moved to async_channel "as a first step towards bounded spawn").
    rep.rule('R13.i', 'every queue endpoint held by a runtime type is a tabled channel implementation (backlog dropped with the receiving side)', floor=20)
    QUEUE_OK = ('crossbeam_channel::', 'futures_channel::', 'crux_core::capability::channel::')
    for crate_ in (core, time):
        for name_, adt_ in sorted(crate_.adts.items()):
            if '::testing' in name_ or '::tests' in name_:
                continue
            for v_ in adt_.get('variants', []):
                for fl_ in v_.get('fields', []):
                    ty_ = fl_.get('ty') or ''
                    heads = re.findall(r'([A-Za-z_][\w:]*?)(?:Unbounded|Bounded)?(?:Sender|Receiver)<', ty_)
                    for h_ in heads:
                        key_ = '%s.%s%s' % (name_, (v_.get('name') + '.') if adt_.get('kind') == 'enum' else '', fl_.get('name'))
                        rep.expect('R13.i', h_.startswith(QUEUE_OK), key_, 'endpoint of %s' % h_.rstrip(':'),
                                   'field %s : %s is an endpoint of a queue implementation outside the table %s: whether its backlog is dropped when the '
                                   'receiving side goes is not confirmed (async-channel, for one, keeps queued items until the last sender goes, '
                                   'and a queued task can own a sender of its own queue)' % (key_, ty_[:120], list(QUEUE_OK)))
    # ---- R13.j: a finished command does not outlive its finishing inside a sequence: Command::then gives each of its two operands BY
    # VALUE to the hosting call, so the first is consumed by the future that hosts it and dropped when that future completes — before the
    # second is hosted (seeded: both bound as locals and fed to one sink by `&mut`: the finished first command, and whatever its spawn queue
    # still holds, lives until the second ends)
    from rules.props import prims as _prims
    rep.rule('R13.j', 'Command::then hands each operand by value to the call that hosts it (a finished part is dropped before the next starts)', floor=1)
    roots_ = [r for r in core.built if r.kind == 'AssocFn' and r.name == 'then' and path_matches(r.assoc.get('self_adt'), 'crux_core::command::Command')
              and not r.assoc.get('trait')]
    if len(roots_) != 1:
        rep.missing('R13.j', 'Command::then')
    else:
        r_ = roots_[0]
        by_value = set()
        for g in [r_] + core.closures_of(r_):
            for bb, t in g.calls(_c04.HOST):
                a0 = t['args'][0]
                if (a0.get('t') or '').lstrip().startswith('&') or a0.get('o') != 'move':
                    continue
                for h, o in _prims.trace_to_root(core, g, a0, r_):
                    if h is r_ and o.kind == 'arg':
                        by_value.add(o.n)
        rep.expect('R13.j', by_value == {1, 2}, 'then|operands-consumed', 'self and other are each moved into the call that hosts them',
                   'Command::then no longer moves both operands into the calls that host them (moved: parameters %s): a part that has finished stays '
                   'alive inside the hosting task — with everything still queued in it — until the whole sequence ends' % sorted(by_value))
    # ---- R13.a
    f = c06.method(core, 'crux_core::capability::executor::QueuingExecutor', 'run_task')
    if f is None:
        rep.missing('R13.a', 'QueuingExecutor::run_task')
    else:
        polls = [(bb, t) for bb, t in f.calls('core::future::future::Future::poll')]
        from rules.common import Summaries
        sm13 = Summaries([core])
        removes = sm13.sites(f, ['slab::Slab::remove', 'slab::Slab::try_remove'], 'must')
        replaces = sm13.sites(f, ['core::option::Option::replace', 'core::option::Option::insert', 'core::option::Option::get_or_insert'], 'must')
        rets = f.return_blocks()
        ok1 = ok2 = False
        if len(polls) == 1:
            # finite-domain evaluation over the poll result (whatever tests it: is_pending(), is_ready(), a match)
            pb = polls[0][0]
            POLL_T = 'core::task::poll::Poll'
            ready = f.reachable_ps([pb], removed_blocks=removes, call_values=lambda b_, t_: ('V', POLL_T, 0) if b_ == pb else None)
            ready_all = f.reachable_ps([pb], call_values=lambda b_, t_: ('V', POLL_T, 0) if b_ == pb else None)
            pending = f.reachable_ps([pb], removed_blocks=replaces, call_values=lambda b_, t_: ('V', POLL_T, 1) if b_ == pb else None)
            pending_all = f.reachable_ps([pb], call_values=lambda b_, t_: ('V', POLL_T, 1) if b_ == pb else None)
            ok1 = bool(removes) and not (set(rets) & ready) and bool(set(rets) & ready_all) and not (set(removes) & pending_all)
            ok2 = bool(replaces) and not (set(rets) & pending) and bool(set(rets) & pending_all)
            # the removed index is the task id parameter
            for rb in removes:
                t = f.blocks[rb]['t']
                if not call_matches(t, ['slab::Slab::remove', 'slab::Slab::try_remove']):
                    continue
                src = origins(f, t['args'][1], through_casts=True, extra_identity=[('core::ops::deref::Deref::deref', 0)])
                if not (src and all(o.kind == 'arg' and o.n == 2 for o in src)):
                    ok1 = False
        rep.expect('R13.a', ok1, 'executor|ready-frees-slot', 'every path from the Ready edge to the return removes the slot of this task id',
                   'QueuingExecutor::run_task can return after a task finished without freeing its slab slot (or frees another id)')
        rep.expect('R13.a', ok2, 'executor|pending-puts-back', 'every path from the Pending edge puts the future back into its slot',
                   'QueuingExecutor::run_task can return after a Pending poll without putting the future back (the task would be lost)')
    # ---- R13.b
    c07.check(ctx, rep)
    # ---- R13.c
    adt_path = 'crux_core::bridge::request_serde::ResolveSerialized'
    fs = c02.find_method(core, adt_path, 'resolve')
    res = c06.method(core, 'crux_core::bridge::registry::ResolveRegistry', 'resume')
    reg = c06.method(core, 'crux_core::bridge::registry::ResolveRegistry', 'register')
    if len(fs) != 1 or res is None or reg is None:
        rep.missing('R13.c', 'ResolveSerialized::resolve / ResolveRegistry')
    else:
        table = c02.arity_table(core, fs[0], adt_path)
        trans = {}
        for s_name, summ in table.items():
            trans[s_name] = 'Never' if summ.get('writes_never_before_call') else s_name
        # states in which resume() removes the entry
        removes = [bb for bb, t in res.calls('slab::Slab::remove', 'slab::Slab::try_remove')]
        removable = set()
        vidx = {v['name']: v['idx'] for v in core.adts[adt_path]['variants']}
        for sb, st in res.terms('switch'):
            for o in origins(res, st['a']):
                if o.kind == 'rvalue' and o.stmt['rv']['k'] == 'discr' and path_matches(o.stmt['rv']['a'].get('adt'), 'request_serde::ResolveSerialized'):
                    for name, idx in vidx.items():
                        tgt = None
                        for v, b in st['arms']:
                            if v == idx:
                                tgt = b
                        if tgt is None:
                            tgt = st['otherwise']
                        if any(r in res.reachable_ps([tgt], removed_blocks=[sb]) and
                               r not in res.reachable_ps([0], removed_edges=[(sb, tgt)]) for r in removes):
                            removable.add(name)
        # release on every path: a one-shot entry that resume() resolves is released whatever resolve() returned (a response that does
        # not deserialise has consumed the one-shot all the same)
        rcalls = [bb for bb, t in res.calls('crux_core::bridge::request_serde::ResolveSerialized::resolve')]
        rets = res.return_blocks()
        tests = []
        for sb, st in res.terms('switch'):
            if any(o.kind == 'rvalue' and o.stmt['rv']['k'] == 'discr' and path_matches(o.stmt['rv']['a'].get('adt'), 'request_serde::ResolveSerialized')
                   for o in origins(res, st['a'])):
                tests.append((sb, st))

        def arm_of(st, name):
            return next((b for v, b in st['arms'] if v == vidx[name]), st['otherwise'])
        every_path = bool(rcalls)
        for rb in rcalls:
            once_feasible = all(rb in res.reachable_ps([arm_of(st, 'Once')], removed_blocks=[sb]) for sb, st in tests if res.dominates(sb, rb) and sb != rb)
            if not once_feasible:
                continue  # only Never / Many entries reach this call, and resolve() leaves those as they are (C09 R09.e)
            consumed = any(res.dominates(r, rb) and r != rb for r in removes)
            after = [(sb, st) for sb, st in tests if res.dominates(rb, sb) and sb != rb]
            tested = bool(after) and not any(x in res.reachable_after(rb, removed_blocks=[sb for sb, st in after]) for x in rets)
            frees = all(not any(x in res.reachable_ps([arm_of(st, 'Never')], removed_blocks=removes) for x in rets) for sb, st in after)
            every_path = every_path and (consumed or (tested and frees))
        rep.expect('R13.c', every_path, 'registry|release-on-every-path',
                   'every path from resolving a one-shot entry to the return passes the Never test that frees it (or the entry was taken out first)',
                   'ResolveRegistry::resume can return after resolving a one-shot entry without reaching the test that frees it (e.g. `?` on the '
                   'result of resolve: a response that fails to deserialise leaves the spent entry in the registry for ever)')
        # does register() store every effect's resolver, whatever its state?
        inserts = [bb for bb, t in reg.calls('slab::Slab::insert')]
        unconditional = bool(inserts) and all(r not in reg.reachable([0], removed_blocks=inserts) for r in reg.return_blocks())
        rep.expect('R13.c', bool(removable) and trans.get('Once') == 'Never', 'registry|typestate-read',
                   'transitions %s; removal in state(s) %s; register inserts unconditionally: %s' % (trans, sorted(removable), unconditional),
                   'the typestate of the bridge registry could not be read from the code (transitions %s, removable %s)' % (trans, sorted(removable)))
        # resumes the shell protocol sends per initial state: Never 0, Once 1, Many any number (possibly 0, and it stays resolvable)
        for state, resumes in (('Never', 0), ('Once', 1), ('Many', None)):
            key = 'registry|state %s|release' % state
            if not unconditional:
                rep.ok('R13.c', key, 'register does not store every resolver; state analysed at registration')
                continue
            if resumes == 0:
                released = False  # no resume ever comes: the removal in resume() is never reached
                why = 'a notification is never resolved, so resume() — the only place entries are removed — is never called for it'
            elif resumes == 1:
                after = trans[state]
                released = after in removable or state in removable
                why = 'at its one resolution the entry is %s -> %s, which resume() %s' % (state, after, 'removes' if released else 'keeps')
            else:
                after = trans[state]
                released = after in removable and after != state
                why = 'a stream entry stays %s after every resolution and resume() only removes %s' % (after, sorted(removable))
            rep.expect('R13.c', released, key, why, 'bridge registry entries registered in state %s are never released: %s' % (state, why))
    # ---- R13.d
    inserts = []
    removes = []
    for fn in time.built:
        if fn.j.get('exp'):
            continue
        for bb, t in fn.calls('std::collections::hash::set::HashSet::insert'):
            inserts.append((fn, bb, t))
        for bb, t in fn.calls('std::collections::hash::set::HashSet::remove', 'std::collections::hash::set::HashSet::take'):
            removes.append((fn, bb, t))
    rep.expect('R13.d', len(removes) >= 1 and all(path_matches(fn.assoc.get('trait'), 'core::future::future::Future') for fn, bb, t in removes),
               'cleared-set|release-site', 'ids are removed by TimerFuture::poll (the live future with that id)',
               'the cleared-timer set is no longer emptied by the polling timer future')
    for fn, bb, t in inserts:
        guarded = any(True for sb, st in fn.terms('switch') if fn.dominates(sb, bb) and sb != bb and bb not in fn.reachable([0], removed_blocks=[sb]) and
                      any(bb not in fn.reachable([0], removed_edges=[(sb, s2)]) for s2 in fn.succ(sb)))
        key = '%s|insert-tied-to-live-timer' % fn.kpath
        rep.expect('R13.d', guarded, key, 'the insert is conditional on the timer being live',
                   '%s inserts the id into the process-wide cleared-timer set unconditionally: clearing a timer that already fired (or '
                   'never existed) leaves its id there for ever' % fn.where(bb))
    if not inserts:
        rep.bad('R13.d', 'cleared-set|insert-site', 'no insert into the cleared-timer set found (rule needs review)')
    # ---- R13.e
    adt = core.adts.get('crux_core::core::Core')
    if adt is None:
        rep.missing('R13.e', 'struct Core')
    else:
        fields = adt['variants'][0]['fields']
        user = [i for i, fl in enumerate(fields) if re.search(r'(<A as crux_core::App>::(Model|Capabilities)|^A$)', fl['ty'])]
        internals = [i for i, fl in enumerate(fields) if re.search(r'(QueuingExecutor|channel::Receiver|CommandSpawner)', fl['ty'])]
        ok = bool(user) and bool(internals) and max(user) < min(internals)
        rep.expect('R13.e', ok, 'Core|field-order', 'user-typed fields %s precede %s' % ([fields[i]['name'] for i in user], [fields[i]['name'] for i in internals]),
                   'struct Core declares an internal (executor / receiver) before a user-typed field: user values dropped after the executor can '
                   'wake tasks that no longer exist')
    # ---- R13.f
    for name in ['crux_core', 'crux_http', 'crux_kv', 'crux_time', 'crux_platform']:
        c = ctx.crate('default', name)
        if c is None:
            continue
        for p, a in sorted(c.adts.items()):
            if '::testing' in p or a.get('exp'):
                continue
            for v in a['variants']:
                for fl in v['fields']:
                    if CONTAINER_RX.search(fl['ty']):
                        key = '%s.%s' % (p, fl['name'])
                        rep.expect('R13.f', key in CONTAINER_TABLE, key, 'tabled: %s' % CONTAINER_TABLE.get(key, ''),
                                   'new long-lived container %s : %s has no insert/release pairing row' % (key, fl['ty']))
        for s in c.statics:
            if s['freeze'] and not s['mutable']:
                continue
            p = norm(s['path'])
            rep.expect('R13.f', p in STATIC_TABLE, p, 'tabled: %s' % STATIC_TABLE.get(p, ''),
                       'new process-wide mutable static %s : %s has no pairing row' % (p, s['ty']))
    # R13.g: nothing keeps a dropped legacy request future alive: its resolve closure holds only a Weak to the shared state (shared with C05 R05.d)
    from rules.props import c05 as _c05
    rep.rule('R13.g', 'legacy shell futures and their resolve closures form no reference cycle (the closure holds a Weak)', floor=6)
    _c05.check_legacy_futures(rep, 'R13.g', 'R13.g', core)
    rep.assume('join_handle_wakers grows with the number of polls of a pending JoinHandle (noted, no rule)')
    rep.assume('slab reuses freed keys, so a released slot does not grow the slab')
