"""C18 — every timer has a unique id and at most one outcome (structural clauses)."""
import re

from rules.facts import norm, path_matches, origins, flows_to, call_matches, last_seg
from rules.props import c17

CONFIGS = {'quick': ['default', 'controls'], 'thorough': ['allfeat']}
TECHNIQUE = ('static analysis: single-counter / one-id-per-timer provenance rule, dominance rule for the early-clear check, provenance '
             'rule for the Clear request, sibling diff of notify_at / notify_after, compile-fail witnesses (thorough)')
EXPLANATION = (
    'R18.a the id counter is touched only by fetch_add with a non-zero constant; each of the four functions that build a NotifyAt / '
    'NotifyAfter request calls get_timer_id exactly once, outside any loop, and that one value flows into the request, into the handle '
    '/ TimerFuture and (command API) into the comparisons with the response id; R18.b in both command-API task bodies the try_recv on '
    'the clear channel dominates the creation of the shell request and its cleared edge returns Cleared without creating one; R18.c '
    'the Clear request is built from the id received on the clear channel, lies only behind the receiver arm, and is awaited before '
    'Cleared is returned; R18.d the two task bodies have the same callee sequence up to the request/response variant (tabled '
    'difference: one extra unreachable! in notify_after); R18.e Completed is reachable only along the edge on which the shell\'s answer is '
    'InstantArrived / DurationElapsed, and the late Cleared only along its Cleared answer. W18 witnesses (thorough): clear consumes the handle; the handle is not Clone. '
    'Interleavings of fire / clear / drop / late answers and the bias of select_biased! are not decided. R18.f the select between the shell\'s answer and the clear is biased: no pseudo-random start and the request arm is polled first. R18.i legacy Time::clear and TimerFuture::poll use one process-wide cleared set (the same static). R18.j TimerHandle::clear has no panic site and makes one send whose failure is discarded: a clear after the outcome is a no-op.')


def check(ctx, rep):
    rep.rule('R18.a', 'one counter; one get_timer_id per timer, and that id is the one used everywhere', floor=9)
    rep.rule('R18.b', 'a timer cleared before it was requested sends nothing', floor=2)
    rep.rule('R18.c', 'the Clear request carries the id received on the clear channel and is awaited', floor=2)
    rep.rule('R18.d', 'notify_at and notify_after agree up to the request / response variant', floor=1)
    rep.rule('R18.e', 'Completed is reported only for the shell\'s InstantArrived / DurationElapsed answer, the late Cleared only for its Cleared answer', floor=4)
    time = ctx.crate('default', 'crux_time')
    if time is None:
        rep.missing('R18.a', 'crux_time facts')
        return
    # ---- R18.a counter
    gid = [f for f in time.built if f.name == 'get_timer_id' and f.kind == 'Fn']
    if len(gid) != 1:
        rep.missing('R18.a', 'get_timer_id')
        return
    g = gid[0]
    at = [(bb, t) for bb, t in g.calls() if 'core::sync::atomic::' in norm(t.get('callee') or '')]
    ok = len(at) == 1 and last_seg(at[0][1]['callee']) == 'fetch_add' and (at[0][1]['args'][1].get('v') or 0) != 0 and \
        any(o.kind == 'const' and o.static for o in origins(g, at[0][1]['args'][0]))
    ret_ok = ok and all(o.kind == 'agg' and all(x.kind == 'call' and x.bb == at[0][0] for x in origins(g, o.stmt['rv']['ops'][0]))
                        for o in origins(g, {'l': 0, 'p': []}))
    rep.expect('R18.a', ok and ret_ok, 'get_timer_id', 'TimerId(COUNTER.fetch_add(non-zero)) on a static counter',
               'get_timer_id no longer returns the result of one fetch_add with a non-zero constant on its static counter')
    counter_static = None
    if ok:
        counter_static = [o.static for o in origins(g, at[0][1]['args'][0]) if o.kind == 'const'][0]
    others = []
    for f in time.built:
        if f is g:
            continue
        for bb, t in f.calls():
            if t['args'] and any(o.kind == 'const' and o.static == counter_static for a in t['args'] for o in origins(f, a)):
                others.append(f.where(bb))
    rep.expect('R18.a', not others, 'counter-private', 'the counter static is referenced only inside get_timer_id',
               'the timer id counter is also touched at %s' % others)
    # ---- sites that build NotifyAt / NotifyAfter
    sites = []
    for f in time.built:
        if f.j.get('exp'):
            continue
        for bb, i, s in f.stmts('assign'):
            rv = s['rv']
            if rv['k'] == 'agg' and path_matches(rv.get('adt'), 'crux_time::protocol::TimeRequest') and rv['variant'] in ('NotifyAt', 'NotifyAfter'):
                sites.append((f, bb, s))
    if len(sites) != 4:
        rep.bad('R18.a', 'request-sites', 'expected 4 constructions of NotifyAt/NotifyAfter (2 APIs x 2), found %d' % len(sites))
    for f, bb, s in sites:
        root = [r for r in time.built if r.path == f.root]
        if not root:
            # the body was lifted out of the function (a method of a private struct, a helper): the function it was spliced into
            hr = time.host_root(f)
            root = [r for r in time.built if r.kind != 'Closure' and r.kpath == hr]
        if not root:
            rep.bad('R18.a', '%s|root' % f.kpath, 'enclosing function not found')
            continue
        r = root[0]
        gets = [(b2, t2) for b2, t2 in r.calls('crux_time::get_timer_id')]
        nested = [x for x in time.closures_of(r) for _ in x.calls('crux_time::get_timer_id')]
        key = '%s|%s' % (r.kpath, s['rv']['variant'])
        one = len(gets) == 1 and not nested and not r.in_cycle(gets[0][0])
        rep.expect('R18.a', one, key + '|one-id', 'get_timer_id is called exactly once, outside any loop',
                   '%s calls get_timer_id %d time(s) (nested: %d): ids and timers are no longer one-to-one' % (r.path, len(gets), len(nested)))
        if not one:
            continue
        gb = gets[0][0]
        idop = dict(zip(s['rv']['fields'], s['rv']['ops']))['id']
        if f is r:
            same = all(o.kind == 'call' and o.bb == gb for o in origins(f, idop)) and bool(origins(f, idop))
        else:
            # follow the id through captures, closure parameters and struct fields back to the function
            from rules.props import prims as _pr
            tr = _pr.trace_to_root(time, f, idop, r)
            same = bool(tr) and all(h is r and o.kind == 'call' and o.bb == gb for h, o in tr)
        if not same and f is not r and f.root == r.path:
            names, calls = c17.param_names(f, idop, extra=[])
            # the captured variable must be initialised from the get_timer_id call in the root function
            same = False
            if len(names) == 1 and not calls:
                cap = names.pop()
                for b2, i2, s2 in r.stmts('assign'):
                    rv2 = s2['rv']
                    if rv2['k'] == 'agg' and rv2.get('ak') in ('closure', 'coroutine') and cap in (rv2.get('fields') or []):
                        op = rv2['ops'][rv2['fields'].index(cap)]
                        if all(o.kind == 'call' and o.bb == gb for o in origins(r, op)) and origins(r, op):
                            same = True
                # nested: root -> closure -> coroutine
                if not same:
                    for mid in time.closures_of(r):
                        for b2, i2, s2 in mid.stmts('assign'):
                            rv2 = s2['rv']
                            if rv2['k'] == 'agg' and rv2.get('ak') in ('closure', 'coroutine') and cap in (rv2.get('fields') or []):
                                op = rv2['ops'][rv2['fields'].index(cap)]
                                n2, c2 = c17.param_names(mid, op, extra=[])
                                if n2 == {cap} and not c2:
                                    same = True
        rep.expect('R18.a', same, key + '|request-id', 'the request id is the value returned by that get_timer_id call',
                   '%s: the id put into %s does not come from this timer\'s get_timer_id call' % (f.path, s['rv']['variant']))
        # the handle / TimerFuture gets the same id
        holders = []
        for b2, i2, s2 in r.stmts('assign'):
            rv2 = s2['rv']
            if rv2['k'] == 'agg' and rv2.get('ak') == 'adt' and last_seg(rv2['adt']) in ('TimerHandle', 'CompletedTimerHandle'):
                op = dict(zip(rv2['fields'], rv2['ops']))['timer_id']
                holders.append((last_seg(rv2['adt']), all(o.kind == 'call' and o.bb == gb for o in origins(r, op)) and bool(origins(r, op))))
        for b2, t2 in r.calls('crux_time::TimerFuture::new'):
            holders.append(('TimerFuture', all(o.kind == 'call' and o.bb == gb for o in origins(r, t2['args'][0]))))
        rep.expect('R18.a', bool(holders) and all(h[1] for h in holders), key + '|holder-id',
                   '%s carry the same id' % [h[0] for h in holders],
                   '%s: a handle / TimerFuture is built with another id than the request (%s)' % (r.path, holders))
    # ---- R18.b / R18.c / R18.d on the two command task bodies
    bodies = {}
    for f, bb, s in sites:
        if f.kind == 'Closure' and f.coroutine and 'command::Time' in time.host_root(f):
            bodies[s['rv']['variant']] = (f, bb, s)
    if set(bodies) != {'NotifyAt', 'NotifyAfter'}:
        rep.bad('R18.b', 'bodies', 'command-API task bodies not found: %s' % sorted(bodies))
        return
    # ---- R18.f: when the shell's answer and the clear are both ready, the answer wins: the race is a *biased* select whose first
    # arm polls the shell request (no pseudo-random start, request arm before the clear arm)
    rep.rule('R18.f', 'the race between the shell\'s answer and the clear is biased: no random start, the request arm is polled first', floor=2)
    for variant, (f, bb, s) in bodies.items():
        nested = time.closures_of(f)
        shuffles = [(g, b2) for g in [f] + nested for b2, t2 in g.calls() if norm(t2.get('callee') or '').startswith('futures_util::async_await::random::')]
        orders = []
        for g in [f] + nested:
            for b2, i2, s2 in g.stmts('assign'):
                rv = s2['rv']
                if rv['k'] != 'agg' or not str(rv.get('ak', '')).startswith('array') or len(rv.get('ops') or []) < 2:
                    continue
                kinds = []
                for op in rv['ops']:
                    what = '?'
                    for o in origins(g, op, through_casts=True):
                        if o.kind == 'agg' and o.stmt['rv'].get('ak') == 'closure':
                            arm = time.by_exact(o.stmt['rv']['def'])
                            polled = ' '.join(' '.join(t3.get('targs') or []) for b3, t3 in (arm.calls() if arm else []) if 'poll' in last_seg(t3.get('callee') or ''))
                            if 'context::ShellRequest' in polled:
                                what = 'request'
                            elif 'oneshot::Receiver' in polled:
                                what = 'clear'
                    kinds.append(what)
                if 'request' in kinds or 'clear' in kinds:
                    orders.append(kinds)
        ok = not shuffles and bool(orders) and all(k[0] == 'request' and 'clear' in k[1:] for k in orders)
        rep.expect('R18.f', ok, '%s|answer-beats-clear' % variant, 'select arms in order %s, no random start' % orders,
                   'command %s task: the select between the shell\'s answer and the clear is not biased towards the answer (%s): with both ready, '
                   'a timer that already fired can be reported Cleared and send a Clear request' % (
                       variant, 'starts from a pseudo-random arm (select! instead of select_biased!)' if shuffles else 'arm order %s' % orders))
    seqs = {}
    for variant, (f, bb, s) in bodies.items():
        tries = [b2 for b2, t2 in f.calls('futures_channel::oneshot::Receiver::try_recv')]
        reqs = [(b2, t2) for b2, t2 in f.calls('crux_core::command::context::CommandContext::request_from_shell')]
        cleared_rets = [b2 for b2, i2, s2 in f.stmts('assign') if s2['rv']['k'] == 'agg' and path_matches(s2['rv'].get('adt'), 'command::TimerOutcome')
                        and s2['rv']['variant'] == 'Cleared' and s2['d']['l'] == 0]
        rets = f.return_blocks()
        # a ShellRequest sends its effect when it is first polled: every poll in the task body must come after the early-clear check
        polls_all = [b2 for b2, t2 in f.calls('core::future::future::Future::poll')]
        ok = len(tries) == 1 and len(reqs) >= 1 and len(polls_all) >= 1 and all(f.dominates(tries[0], b2) and b2 != tries[0] for b2 in polls_all)
        # an early Cleared return exists that passes no poll
        early = [c for c in cleared_rets if c in f.reachable([tries[0]], removed_blocks=polls_all)] if tries else []
        rep.expect('R18.b', ok and len(early) >= 1 and any(r in f.reachable([early[0]], removed_blocks=polls_all) for r in rets),
                   '%s|early-clear' % variant, 'try_recv dominates every poll of the task body; its cleared edge returns Cleared without polling anything',
                   'command %s task: a request future can be polled (and so sent to the shell) before the early-clear check' % variant)
        # R18.c
        clears = [(b2, s2) for b2, i2, s2 in f.stmts('assign') if s2['rv']['k'] == 'agg' and path_matches(s2['rv'].get('adt'), 'crux_time::protocol::TimeRequest')
                  and s2['rv']['variant'] == 'Clear']
        ok = False
        if len(clears) == 1:
            cb, cs = clears[0]
            src = origins(f, cs['rv']['ops'][0])
            from_chan = bool(src) and all(o.kind == 'call' and call_matches(o.term, ['core::result::Result::unwrap', 'core::result::Result::expect'])
                                          and 'oneshot::Canceled' in ' '.join(o.term.get('targs') or []) for o in src)
            # awaited: a poll of the ShellRequest created from it precedes the later Cleared return
            creq = [b2 for b2, t2 in reqs if any(o.kind == 'agg' and o.stmt is cs for o in origins(f, t2['args'][1]))]
            polls = [b2 for b2, t2 in f.calls('core::future::future::Future::poll') if creq and
                     any(o.kind == 'call' and o.bb == creq[0] for o in origins(f, t2['args'][0]))]
            late = [c for c in cleared_rets if c not in early]
            awaited = bool(polls) and bool(late) and all(f.dominates(polls[0], c) for c in late)
            ok = from_chan and bool(creq) and awaited and not f.dominates(cb, bb) and cb not in f.reachable([0], removed_blocks=[tries[0]] if tries else [])
        rep.expect('R18.c', ok, '%s|clear-request' % variant, 'Clear { id } takes the id received on the clear channel and is awaited before Cleared',
                   'command %s task: the Clear request does not carry the id received on the clear channel, or is not awaited' % variant)
        # R18.e: an outcome is reported only for the matching answer of the shell
        comp = [b2 for b2, i2, s2 in f.stmts('assign') if s2['rv']['k'] == 'agg' and path_matches(s2['rv'].get('adt'), 'command::TimerOutcome')
                and s2['rv']['variant'] == 'Completed']
        want_resp = {'NotifyAt': 'InstantArrived', 'NotifyAfter': 'DurationElapsed'}[variant]
        radt = time.adts.get('crux_time::protocol::TimeResponse')
        ridx = {v['name']: v['idx'] for v in radt['variants']} if radt else {}

        def response_edges(name):
            out = []
            for sb, st in f.terms('switch'):
                for o in origins(f, st['a']):
                    if o.kind == 'rvalue' and o.stmt['rv']['k'] == 'discr' and path_matches(o.stmt['rv']['a'].get('adt'), 'crux_time::protocol::TimeResponse'):
                        tgt = None
                        for v, b in st['arms']:
                            if v == ridx.get(name):
                                tgt = b
                        if tgt is not None:
                            out.append((sb, tgt))
            return out
        ce = response_edges(want_resp)
        ok = bool(comp) and bool(ce) and all(c not in f.reachable([0], removed_edges=ce) for c in comp)
        rep.expect('R18.e', ok, '%s|completed-needs-answer' % variant, 'Completed is reachable only through the %s answer of the shell' % want_resp,
                   'command %s task can report Completed without the shell having answered its request with %s' % (variant, want_resp))
        le = response_edges('Cleared')
        late = [c for c in cleared_rets if c not in early]
        ok = bool(late) and bool(le) and all(c not in f.reachable([0], removed_edges=le) for c in late)
        rep.expect('R18.e', ok, '%s|cleared-needs-answer' % variant, 'the late Cleared is reachable only through the Cleared answer of the shell',
                   'command %s task can report Cleared (after a request was sent) without the shell having answered the Clear request' % variant)
        # sequence of calls for the sibling diff
        seq = []
        for blk in f.blocks:
            if blk['cleanup']:
                continue
            t = blk['t']
            if t['k'] == 'call':
                c = norm(t.get('callee') or 'dyn')
                # only the calls that carry the timer's logic; future plumbing (fuse, poll_fn, pin, into_future, ...) may differ freely
                if not c.startswith(('crux_core::', 'crux_time::', 'core::cmp::', 'core::result::', 'core::option::', 'core::panicking::',
                                     'futures_channel::oneshot::')):
                    continue
                seq.append(c)
            for st in blk['st']:
                if st['k'] == 'assign' and st['rv']['k'] == 'agg' and st['rv'].get('ak') == 'adt' and 'crux_time' in st['rv']['adt']:
                    v = st['rv']['variant']
                    v = {'NotifyAt': 'Notify*', 'NotifyAfter': 'Notify*'}.get(v, v)
                    seq.append('build ' + last_seg(st['rv']['adt']) + '::' + v)
        seqs[variant] = seq
    a, b = seqs['NotifyAt'], seqs['NotifyAfter']
    from collections import Counter
    ca, cb = Counter(a), Counter(b)
    diff = (ca - cb) + (cb - ca)
    # tabled differences: the conversion of the argument (SystemTime vs Duration) and one extra id check + unreachable! in notify_after
    tabled = Counter({'core::cmp::PartialEq::ne': 1, 'core::panicking::panic_fmt': 1})
    extra = {k: v for k, v in diff.items() if v > tabled.get(k, 0)}
    rep.expect('R18.d', not extra, 'siblings', 'same calls up to the variant; tabled difference: one extra id check with unreachable! in notify_after',
               'notify_at and notify_after task bodies differ beyond the tabled difference: %s' % extra)
    # R18.g: "exactly one request per timer" also rests on the command primitives underneath: a request / notification made through the command API
    # puts its effect on the effect channel exactly once (shared with C01 R01.f)
    from rules.props import prims as _prims
    _core = ctx.crate('default', 'crux_core')
    rep.rule('R18.g', 'a command-API request, stream or notification puts its effect on the effect channel exactly once (at the call / at the first poll)', floor=10)
    if _core is None:
        rep.missing('R18.g', 'crux_core facts')
    else:
        _prims.check_request_typestate(rep, 'R18.g', _core)
    # R18.h (legacy capability API): "a timer cleared before it was ever requested sends nothing" rests on the cleared mark being in place
    # when clear() returns: the insert into the cleared-timer set happens in the body of Time::clear itself, on every path — not in the task
    # it spawns, which the executor runs after the timer task that was spawned earlier
    rep.rule('R18.h', 'legacy Time::clear marks the id as cleared before it returns (not inside the task it spawns)', floor=1)
    clears_ = [f for f in time.built if f.kind == 'AssocFn' and f.name == 'clear' and path_matches(f.assoc.get('self_adt'), 'crux_time::Time') and not f.assoc.get('trait')]
    if len(clears_) != 1:
        rep.missing('R18.h', 'crux_time::Time::clear')
    else:
        from rules.common import Summaries as _Sm
        f_ = clears_[0]
        ins = _Sm([time]).sites(f_, ['std::collections::hash::set::HashSet::insert', 'alloc::collections::btree::set::BTreeSet::insert'], 'must')
        sync_ = bool(ins) and not any(r_ in f_.reachable([0], removed_blocks=ins) for r_ in f_.return_blocks())
        rep.expect('R18.h', sync_, 'Time::clear|marks-before-return', 'the id is inserted into the cleared set in the body of clear(), on every path',
                   'legacy Time::clear returns before the id is in the cleared-timer set (the insert moved into the spawned task, or is conditional): a timer '
                   'started and cleared in one update is polled first, sends NotifyAt / NotifyAfter and then Clear')
    # R18.i (legacy capability API): timer ids are process-wide and every `map_event` / `Time::new` makes a new `Time` value, so "cleared only
    # if the app cleared it — and then it does report cleared" needs ONE cleared set per process: the set clear() marks and the set every
    # TimerFuture consults are the same static (seeded: the set moved into an Arc field created by Time::new, which map_event calls — a clear
    # issued through another instance than the one that started the timer is lost)
    rep.rule('R18.i', 'legacy Time::clear and TimerFuture::poll use one process-wide cleared set (the same static)', floor=1)
    _ID = [('std::sync::poison::mutex::Mutex::lock', 0), ('std::sync::poison::rwlock::RwLock::write', 0), ('std::sync::poison::rwlock::RwLock::read', 0),
           ('core::result::Result::unwrap', 0), ('core::result::Result::expect', 0), ('core::ops::deref::DerefMut::deref_mut', 0),
           ('core::ops::deref::Deref::deref', 0), ('core::result::Result::unwrap_or_else', 0)]
    _SETOPS = ['std::collections::hash::set::HashSet::insert', 'std::collections::hash::set::HashSet::remove', 'std::collections::hash::set::HashSet::contains',
               'std::collections::hash::set::HashSet::take', 'alloc::collections::btree::set::BTreeSet::insert', 'alloc::collections::btree::set::BTreeSet::remove',
               'alloc::collections::btree::set::BTreeSet::contains', 'alloc::collections::btree::set::BTreeSet::take']

    def _set_roots(fns):
        roots, n = set(), 0
        for g in fns:
            for bb, t in g.calls(*_SETOPS):
                if 'TimerId' not in ' '.join(t.get('targs') or []) + (t['args'][0].get('t') or ''):
                    continue
                n += 1
                os_ = origins(g, t['args'][0], extra_identity=_ID)
                if not os_:
                    roots.add('?')
                for o in os_:
                    roots.add('static ' + o.static if o.kind == 'const' and o.static else
                              ('field of a value (%s %s)' % (o.kind, ''.join(getattr(o, 'suffix', []) or []))))
        return roots, n
    if len(clears_) == 1:
        fam_c = [clears_[0]] + time.closures_of(clears_[0])
        polls_ = [f for f in time.built if path_matches(f.assoc.get('self_adt'), 'crux_time::TimerFuture') and f.name in ('poll', 'poll_next')]
        fam_p = [g for f in polls_ for g in [f] + time.closures_of(f)]
        rc, nc = _set_roots(fam_c)
        rp, np_ = _set_roots(fam_p)
        same = nc > 0 and np_ > 0 and len(rc) == 1 and rc == rp and all(r.startswith('static ') for r in rc)
        rep.expect('R18.i', same, 'cleared-set|one-per-process', 'clear() marks and TimerFuture::poll consults %s' % sorted(rc),
                   'the cleared-timer set written by legacy Time::clear (%s, %d site(s)) and the one read by TimerFuture::poll (%s, %d site(s)) are not one '
                   'process-wide static: a timer started through one Time value and cleared through another (every map_event makes a new one) never '
                   'learns that it was cleared and reports elapsed' % (sorted(rc), nc, sorted(rp), np_))
    else:
        rep.missing('R18.i', 'crux_time::Time::clear')
    # R18.j: "clears arriving after the outcome are ignored": once the timer task has reported, its end of the clear channel is gone and
    # the send in TimerHandle::clear fails — that failure is the late clear, and it must be a no-op: clear() has no way of panicking on
    # its own (no unwrap / expect / assert / index), and makes exactly one send of the handle's own id (seeded: `.expect("timer task
    # should be listening")` on the send — a clear after the outcome panics in the app)
    from rules.common import panic_sites as _panic_sites
    rep.rule('R18.j', 'TimerHandle::clear cannot panic: a clear after the outcome is a no-op', floor=1)
    hclears = [f for f in time.built if f.kind == 'AssocFn' and f.name == 'clear' and path_matches(f.assoc.get('self_adt'), 'crux_time::command::TimerHandle')
               and not f.assoc.get('trait')]
    if len(hclears) != 1:
        rep.missing('R18.j', 'crux_time::command::TimerHandle::clear')
    else:
        fam_h = [hclears[0]] + time.closures_of(hclears[0])
        ps_ = [(g.where(bb), kind, detail) for g in fam_h for bb, kind, detail, t in _panic_sites(g)]
        sends_ = [(g, bb, t) for g in fam_h for bb, t in g.calls() if last_seg(norm(t.get('callee') or '')) == 'send' and 'oneshot' in norm(t.get('callee') or '')]
        rep.expect('R18.j', not ps_ and len(sends_) == 1, 'TimerHandle::clear|late-clear-is-a-no-op', 'one send on the clear channel, its failure discarded, no panic site',
                   'TimerHandle::clear can panic (%s; %d send(s)): after the timer has reported its outcome the receiving end is gone and the send '
                   'fails — a late clear must be ignored, not crash the app' % (ps_, len(sends_)))
    rep.assume('futures oneshot: a Receiver whose Sender was dropped reports is_terminated and is skipped by select_biased!')
    rep.assume('NOT DECIDED: every interleaving of fire / clear / drop / late answers; the legacy API after the outcome')


def thorough_extra(ctx, rep):
    from rules import witness
    witness.report(rep, 'W18')
