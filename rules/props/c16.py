"""C16 — middleware wraps requests in order; redirects are bounded and exact (structural clauses)."""
import re

from rules.facts import norm, path_matches, origins, flows_to, call_matches, last_seg

CONFIGS = {'quick': ['default', 'controls'], 'thorough': ['allfeat']}
TECHNIQUE = ('static analysis: dominance/ordering rules on Client::send and Next::run, who-may-call rule for HTTP effect emission, '
             'loop-bound and provenance rules on Redirect::handle')
EXPLANATION = (
    'R16.a in Client::send the client\'s middleware is appended before the request\'s; R16.b Next::run hands the tail of '
    'split_first to the current middleware and calls the endpoint only when the chain is empty; R16.c every call that emits an '
    'HTTP effect is the EffectSender impl itself or lies inside the endpoint closure given to Next::new; R16.d the probing loop '
    'of Redirect::handle increments a counter on every cycle and leaves when it reaches self.attempts, probes are clones and the '
    'final next.run receives the original request; R16.h in Redirect::handle the only request mutator called is url_mut (method, body and headers of the original request are never touched); R16.e the Client handed to middleware has an empty stack; R16.f every write '
    'of the request URL in the redirect loop is preceded, in the same iteration, by an update of the base used for joining '
    'relative locations; R16.g the set of statuses followed as redirects, read from the table or match that guards the Location branch, is exactly '
    '301, 302, 303, 307, 308. Decides these shapes, not URL resolution inside the url crate. R16.i each endpoint of the chain emits exactly one effect outside any loop (shared with C14 R14.c).')


def coroutine_body(crate, fn_pattern, **kw):
    """the async body (coroutine closure) of an async fn / async_trait method"""
    outs = []
    for f in crate.built:
        if f.kind == 'Closure' and f.coroutine and f.parent and path_matches(f.parent, fn_pattern):
            outs.append(f)
    return outs


def has_field_origin(fn, operand, field, extra=()):
    """some origin of the operand is a place with `.field` in its remaining projection"""
    for o in origins(fn, operand, through_clone=True, extra_identity=extra):
        suf = getattr(o, 'suffix', None) or []
        if any(tok.lstrip('.').lstrip('^') == field for tok in suf if tok.startswith('.')):
            return True
    return False


ITER_ID = [('core::slice::<impl [T]>::iter', 0), ('core::iter::traits::iterator::Iterator::cloned', 0),
           ('core::iter::traits::iterator::Iterator::copied', 0), ('alloc::sync::Arc::new', 0)]


def check(ctx, rep):
    rep.rule('R16.a', 'Client::send stacks the client\'s middleware before the request\'s', floor=3)
    rep.rule('R16.b', 'Next::run peels exactly one middleware and reaches the endpoint only on the empty chain', floor=3)
    rep.rule('R16.c', 'every emission of an HTTP effect is the EffectSender impl or lies under the endpoint of Next', floor=2)
    rep.rule('R16.d', 'the redirect probing loop is bounded by self.attempts; probes are clones; the original request is sent last', floor=5)
    rep.rule('R16.e', 'the Client handed to middleware has an empty middleware stack', floor=1)
    rep.rule('R16.f', 'each URL rewrite in the redirect loop also updates the base used for relative locations', floor=1)
    http = ctx.crate('default', 'crux_http')
    if http is None:
        rep.missing('R16.a', 'crux_http facts')
        return
    send_bodies = coroutine_body(http, 'crux_http::client::Client::send')
    if len(send_bodies) != 1:
        rep.missing('R16.a', 'async body of Client::send')
    else:
        check_send(rep, http, send_bodies[0])
    check_next(rep, http)
    check_emission(rep, http)
    # R16.i: "one call of next.run reaches the shell exactly once" at the bottom of the chain: each endpoint emits exactly one effect,
    # outside any loop (shared with C14 R14.c; seeded: the endpoint of Client::send asking the shell again after a Timeout, so that
    # Redirect::new(n) produces more than n probes plus one final request)
    from rules.props import c14 as _c14, c10 as _c10
    rep.rule('R16.i', 'each endpoint of the middleware chain emits exactly one effect, outside any loop', floor=2)
    _c14.check_emission(_c10.RuleProxy(rep, 'R16.i', lambda k: True), http, 'default')
    check_redirect(rep, http)
    rep.assume('dyn Middleware implementations supplied by users are outside every rule')
    rep.assume('slice::split_first returns (first, rest) (std contract)')


def check_send(rep, http, f):
    exts = [(bb, t) for bb, t in f.calls('core::iter::traits::collect::Extend::extend')]
    if len(exts) != 2:
        rep.bad('R16.a', 'extends', 'expected two extend calls building the middleware stack in Client::send, found %d' % len(exts))
    else:
        (b1, t1), (b2, t2) = exts
        if f.dominates(b2, b1):
            (b1, t1), (b2, t2) = (b2, t2), (b1, t1)
        ordered = f.dominates(b1, b2) and b1 != b2
        same_vec = {o.bb for o in origins(f, t1['args'][0]) if o.kind == 'call'} == \
                   {o.bb for o in origins(f, t2['args'][0]) if o.kind == 'call'}
        first_is_client = has_field_origin(f, t1['args'][1], 'middleware', ITER_ID) and not any(
            o.kind == 'call' and path_matches(o.term.get('callee'), 'Request::take_middleware')
            for o in origins(f, t1['args'][1], extra_identity=ITER_ID))
        second_is_req = any(o.kind == 'call' and path_matches(o.term.get('callee'), 'Request::take_middleware')
                            for o in origins(f, t2['args'][1], extra_identity=ITER_ID))
        rep.expect('R16.a', ordered and same_vec, 'order', 'the two extends act on one Vec and are totally ordered',
                   'the two extend calls in Client::send are not ordered on one Vec')
        rep.expect('R16.a', first_is_client, 'first-is-client', 'first extend takes self.middleware',
                   'the first extend in Client::send no longer takes the client\'s middleware')
        rep.expect('R16.a', second_is_req, 'second-is-request', 'second extend takes req.take_middleware()',
                   'the second extend in Client::send no longer takes the request\'s middleware')
    # Next::new receives that stack (or the client's own when the request has none)
    news = list(f.calls('crux_http::middleware::Next::new'))
    runs = list(f.calls('crux_http::middleware::Next::run'))
    if len(news) != 1 or len(runs) != 1:
        rep.bad('R16.a', 'next-new', 'expected one Next::new and one Next::run in Client::send')
        return
    # R16.e
    bb, t = runs[0]
    client_arg = t['args'][2]
    aggs = [o for o in origins(f, client_arg) if o.kind == 'agg' and path_matches(o.stmt['rv'].get('adt'), 'crux_http::client::Client')]
    ok = False
    if len(aggs) == 1:
        rv = aggs[0].stmt['rv']
        mw = dict(zip(rv['fields'], rv['ops']))['middleware']
        from rules.props import prims as _pr
        srcs = _pr.origins_nt(http, f, mw, extra_identity=[('alloc::sync::Arc::new', 0)])
        ok = bool(srcs) and all(o.kind == 'call' and call_matches(o.term, ['alloc::vec::Vec::new']) for o in srcs)
    rep.expect('R16.e', ok, 'empty-stack', 'next.run receives Client { middleware: Arc::new(vec![]) }',
               'the Client handed to the middleware chain in Client::send is not built with an empty middleware stack')
    # req argument of next.run is the request taken at the top (after take_middleware), not a copy
    req_src = origins(f, t['args'][1])
    rep.expect('R16.a', bool(req_src) and all(o.kind == 'call' and call_matches(o.term, ['core::convert::Into::into']) for o in req_src),
               'run-gets-request', 'next.run receives the request converted at the top of send',
               'next.run in Client::send no longer receives the original request: %s' % [repr(o) for o in req_src])


def _reach_for_len(f, chain_field, n):
    """blocks reachable from the entry when the middleware slice has length n: a switch on a comparison of the slice's length (PtrMetadata /
    Len of the chain field) with a constant follows only the edge that comparison selects"""
    def len_local(l, depth=0):
        for d in f.defs(l):
            if d[0] != 'stmt':
                return False
            rv = d[3]['rv']
            if rv['k'] == 'use' and 'l' in rv['a'] and not rv['a'].get('p') and depth < 4:
                if not len_local(rv['a']['l'], depth + 1):
                    return False
            elif rv['k'] in ('unop', 'len', 'other', 'rawptr', 'ref') or 'PtrMetadata' in str(rv.get('op') or rv.get('s') or ''):
                a_ = rv.get('a') or {}
                if 'l' in a_ and (chain_field in (a_.get('p') or [])):
                    continue
                if 'l' in a_ and not a_.get('p') and depth < 4 and len_local(a_['l'], depth + 1):
                    continue
                return False
            else:
                return False
        return bool(f.defs(l))
    OPS = {'Eq': lambda a, b: a == b, 'Ne': lambda a, b: a != b, 'Lt': lambda a, b: a < b, 'Le': lambda a, b: a <= b, 'Gt': lambda a, b: a > b, 'Ge': lambda a, b: a >= b}
    seen, work = set(), [0]
    while work:
        b = work.pop()
        if b in seen:
            continue
        seen.add(b)
        t = f.blocks[b]['t']
        succs = f.succ(b)
        if t['k'] == 'switch' and 'l' in t['a'] and not t['a'].get('p'):
            for d in f.defs(t['a']['l']):
                if d[0] == 'stmt' and d[3]['rv']['k'] == 'binop' and d[3]['rv'].get('op') in OPS:
                    rv = d[3]['rv']
                    x, y = rv['a'], rv['b']

                    def const_of(op):
                        if op.get('o') == 'const':
                            return op.get('v')
                        ds = f.defs(op['l']) if 'l' in op and not op.get('p') else []
                        if len(ds) == 1 and ds[0][0] == 'stmt' and ds[0][3]['rv']['k'] == 'use' and ds[0][3]['rv']['a'].get('o') == 'const':
                            return ds[0][3]['rv']['a'].get('v')
                        return None
                    val = None
                    if 'l' in x and const_of(y) is not None and len_local(x['l']):
                        val = OPS[rv['op']](n, const_of(y))
                    elif 'l' in y and const_of(x) is not None and len_local(y['l']):
                        val = OPS[rv['op']](const_of(x), n)
                    if val is not None:
                        tgt = next((b2 for v, b2 in t['arms'] if v == (1 if val else 0)), t['otherwise'])
                        succs = [tgt]
        work += succs
    return seen


def check_next_slice_pattern(rep, f, handle, endpoint):
    from rules.props import c01 as _c01
    hb, ht = handle
    eb, et = endpoint
    # the head: the middleware whose handle is called is element 0 of the chain field
    src = origins(f, ht['args'][0], extra_identity=[('core::ops::deref::Deref::deref', 0)])
    fields = set(tok for o in src for tok in (o.suffix or []) if tok.startswith('.'))
    head_ok = bool(src) and all('[c0]' in (o.suffix or []) and o.kind == 'arg' and o.n == 1 for o in src) and len(fields) == 1
    if not head_ok:
        return False
    chain = fields.pop()
    # the tail: the chain field is assigned `&chain[1..]` before handle is called, and handle gets self
    tail_assign = False
    for bb, idx, s_ in f.stmts('assign'):
        d = s_['d']
        if d['p'] and d['p'][-1] == chain and s_['rv']['k'] == 'use':
            for o in origins(f, s_['rv']['a']):
                toks = list(o.suffix or [])
                if o.kind == 'rvalue' and o.stmt['rv']['k'] == 'ref':
                    toks += list(o.stmt['rv']['a'].get('p') or [])
                if chain in toks and '[1..-0]' in toks and f.dominates(bb, hb):
                    tail_assign = True
    self_passed = any(o.kind == 'arg' and o.n == 1 for o in origins(f, ht['args'][3]))
    # finite-domain evaluation over the length of the chain
    r0, r1, r2 = (_reach_for_len(f, chain, n) for n in (0, 1, 2))
    rep.expect('R16.b', hb not in r0 and hb in r1 and hb in r2, 'handle-on-some', 'Middleware::handle is called only when the chain is not empty',
               'Middleware::handle in Next::run is reachable with an empty chain (or not with a non-empty one)')
    rep.expect('R16.b', eb in r0 and eb not in r1 and eb not in r2, 'endpoint-on-none', 'the endpoint is called only when the chain is empty',
               'the endpoint in Next::run is reachable while middleware remain')
    rep.expect('R16.b', tail_assign and self_passed, 'peel-one', 'chain := chain[1..] before handle(chain[0], .., self)',
               'Next::run does not hand the tail of the chain to the head middleware (tail assigned: %s, self passed: %s)' % (tail_assign, self_passed))
    return True


def check_next(rep, http):
    fs = http.find('crux_http::middleware::Next::run')
    fs = [f for f in fs if f.kind == 'AssocFn']
    if len(fs) != 1:
        rep.missing('R16.b', 'Next::run')
        return
    f = fs[0]
    splits = list(f.calls('core::slice::<impl [T]>::split_first'))
    handles = list(f.calls('crux_http::middleware::Middleware::handle'))
    endpoint = [(bb, t) for bb, t in f.calls() if t.get('callee') is None or call_matches(t, ['core::ops::function::Fn::call'])]
    if not splits and len(handles) == 1 and len(endpoint) == 1:
        # the slice-pattern form: `match self.remaining { [] => endpoint, [current, rest @ ..] => { self.remaining = rest; current.handle(..) } }`
        if check_next_slice_pattern(rep, f, handles[0], endpoint[0]):
            return
    if len(splits) != 1 or len(handles) != 1 or len(endpoint) != 1:
        rep.bad('R16.b', 'shape', 'Next::run: expected one split_first, one Middleware::handle and one endpoint call; found %d/%d/%d'
                % (len(splits), len(handles), len(endpoint)))
        return
    sb, st = splits[0]
    hb, ht = handles[0]
    eb, et = endpoint[0]
    # the switch on the Option returned by split_first
    sw = None
    for bb, t in f.terms('switch'):
        for o in origins(f, t['a']):
            if o.kind == 'rvalue' and o.stmt['rv']['k'] == 'discr' and o.stmt['rv']['a']['l'] == st['d']['l']:
                sw = (bb, t)
    if sw is None:
        rep.bad('R16.b', 'switch', 'no match on the result of split_first in Next::run')
        return
    swb, swt = sw
    some_edges = [(swb, a[1]) for a in swt['arms'] if a[0] == 1]
    none_edges = [(swb, a[1]) for a in swt['arms'] if a[0] == 0]
    if not some_edges:
        some_edges = [(swb, swt['otherwise'])]
    if not none_edges:
        none_edges = [(swb, swt['otherwise'])]
    rep.expect('R16.b', hb not in f.reachable([0], removed_edges=some_edges) and hb in f.reachable([0]), 'handle-on-some',
               'Middleware::handle is called only when split_first returned Some',
               'Middleware::handle in Next::run is reachable without split_first returning Some')
    rep.expect('R16.b', eb not in f.reachable([0], removed_edges=none_edges) and eb in f.reachable([0]), 'endpoint-on-none',
               'the endpoint is called only when the chain is empty',
               'the endpoint in Next::run is reachable while middleware remain')
    # self.next_middleware is replaced by the tail before handle is called, and handle gets the head
    tail_assign = False
    # (the field the chain lives in is whatever split_first was called on: its name is not part of the rule)
    from rules.props import c01 as _c01
    chain_fields = set('.' + x for x in _c01.field_of_receiver(f, st['args'][0]))
    for bb, idx, s in f.stmts('assign'):
        d = s['d']
        if d['p'] and d['p'][-1] in chain_fields:
            for o in origins(f, s['rv']['a']) if s['rv']['k'] == 'use' else []:
                if o.kind == 'call' and o.bb == sb and '.1' in o.suffix:
                    if f.dominates(bb, hb):
                        tail_assign = True
    # ... or the head is handed a NEW Next built from the tail and the same endpoint (`Step::Through(current, Next { remaining: rest, endpoint })`)
    nxt = origins(f, ht['args'][3])
    if not tail_assign and nxt and all(o.kind == 'agg' and path_matches(o.stmt['rv'].get('adt'), 'crux_http::middleware::Next') for o in nxt):
        good_ = True
        for o in nxt:
            flds = dict(zip(o.stmt['rv']['fields'], o.stmt['rv']['ops']))
            chain_ops = [v_ for k_, v_ in flds.items() if ('.' + k_) in chain_fields]
            rest_ok = len(chain_ops) == 1 and bool(origins(f, chain_ops[0])) and all(x.kind == 'call' and x.bb == sb and '.1' in x.suffix for x in origins(f, chain_ops[0]))
            ep_ops = [v_ for k_, v_ in flds.items() if ('.' + k_) not in chain_fields]
            ep_ok = len(ep_ops) == 1 and bool(origins(f, ep_ops[0])) and all(x.kind == 'arg' and x.n == 1 and any(tok.startswith('.') for tok in x.suffix) for x in origins(f, ep_ops[0]))
            good_ = good_ and rest_ok and ep_ok
        tail_assign = good_
        fresh_next = good_
    else:
        fresh_next = False
    head_ok = any(o.kind == 'call' and o.bb == sb and '.0' in o.suffix for o in origins(f, ht['args'][0], extra_identity=[
        ('core::ops::deref::Deref::deref', 0)]))
    self_passed = fresh_next or any(o.kind == 'arg' and o.n == 1 for o in origins(f, ht['args'][3]))
    rep.expect('R16.b', tail_assign and head_ok and self_passed, 'peel-one',
               'next_middleware := tail before handle(head, .., self)',
               'Next::run does not hand the tail of split_first to the head middleware (tail assigned: %s, head: %s, self passed: %s)'
               % (tail_assign, head_ok, self_passed))


def endpoints_under_next(http):
    """def paths of the closures / functions passed as the endpoint (argument 1) of Next::new"""
    out = []
    for f in http.built:
        for bb, t in f.calls('crux_http::middleware::Next::new'):
            for o in origins(f, t['args'][1], through_casts=True):
                if o.kind == 'agg' and o.stmt['rv'].get('ak') == 'closure':
                    out.append(o.stmt['rv']['def'])
                elif o.kind == 'const' and o.fn:
                    out.append(o.fn)  # a function item used as the endpoint
    return out


def is_under(fn, defs):
    from rules.facts import norm as _n
    return any(fn.path.startswith(d) or _n(fn.path).startswith(_n(d)) for d in defs)


def is_under_hosted(http, fn, defs, _depth=0):
    """fn lies in one of the bodies `defs`, or in a helper (plain or async) that did not exist when the rules were confirmed and whose
    every use was spliced into such a body"""
    if is_under(fn, defs):
        return True
    root = fn.root or fn.path
    if _depth >= 4:
        return False
    hosts = [h for h in http.fns(fn.view) if root in (h.j.get('inlined') or []) and (h.root or h.path) != root]
    still_there = any(g.path == root for g in http.fns(fn.view))
    return bool(hosts) and not still_there and all(is_under_hosted(http, h, defs, _depth + 1) for h in hosts)


def check_emission(rep, http):
    under_next = endpoints_under_next(http)
    if not under_next:
        rep.missing('R16.c', 'endpoint closure of Next::new')
        return
    n = 0
    for f in http.built:
        if f.j.get('exp') and 'async_trait' not in ' '.join(f.j.get('exp') or []):
            continue
        for bb, t in f.calls():
            seg = last_seg(t.get('callee') or '')
            if seg not in ('request_from_shell', 'stream_from_shell', 'notify_shell', 'send'):
                continue
            c = norm(t.get('callee') or '')
            is_sender = c.endswith('protocol::EffectSender::send')
            emits = is_sender or (seg != 'send' and any('crux_http::protocol::HttpRequest' in x for x in (t.get('targs') or []) +
                                                         [a.get('t', '') for a in t['args']]))
            if not emits:
                continue
            n += 1
            key = '%s|%s' % (http.host_root(f), seg)
            in_sender_impl = 'EffectSender' in f.path and ('as crux_http::protocol::EffectSender' in f.path or
                                                            path_matches(f.assoc.get('trait'), 'crux_http::protocol::EffectSender'))
            root_is_sender = 'as crux_http::protocol::EffectSender' in (f.root or '')
            under = is_under_hosted(http, f, under_next)
            if in_sender_impl or root_is_sender:
                rep.ok('R16.c', key, 'inside the EffectSender implementation')
            elif under:
                rep.ok('R16.c', key, 'inside the endpoint closure passed to Next::new')
            else:
                rep.bad('R16.c', key, 'HTTP effect emitted outside the middleware chain at %s (call to %s): middleware attached to the '
                        'request is never run' % (f.where(bb), c))
    if n < 3:
        rep.bad('R16.c', 'sites', 'expected at least 3 HTTP effect emission sites, found %d' % n)


REDIRECT_STATUSES = {'MovedPermanently': 301, 'Found': 302, 'SeeOther': 303, 'TemporaryRedirect': 307, 'PermanentRedirect': 308}


def check_redirect_statuses(rep, http, f):
    """R16.g: the statuses the middleware follows are exactly 301, 302, 303, 307 and 308 (it "stops at the first non-redirect status":
    300, 304, 305 and 306 are 3xx but are not redirects to follow).  The set is read from the test on res.status() that guards the
    Location branch: membership in a const table (its initialiser is read), or a match on the status (its arm values are read)."""
    rep.rule('R16.g', 'the statuses followed as redirects are exactly 301, 302, 303, 307, 308', floor=1)
    status_calls = [bb for bb, t in f.calls('crux_http::response::response_async::ResponseAsync::status', 'http_types_red_badger_temporary_fork::response::Response::status')]
    if not status_calls:
        rep.bad('R16.g', 'redirect|status-test', 'Redirect::handle no longer reads the status of the probe response')
        return
    found = None
    how = ''

    def from_status(op):
        src = origins(f, op, through_casts=True)
        return bool(src) and any(o.kind == 'call' and o.bb in status_calls for o in src)
    # (a) TABLE.contains(&status)
    for bb, t in f.calls('core::slice::<impl [T]>::contains'):
        if len(t['args']) == 2 and from_status(t['args'][1]):
            names = set()
            for o in origins(f, t['args'][0], through_casts=True):
                if o.kind == 'const' and o.s:
                    c = http.consts.get(norm(o.s.replace('const ', '')))
                    if c is not None:
                        for b2, i2, s2 in c.stmts('assign'):
                            rv = s2['rv']
                            if rv['k'] == 'agg' and rv.get('ak') == 'adt' and (rv.get('adt') or '').endswith('status_code::StatusCode'):
                                names.add(rv['variant'])
                            elif rv['k'] == 'use' and rv['a'].get('o') == 'const' and isinstance(rv['a'].get('v'), int):
                                names.add(rv['a']['v'])
                if o.kind == 'agg' or (o.kind == 'rvalue' and o.stmt['rv']['k'] == 'agg'):
                    for x in o.stmt['rv'].get('ops', []):
                        for y in origins(f, x):
                            if y.kind == 'agg' and (y.stmt['rv'].get('adt') or '').endswith('status_code::StatusCode'):
                                names.add(y.stmt['rv']['variant'])
                            elif y.kind == 'const' and isinstance(y.v, int):
                                names.add(y.v)
            found = names
            how = 'membership in a table at %s' % f.where(bb)
    # (b) match / matches! on the status
    if found is None:
        for sb, st in f.terms('switch'):
            for o in origins(f, st['a']):
                if o.kind == 'rvalue' and o.stmt['rv']['k'] == 'discr' and from_status(o.stmt['rv']['a']):
                    vals = set(v for v, b in st['arms'])
                    # the arms listed are the redirect side if they are the smaller set of 3xx codes
                    found = vals
                    how = 'match on the status at %s' % f.where(sb)
    # (c) a crate-local predicate over the status: read its match
    if found is None:
        for bb, t in f.calls():
            tgt = [g for g in http.built if g.kind in ('Fn', 'AssocFn') and g.npath == norm(t.get('resolved') or t.get('callee') or '')]
            hit = [i for i, a in enumerate(t.get('args') or []) if from_status(a)]
            if not tgt or not hit or 'bool' != (t['d'].get('t') or tgt[0].locals[0]):
                continue
            g = tgt[0]
            for sb, st in g.terms('switch'):
                for o in origins(g, st['a']):
                    if o.kind == 'rvalue' and o.stmt['rv']['k'] == 'discr' and \
                            all(x.kind == 'arg' and x.n == hit[0] + 1 for x in origins(g, o.stmt['rv']['a'])):
                        found = set(v for v, b in st['arms'])
                        how = 'match on the status in %s' % g.path
            for b2, t2 in g.calls('core::slice::<impl [T]>::contains'):
                names = set()
                for o in origins(g, t2['args'][0], through_casts=True):
                    if o.kind == 'const' and o.s:
                        c = http.consts.get(norm(o.s.replace('const ', '')))
                        if c is not None:
                            for b3, i3, s3 in c.stmts('assign'):
                                rv = s3['rv']
                                if rv['k'] == 'agg' and rv.get('ak') == 'adt' and (rv.get('adt') or '').endswith('status_code::StatusCode'):
                                    names.add(rv['variant'])
                if names:
                    found = names
                    how = 'membership in a table in %s' % g.path
    if found is None:
        rep.bad('R16.g', 'redirect|status-test', 'cannot read the set of statuses Redirect::handle treats as redirects (the test on res.status() is neither '
                'membership in a table nor a match): it must be exactly 301, 302, 303, 307, 308')
        return
    want_names = set(REDIRECT_STATUSES)
    want_codes = set(REDIRECT_STATUSES.values())
    ok = found == want_names or found == want_codes
    rep.expect('R16.g', ok, 'redirect|status-set', '%s: %s' % (how, sorted(map(str, found))),
               'Redirect::handle follows the statuses %s (%s); the documented redirects are 301, 302, 303, 307, 308 — any other 3xx (300, 304, 305) '
               'must end the probing' % (sorted(map(str, found)), how))


def none_edges(fn, call_bb, call_t):
    from rules.props import c01
    return c01.none_edges_of(fn, call_bb, call_t)


def check_redirect(rep, http):
    bodies = [f for f in http.built if f.kind == 'Closure' and f.coroutine and 'redirect::Redirect' in (f.root or '')
              and (f.root or '').endswith('::handle')]
    if len(bodies) != 1:
        rep.missing('R16.d', 'async body of Redirect::handle')
        return
    f = bodies[0]
    check_redirect_statuses(rep, http, f)
    # R16.h: following redirects changes WHERE the request goes and nothing else: in Redirect::handle (its body, closures and helpers) the
    # only mutator of a request that is called is url_mut — no method, body, header, query or extension is set, taken or removed
    from rules.props import c14 as _c14
    rep.rule('R16.h', 'Redirect::handle changes a request only through url_mut: method, body and headers of the original request are sent on unchanged', floor=1)
    fam = [f] + http.closures_of(f)
    muts = []
    for g in fam:
        for bb, t in g.calls():
            cn = norm(t.get('callee') or '')
            if re.search(r'::request::Request::\w+$', cn) and last_seg(cn) in _c14.HT_MUTATORS | {'set_middleware', 'middleware', 'take_middleware'}:
                muts.append((last_seg(cn), g.where(bb)))
    other = [m for m in muts if m[0] != 'url_mut']
    rep.expect('R16.h', any(m[0] == 'url_mut' for m in muts) and not other, 'only-the-url', 'the only request mutator called is url_mut (%d site(s))' % len(muts),
               'Redirect::handle also changes the request through %s: the rest of the chain and the shell no longer get the original '
               'request (method, headers, body) at the final URL' % other)
    probes = list(f.calls('crux_http::client::Client::send'))
    finals = list(f.calls('crux_http::middleware::Next::run'))
    if len(probes) != 1 or len(finals) != 1:
        rep.bad('R16.d', 'shape', 'expected one probing client.send and one next.run in Redirect::handle')
        return
    pb, pt = probes[0]
    nb, nt = finals[0]
    # the natural loop that contains the probe and is not the await poll loop: take the largest
    loops = [(h, body) for h, body in f.loops() if pb in body]
    if not loops:
        rep.bad('R16.d', 'loop', 'the probing client.send is not inside a loop')
        return
    h, body = max(loops, key=lambda x: len(x[1]))
    # exit test: a switch in the loop whose condition compares a local with self.attempts
    counter = None
    exit_ok = False
    for bb in sorted(body):
        t = f.blocks[bb]['t']
        if t['k'] != 'switch':
            continue
        for o in origins(f, t['a']):
            if o.kind != 'rvalue' or o.stmt['rv']['k'] != 'binop' or o.stmt['rv']['op'] not in ('Lt', 'Le', 'Gt', 'Ge', 'Ne', 'Eq'):
                continue
            rv = o.stmt['rv']
            sides = [rv['a'], rv['b']]
            att = [s for s in sides if has_field_origin(f, s, 'attempts') or
                   any('.attempts' in (x.get('p') or []) for x in [s] if 'p' in x)]
            if not att:
                # direct copy of a field place
                att = [s for s in sides if any(
                    d[0] == 'stmt' and d[3]['rv']['k'] == 'use' and '.attempts' in d[3]['rv']['a'].get('p', [])
                    for d in f.defs(s.get('l', -1)))]
            if not att:
                continue
            other = [s for s in sides if s is not att[0]][0]
            for d in f.defs(other.get('l', -1)):
                if d[0] == 'stmt' and d[3]['rv']['k'] == 'use' and 'l' in d[3]['rv']['a']:
                    counter = d[3]['rv']['a']['l']
            succs = f.succ(bb)
            if any(s not in body for s in succs) and any(s in body for s in succs) and f.dominates(bb, pb):
                exit_ok = True
    # the same bound written as `for _ in 0..self.attempts`: the loop is driven by next() on a Range whose end is self.attempts and
    # whose start is a constant; each cycle through the probe passes that next(), whose None edge leaves the loop
    range_form = False
    if not (exit_ok and counter is not None):
        for nbb, ntt in f.calls('core::iter::traits::iterator::Iterator::next'):
            if nbb not in body or not f.dominates(nbb, pb):
                continue
            src = origins(f, ntt['args'][0], extra_identity=[('core::iter::traits::collect::IntoIterator::into_iter', 0)])
            for o in src:
                if o.kind == 'agg' and (o.stmt['rv'].get('adt') or '').startswith('core::ops::range::Range') and len(o.stmt['rv'].get('ops') or []) == 2:
                    start, end = o.stmt['rv']['ops']
                    if start.get('o') == 'const' and (has_field_origin(f, end, 'attempts') or '.attempts' in (end.get('p') or []) or any(
                            d[0] == 'stmt' and d[3]['rv']['k'] == 'use' and '.attempts' in d[3]['rv']['a'].get('p', []) for d in f.defs(end.get('l', -1)))):
                        ne = none_edges(f, nbb, ntt)
                        if ne and pb not in f.reachable_after(pb, removed_blocks=[nbb]) and all(e[1] not in body or True for e in ne):
                            range_form = True
    rep.expect('R16.d', range_form or (exit_ok and counter is not None), 'exit-test',
               'loop exit compares a counter with self.attempts and dominates the probe',
               'Redirect::handle: no loop exit test comparing a counter with self.attempts dominates the probing send')
    # the counter is incremented on every cycle that contains the probe
    inc_blocks = []
    if counter is not None:
        for bb, idx, s in f.stmts('assign'):
            if s['d']['l'] == counter and not s['d']['p'] and bb in body:
                for o in origins(f, s['rv']['a']) if s['rv']['k'] == 'use' else []:
                    if o.kind == 'rvalue' and o.stmt['rv']['k'] == 'binop' and o.stmt['rv']['op'] in ('Add', 'AddWithOverflow'):
                        b = o.stmt['rv']
                        consts = [x for x in (b['a'], b['b']) if x.get('o') == 'const' and (x.get('v') or 0) >= 1]
                        reads = [x for x in (b['a'], b['b']) if x.get('l') == counter]
                        if consts and reads:
                            inc_blocks.append(bb)
    every_cycle = bool(inc_blocks) and pb not in f.reachable_after(pb, removed_blocks=inc_blocks)
    rep.expect('R16.d', range_form or every_cycle, 'increment-every-cycle',
               'the counter is incremented by a positive constant on every cycle through the probe',
               'Redirect::handle: a cycle through the probing send does not increment the counter compared with self.attempts')
    # probes are clones, the final request is the original
    probe_src = origins(f, pt['args'][1])
    rep.expect('R16.d', bool(probe_src) and all(o.kind == 'call' and call_matches(o.term, ['core::clone::Clone::clone']) for o in probe_src),
               'probe-is-clone', 'client.send receives req.clone()',
               'the probing send in Redirect::handle no longer receives a clone of the request')
    final_src = origins(f, nt['args'][1])
    orig = bool(final_src) and all(o.kind in ('arg',) and any('req' in tok for tok in o.suffix) for o in final_src)
    rep.expect('R16.d', orig and not f.in_cycle(nb), 'final-is-original',
               'next.run is outside the loop and receives the original request value',
               'next.run in Redirect::handle is inside the loop or no longer receives the original request: %s' % [repr(o) for o in final_src])
    # where the last probe went is where the original request goes: either the probe is a clone of the very request handed to next.run
    # and every URL write is on that request, or — when the probe is a request of its own — nothing leads from a write of the probe's
    # URL to next.run without a write of the original request's URL in between (the loop can end because the limit is used up just
    # as well as because a probe was answered)
    AS_MUT = [('core::convert::AsMut::as_mut', 0), ('core::ops::deref::DerefMut::deref_mut', 0), ('core::borrow::BorrowMut::borrow_mut', 0)]

    def _root(operand):
        return sorted(set((o.kind, getattr(o, 'n', getattr(o, 'bb', None)), tuple(x for x in o.suffix if x != '*')) for o in origins(f, operand, extra_identity=AS_MUT)))
    final_root = _root(nt['args'][1])
    clone_recv = [_root(o.term['args'][0]) for o in probe_src if o.kind == 'call' and call_matches(o.term, ['core::clone::Clone::clone'])]
    uw = [(bb, _root(t['args'][0])) for g in [f] for bb, t in g.calls() if re.search(r'::request::Request::url_mut$', norm(t.get('callee') or ''))]

    def _same(r):
        # the place is the request handed to next.run, or a part of it (the wrapped http_types request)
        return bool(r) and all(any(k == fk and n == fn_ and sfx[:len(fs)] == fs for fk, fn_, fs in final_root) for k, n, sfx in r)
    on_final = [bb for bb, r in uw if _same(r)]
    elsewhere = [bb for bb, r in uw if not _same(r)]
    form_a = bool(clone_recv) and all(_same(r) for r in clone_recv) and not elsewhere
    form_b = bool(elsewhere) and bool(on_final) and all(nb not in f.reachable_after(w, removed_blocks=on_final) for w in elsewhere)
    rep.expect('R16.d', bool(final_root) and (form_a or form_b), 'final-goes-where-the-last-probe-went',
               'the probe is a clone of the request handed to next.run and all %d URL write(s) are on it' % len(uw) if form_a else
               'every write of the probe URL is followed by a write of the original request URL before next.run',
               'Redirect::handle: the request handed to next.run can be left at an earlier URL than the last probe (URL writes on the original '
               'request at %s, on another request at %s, probe cloned from the original: %s) — e.g. when the loop ends because the attempt '
               'limit is used up' % ([f.where(b) for b in on_final], [f.where(b) for b in elsewhere], bool(clone_recv) and all(_same(r) for r in clone_recv)))
    # what Redirect hands back on success is what the rest of the chain returned for the ORIGINAL request: the Ok payload of the return
    # value is the awaited next.run, never a probe's response (a probe went to the shell directly, past the middleware stacked below)
    ret_ok = origins(f, {'l': 0, 'p': ['as Ok', '.0']})
    from_chain = bool(ret_ok) and all(o.kind == 'call' and o.bb == nb and any(s_[0] == 'await' for s_ in o.steps) for o in ret_ok)
    whole = origins(f, {'l': 0, 'p': []})
    direct = bool(whole) and all((o.kind == 'call' and ((o.bb == nb and any(s_[0] == 'await' for s_ in o.steps)) or
                                                        call_matches(o.term, ['core::ops::try_trait::FromResidual::from_residual']))) or
                                 (o.kind == 'agg' and o.stmt['rv'].get('variant') == 'Err') for o in whole)
    rep.expect('R16.d', from_chain or direct, 'returns-the-chain-result', 'every successful return is the result of next.run on the original request',
               'Redirect::handle can return Ok with something other than the result of next.run (e.g. the response of a probe): the middleware '
               'stacked after Redirect is then never run for that request')
    client_src = origins(f, nt['args'][2])
    rep.expect('R16.d', f.dominates(h, nb), 'final-after-loop', 'next.run is reached only through the loop header',
               'next.run in Redirect::handle can be reached without passing the redirect loop')
    # R16.f
    joins = list(f.calls('url::Url::join'))
    if not joins:
        rep.missing('R16.f', 'Url::join call in Redirect::handle')
        return
    base_locals = set()
    for bb, t in joins:
        for o in origins(f, t['args'][0]):
            pass
        a = t['args'][0]
        for d in f.defs(a['l']):
            if d[0] == 'stmt' and d[3]['rv']['k'] == 'ref':
                base_locals.add(d[3]['rv']['a']['l'])
    url_writes = []
    for bb, idx, s in f.stmts('assign'):
        d = s['d']
        if d['p'] == ['*'] and bb in body:
            if any(o.kind == 'call' and last_seg(o.term.get('callee') or '') == 'url_mut' for o in origins(f, {'l': d['l'], 'p': []})):
                url_writes.append(bb)
    if len(base_locals) != 1 or not url_writes:
        rep.bad('R16.f', 'shape', 'Redirect::handle: expected one base local for Url::join and at least one write through url_mut(); '
                'found bases %s, writes %s' % (sorted(base_locals), url_writes))
        return
    base = base_locals.pop()
    base_writes = [bb for bb, idx, s in f.stmts('assign') if s['d']['l'] == base and not s['d']['p'] and bb in body]
    base_writes += [bb for bb, t in f.calls() if t['d']['l'] == base and not t['d']['p'] and bb in body]
    ok = True
    for w in url_writes:
        # within one iteration: from the header, avoiding base writes, the URL write must be unreachable
        r = f.reachable([h], removed_blocks=set(base_writes) | (set(f.normal_blocks()) - set(body)))
        if w in r:
            ok = False
    rep.expect('R16.f', ok, 'base-follows-url', 'every path of an iteration that rewrites the request URL also updates the join base',
               'Redirect::handle: an iteration can rewrite the request URL without updating the base used for relative '
               'Location values (a relative redirect after a relative redirect is joined against a stale URL)')
