"""C08 — concurrent shells lose nothing (structural clauses)."""
import re

from rules.facts import norm, path_matches, origins, flows_to, call_matches, last_seg
from rules.common import CallGraph
from rules.props import c01, c03, c06

CONFIGS = {'quick': ['default', 'controls'], 'thorough': ['allfeat']}
TECHNIQUE = ('static analysis: lock-region rule (no user code under the executor lock), lock-order graph over the call graph with '
             'boxed closures as dynamic-dispatch candidates, atomic-ordering table, reader/writer ordering rule on the eviction test')
EXPLANATION = (
    'R08.a in QueuingExecutor::run_task the task slot is looked up and emptied inside one region of the `tasks` lock and no '
    'Future::poll or waker call lies inside any region of that lock; R08.b the "acquired while holding" graph over all lock classes '
    '(executor tasks, bridge registry, core model, legacy SharedState, cleared-timer set), computed through the call graph with every '
    'boxed closure as a candidate for dynamic calls, is acyclic and has no self edge; R08.c every load of aborted/finished/woken is at '
    'least Acquire, every store at least Release, and the timer counter is only touched by an atomic read-modify-write; R08.d the '
    'eviction test reads the waker count before the woken flag with an Acquire fence in between (the reverse of the order in which '
    'CommandWaker publishes them); R08.e Command::poll_next registers the host waker before it runs tasks or reads its queues (a resolve on '
    'another thread landing after the last look but before a late registration would wake nobody). Linearizability of concurrent calls is not decided. R08.f the bridge registry looks up, resolves and removes an entry inside one lock region and resolver state is written only by its own resolve; R08.g update / view take the model through blocking guards of the model lock (shared with C03). R08.j the legacy shell futures check their slot and store their waker inside one region of the shared-state lock, which the resolve closure also takes (shared with C05). R08.k every run of the executor in Core::process is followed by a look at the event channel before the call returns (shared with C03 R03.f).')

LOCK_CALLS = ['std::sync::poison::mutex::Mutex::lock', 'std::sync::poison::rwlock::RwLock::read',
              'std::sync::poison::rwlock::RwLock::write', 'std::sync::poison::mutex::Mutex::try_lock']
RUNTIME = ['crux_core', 'crux_http', 'crux_kv', 'crux_time', 'crux_platform']


def lock_class(fn, t):
    """name of the lock a lock()/read()/write() call acts on: the struct field or static it lives in"""
    names = set()
    for o in origins(fn, t['args'][0], through_clone=True):
        toks = [tok[1:].lstrip('^') for tok in (getattr(o, 'suffix', None) or []) if tok.startswith('.')]
        if toks:
            names.add(toks[-1] if toks[-1] not in ('0',) else 'registry.0')
        elif o.kind == 'const' and (o.static or o.s):
            names.add((o.static or o.s).rsplit('::', 1)[-1])
        elif o.kind == 'call':
            c = norm(o.term.get('callee') or '')
            if c.endswith('Deref::deref') or c.endswith('LazyLock::force'):
                for x in origins(fn, o.term['args'][0]):
                    if x.kind == 'const' and (x.static or x.s):
                        names.add((x.static or x.s).rsplit('::', 1)[-1])
                    if x.kind == 'rvalue' and x.stmt['rv']['k'] == 'other':
                        names.add(x.stmt['rv'].get('s', '?')[:40])
            elif 'upgrade' in c or 'Arc' in c:
                names.add('shared_state')
    ty = t['args'][0].get('t', '')
    m = re.search(r'(SharedState|ResolveSerialized|HashSet|Slab<core::option::Option)', ty)
    if m:
        names.add({'SharedState': 'shared_state', 'ResolveSerialized': 'registry', 'HashSet': 'CLEARED_TIMER_IDS',
                   'Slab<core::option::Option': 'tasks'}[m.group(1)])
    # normalise
    out = set()
    for n in names:
        if n in ('shared_state', 'callback_shared_state'):
            out.add('legacy SharedState')
        elif n in ('registry', 'registry.0', '0'):
            out.add('bridge registry')
        elif n == 'tasks':
            out.add('executor tasks')
        elif n == 'model':
            out.add('core model')
        elif 'CLEARED' in n:
            out.add('CLEARED_TIMER_IDS')
        else:
            out.add(n)
    if len(out) > 1:
        # prefer the type-derived class
        for pref in ('legacy SharedState', 'bridge registry', 'executor tasks', 'core model', 'CLEARED_TIMER_IDS'):
            if pref in out:
                return pref
    return sorted(out)[0] if out else 'unknown:' + ty[:60]


def closure_sig(g):
    """(arity, takes-a-deserializer, return kind) of a closure body"""
    params = g.locals[2:g.argc + 1]
    ret = g.locals[0]
    return (len(params), any('erased_serde::de::Deserializer' in p for p in params), ret_kind(ret), tuple(_pkind(p) for p in params))


def _pkind(ty):
    """how a parameter is passed: by mutable reference, by shared reference or by value (a closure taking `&mut Serializer` is no
    candidate for a `dyn FnMut(Out)` slot filled by crux's own by-value resolve closures)"""
    ty = re.sub(r"^&'\w+ ", '&', ty.strip())
    if ty.startswith('&mut '):
        return 'refmut'
    if ty.startswith('&'):
        return 'ref'
    return 'value'


def ret_kind(ret):
    ret = ret.strip()
    if ret == '()':
        return 'unit'
    if ret.startswith('core::result::Result<'):
        return 'result'
    if 'Pin<alloc::boxed::Box<dyn core::future::future::Future' in ret:
        return 'boxfuture'
    return 'other'


def dyn_sig(ty):
    """signature of a `dyn Fn*(Args) -> Ret` type string, or None when the callee is not a trait object"""
    m = re.search(r'dyn (?:for<[^>]*> )?core::ops::function::Fn(?:Once|Mut)?\((.*)', ty)
    if not m:
        return None
    rest = m.group(1)
    depth = 1
    i = 0
    while i < len(rest) and depth:
        if rest[i] in '(<[':
            depth += 1
        elif rest[i] in ')>]' and not (rest[i] == '>' and i and rest[i - 1] == '-'):
            depth -= 1
        i += 1
    args = rest[:i - 1]
    after = rest[i:]
    n = len(c01.split_args(args)) if args.strip() else 0
    ret = 'unit'
    m2 = re.match(r'\s*->\s*(.*)', after)
    if m2:
        r = m2.group(1)
        # cut at the end of the return type (before ` + Send` or the closing of the Box)
        depth = 0
        j = 0
        while j < len(r):
            if r[j] in '(<[':
                depth += 1
            elif r[j] in ')>]' and not (r[j] == '>' and j and r[j - 1] == '-'):
                if depth == 0:
                    break
                depth -= 1
            elif r[j] == '+' and depth == 0:
                break
            j += 1
        ret = ret_kind(r[:j].strip())
    return (n, 'erased_serde::de::Deserializer' in args, ret, tuple(_pkind(a) for a in c01.split_args(args)) if args.strip() else ())


def all_closures(crates):
    out = []
    for c in crates:
        for g in c.built:
            if g.kind == 'Closure' and not g.coroutine:
                out.append(g)
    return out


CLOSURE_CALLS = ['core::ops::function::Fn::call', 'core::ops::function::FnMut::call_mut', 'core::ops::function::FnOnce::call_once']


def dynamic_candidates(t, closures, crates):
    """workspace functions a dynamically dispatched call may reach: closures of a matching signature for calls
    through `dyn Fn*`, impl methods for calls through other trait objects.  Calls through a type parameter are
    user-supplied code and are outside the graph."""
    out = []
    if t.get('callee') is None or call_matches(t, CLOSURE_CALLS):
        ty = t.get('fty') or (t.get('targs') or [''])[0]
        sig = dyn_sig(ty)
        if sig is not None:
            out += [g for g in closures if closure_sig(g) == sig]
    elif t.get('rkind') == 'Virtual' or (t.get('ctrait') and not t.get('resolved')):
        tr = norm(t.get('ctrait') or '')
        name = last_seg(t.get('callee') or '')
        st = (t.get('targs') or [''])[0]
        if st.startswith('dyn ') or t.get('rkind') == 'Virtual':
            for c in crates:
                for g in c.built:
                    if g.kind == 'AssocFn' and g.name == name and norm(g.assoc.get('trait') or '') == tr:
                        out.append(g)
    return out


def check(ctx, rep):
    rep.rule('R08.a', 'no user code runs under the executor\'s task lock; the slot is taken in the region that looked it up', floor=2)
    rep.rule('R08.b', 'the lock-order graph is acyclic', floor=5)
    rep.rule('R08.c', 'flag loads are >= Acquire, stores >= Release; the timer counter is only touched by an atomic RMW', floor=5)
    rep.rule('R08.d', 'the eviction test reads in the reverse of the order in which CommandWaker publishes', floor=2)
    crates = [ctx.crate('default', n) for n in RUNTIME]
    if any(c is None for c in crates):
        rep.missing('R08.a', 'runtime crate facts')
        return
    core = crates[0]
    time = crates[3]
    # ---- R08.a
    f = c06.method(core, 'crux_core::capability::executor::QueuingExecutor', 'run_task')
    if f is None:
        rep.missing('R08.a', 'QueuingExecutor::run_task')
    else:
        regions = c03.lock_regions(f, ['std::sync::poison::mutex::Mutex::lock'])
        # temporaries: lock().expect(..).get_mut(..) style regions live until the statement's guard temp is dropped
        polls = [bb for bb, t in f.calls('core::future::future::Future::poll')]
        wakes = [bb for bb, t in f.calls('core::task::wake::Waker::wake', 'core::task::wake::Waker::wake_by_ref', 'core::mem::drop')
                 if 'Waker' in ' '.join(t.get('targs') or [])]
        inside = [p for p in polls + wakes for r in regions if p in r[3]]
        rep.expect('R08.a', len(polls) == 1 and len(regions) >= 3 and not inside, 'run_task|poll-outside-lock',
                   'Future::poll lies outside all %d regions of the tasks lock' % len(regions),
                   'QueuingExecutor::run_task polls a future (or drops/wakes a waker) while holding the tasks lock: a task that '
                   'spawns or wakes from another thread would deadlock / serialise')
        gets = [bb for bb, t in f.calls('slab::Slab::get_mut')]
        takes = [bb for bb, t in f.calls('core::option::Option::take')]
        # `tasks.get_mut(slot).map(Option::take)`: take handed over as a function item
        takes += [bb for bb, t in f.calls('core::option::Option::map', 'core::option::Option::and_then') if len(t.get('args') or []) > 1 and
                  t['args'][1].get('o') == 'const' and norm(t['args'][1].get('fn') or '') == 'core::option::Option::take']
        takes.sort()
        first = [r for r in regions if gets and gets[0] in r[3]]
        rep.expect('R08.a', bool(first) and bool(takes) and takes[0] in first[0][3] and f.dominates(takes[0], polls[0]) if polls else False,
                   'run_task|take-under-lookup-lock', 'the future is taken out of its slot inside the region that looked the slot up',
                   'QueuingExecutor::run_task no longer empties the slot under the lock that looked it up (two threads could poll one task)')
    # ---- R08.b
    cg = CallGraph(crates)
    closures = all_closures(crates)

    def callees(fn):
        out = list(cg.callees(fn))
        for bb, t in fn.calls():
            out += dynamic_candidates(t, closures, crates)
        return out
    acquires = {}

    def acq(fn, stack=()):
        if fn.path in acquires:
            return acquires[fn.path]
        if fn.path in stack:
            return set()
        s = set()
        for bb, t in fn.calls(*LOCK_CALLS):
            s.add(lock_class(fn, t))
        for g in callees(fn):
            s |= acq(g, stack + (fn.path,))
        acquires[fn.path] = s
        return s
    edges = {}
    classes = set()
    for c in crates:
        for fn in c.built:
            if fn.j.get('exp'):
                continue
            for g, lb, gb, region, ends in c03.lock_regions(fn, LOCK_CALLS):
                held = lock_class(fn, fn.blocks[lb]['t'])
                classes.add(held)
                for b2 in region:
                    t2 = fn.blocks[b2]['t']
                    if t2['k'] != 'call' or b2 in (lb, gb):
                        continue
                    inner = set()
                    if call_matches(t2, LOCK_CALLS):
                        inner.add(lock_class(fn, t2))
                    # local callees and dynamic candidates of this one call
                    cands = []
                    for key in ('resolved', 'callee'):
                        p = t2.get(key)
                        if p and norm(p) in cg.by_path:
                            cands += cg.by_path[norm(p)]
                            break
                    cands += dynamic_candidates(t2, closures, crates)
                    for g2 in cands:
                        inner |= acq(g2)
                    for i in inner:
                        edges.setdefault((held, i), []).append(fn.where(b2))
    for (a, b), where in sorted(edges.items()):
        if a == b:
            rep.bad('R08.b', 'self|%s' % a, 'lock class `%s` may be re-acquired while it is held, at %s' % (a, where[:2]))
    # cycles
    adj = {}
    for (a, b) in edges:
        if a != b:
            adj.setdefault(a, set()).add(b)
    cyc = find_cycle(adj)
    rep.expect('R08.b', cyc is None, 'acyclic', 'lock-order edges %s form no cycle' % sorted('%s -> %s' % e for e in edges if e[0] != e[1]),
               'lock-order cycle: %s' % (' -> '.join(cyc) if cyc else ''))
    for cl in ('executor tasks', 'bridge registry', 'core model', 'legacy SharedState', 'CLEARED_TIMER_IDS'):
        rep.expect('R08.b', cl in classes, 'class|%s' % cl, 'lock class found and its regions analysed',
                   'lock class `%s` was not found: the lock-order rule would be blind to it (found %s)' % (cl, sorted(classes)))
    unknown = [c for c in classes if c.startswith('unknown') or c not in ('executor tasks', 'bridge registry', 'core model', 'legacy SharedState', 'CLEARED_TIMER_IDS')]
    rep.expect('R08.b', not unknown, 'no-new-lock', 'no lock outside the five tabled classes',
               'a lock outside the tabled classes exists: %s (add it to the lock-order table)' % unknown)
    # ---- R08.c
    flags = ('aborted', 'finished', 'woken')
    n = 0
    for fn in core.built:
        if fn.j.get('exp') or '::testing' in fn.npath:
            continue
        for bb, t in fn.calls(*c06.ATOMIC_LOAD):
            fl = c01.field_of_receiver(fn, t['args'][0]) & set(flags)
            if not fl:
                continue
            n += 1
            o = c06.ordering_of(fn, t['args'][1])
            rep.expect('R08.c', o in ('Acquire', 'SeqCst'), '%s|load %s' % (fn.kpath, sorted(fl)[0]), 'load(%s)' % o,
                       '%s loads `%s` with ordering %s (needs Acquire or stronger)' % (fn.where(bb), sorted(fl)[0], o))
        for bb, t in fn.calls(*c06.ATOMIC_STORE):
            fl = c01.field_of_receiver(fn, t['args'][0]) & set(flags)
            if not fl:
                continue
            n += 1
            o = c06.ordering_of(fn, t['args'][2])
            rep.expect('R08.c', o in ('Release', 'SeqCst'), '%s|store %s' % (fn.kpath, sorted(fl)[0]), 'store(%s)' % o,
                       '%s stores `%s` with ordering %s (needs Release or stronger)' % (fn.where(bb), sorted(fl)[0], o))
    if n < 7:
        rep.bad('R08.c', 'sites', 'expected at least 7 loads/stores of aborted/finished/woken, found %d' % n)
    # timer counter: only fetch_add
    touched = []
    for fn in time.built:
        for bb, t in fn.calls():
            c = norm(t.get('callee') or '')
            if 'core::sync::atomic::' in c and t['args'] and any(o.kind == 'const' and 'COUNTER' in (o.static or '')
                                                                 for o in origins(fn, t['args'][0])):
                touched.append((fn, bb, last_seg(c)))
    rep.expect('R08.c', bool(touched) and all(x[2] in ('fetch_add',) for x in touched), 'timer-counter',
               'the timer id counter is only touched by fetch_add (%d site(s))' % len(touched),
               'the timer id counter is accessed by %s: a non-RMW access can hand out one id twice under concurrency' % [x[2] for x in touched])
    # ---- R08.d
    rt = c06.method(core, 'crux_core::command::Command', 'run_task')
    if rt is None:
        rep.missing('R08.d', 'Command::run_task')
    else:
        counts = [bb for bb, t in rt.calls('alloc::sync::Arc::strong_count')]
        wloads = [bb for bb, t in rt.calls(*c06.ATOMIC_LOAD) if 'woken' in c01.field_of_receiver(rt, t['args'][0])]
        fences = [bb for bb, t in rt.calls('core::sync::atomic::fence') if c06.ordering_of(rt, t['args'][0]) in ('Acquire', 'SeqCst', 'AcqRel')]
        ok = len(counts) == 1 and len(wloads) == 1 and rt.dominates(counts[0], wloads[0]) and counts[0] != wloads[0] and \
            any(rt.dominates(counts[0], fb) and rt.dominates(fb, wloads[0]) for fb in fences)
        rep.expect('R08.d', ok, 'reader-order', 'Arc::strong_count -> fence(Acquire) -> woken.load(Acquire)',
                   'Command::run_task reads the woken flag before the waker count (or without an Acquire fence between them): a wake-up on '
                   'another thread landing between the two reads evicts a task that was just woken')
    wk = [g for g in core.built if path_matches(g.assoc.get('trait'), 'alloc::task::Wake') and g.name == 'wake_by_ref'
          and path_matches(g.assoc.get('self_adt'), 'crux_core::command::executor::CommandWaker')]
    if len(wk) != 1:
        rep.missing('R08.d', 'CommandWaker::wake_by_ref')
    else:
        g = wk[0]
        sends = [bb for bb, t in g.calls('crossbeam_channel::channel::Sender::send')]
        stores = [bb for bb, t in g.calls(*c06.ATOMIC_STORE) if 'woken' in c01.field_of_receiver(g, t['args'][0])]
        ok = len(sends) == 1 and len(stores) == 1 and g.dominates(sends[0], stores[0]) and sends[0] != stores[0]
        rep.expect('R08.d', ok, 'writer-order', 'enqueue id, then woken.store(Release) (the Arc is dropped by the caller afterwards)',
                   'CommandWaker::wake_by_ref no longer enqueues the task before it stores `woken`')
    # R08.e: check-then-register races (shared with C05 R05.a)
    from rules.props import c05
    rep.rule('R08.e', 'a hosted command registers the host\'s waker before it runs tasks or looks at its queues, so a wake from another thread is never lost', floor=3)
    c05.check_register_before_look(rep, 'R08.e', core)
    # R08.f: resuming a request over the bridge is one atomic step with respect to other threads: the lookup of the entry, its
    # resolution and its removal all happen inside ONE region of the registry lock, and nothing swaps a placeholder into the registry
    # (a second response for the same id arriving in between would see the wrong state)
    from rules.props import c09
    rep.rule('R08.f', 'the bridge registry looks up, resolves and removes an entry within one lock region; resolver state is written only by its own resolve', floor=3)
    res = c06.method(core, 'crux_core::bridge::registry::ResolveRegistry', 'resume')
    if res is None:
        rep.missing('R08.f', 'ResolveRegistry::resume')
    else:
        c09.check_resume_atomic(rep, 'R08.f', res)
    c09.check_entry_writers(rep, 'R08.f', core)
    # R08.h: when all calls have returned the core is quiescent and no wake-up was dropped: the executor loops run to quiescence and a task
    # another thread is polling gets its id back on the ready queue (shared with C01 R01.e); R08.i every wake does the whole job
    rep.rule('R08.h', 'the executor loops run to quiescence and re-queue a task that is out of its slot', floor=6)
    c01.check_executor_loops(rep, core, rid='R08.h')
    # R08.k: "when all calls have returned the core is quiescent": a caller that runs tasks (its own or ones another thread made runnable)
    # looks at the event channel again before it returns (shared with C03 R03.f; seeded: a trailing run_all after the event loop, which
    # only finds work when a second thread queued some)
    c03.check_process_looks(rep, 'R08.k', core)
    from rules.props import c05 as _c05
    rep.rule('R08.i', 'every way of waking a task waker enqueues the task, marks it woken and wakes the parent, on every path', floor=5)
    _c05.check_wake_impls(rep, 'R08.i', core, None)
    # R08.j: the legacy capability futures are resolved from any thread: the poll checks its slot and stores its waker inside ONE region of
    # the shared-state lock, and the resolve closure delivers and takes the waker under the same lock (a resolution landing between an
    # unlocked check and the store would find no waker and the poller would sleep on a non-empty slot) (shared with C05 R05.d / R05.e)
    rep.rule('R08.j', 'legacy shell futures check and register under one lock, which the resolve closure also takes; a delivery always wakes the stored waker', floor=6)
    _c05.check_legacy_futures(rep, 'R08.j', 'R08.j', core)
    # R08.g: concurrent callers serialise on the model lock and each one finishes its own work: update takes the model through a BLOCKING
    # write() (a try_write that gives up leaves the caller's events to "whoever holds the lock", which may be a reader in view())
    rep.rule('R08.g', 'App::update / App::view take the model through blocking guards of the model lock; update is alone in its region', floor=2)
    c03.check_model_lock(rep, 'R08.g', 'R08.g', core)
    rep.assume('Arc drop decrements the strong count with Release; an Acquire fence after reading the decremented count synchronises with it')
    rep.assume('user-supplied closures, futures and App::update are outside the lock-order graph')


def find_cycle(adj):
    color = {}
    stack = []

    def dfs(u):
        color[u] = 1
        stack.append(u)
        for v in sorted(adj.get(u, ())):
            if color.get(v) == 1:
                return stack[stack.index(v):] + [v]
            if v not in color:
                r = dfs(v)
                if r:
                    return r
        stack.pop()
        color[u] = 2
        return None
    for u in sorted(adj):
        if u not in color:
            r = dfs(u)
            if r:
                return r
    return None
