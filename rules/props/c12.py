"""C12 — malformed input across the boundary fails cleanly (structural clauses)."""
from rules.facts import norm, path_matches, origins, flows_to, call_matches, last_seg
from rules.common import panic_sites, failure_reaches_error, is_fallible_ty, in_expansion, CHAIN_OK
from rules.props import c01, c06

CONFIGS = {'quick': ['default', 'controls'], 'thorough': ['allfeat']}
TECHNIQUE = ('static analysis: error-discipline rule on every fallible call of the boundary modules, edge-dominance rule (input is '
             'rejected before the core is touched), frozen table of explicit panics, bounded-slice reader rule')
EXPLANATION = (
    'R12.a every call in crux_core::bridge whose result type carries BridgeError, erased_serde::Error, ResolveError or '
    'bincode::Error propagates its failure to the function\'s error return — it is never unwrapped, asserted on or discarded; R12.b in '
    'the bridge the event given to the core is the Ok payload of the deserialisation, and on the response arm Core::process is reachable '
    'only after resume returned Ok; R12.c (with C09 R09.a) a rejected response touches the one entry addressed by the id; R12.d every '
    'explicit panic (unwrap, expect, panic!, unreachable!, indexing) in the boundary modules is a row of a frozen table: lock poisoning, '
    'EffectId overflow, the unreachable after the discriminant test, and the documented panic on an id that names no outstanding request '
    '(outside the property\'s input domain); R12.e both bincode deserialisers are built with from_slice, whose length prefixes are '
    'checked against the remaining input; R12.f errors that blame the input (DeserializeEvent, DeserializeOutput, ProcessResponse) are produced only '
    'before any call that can enter the core, so a rejected input has not been applied. Panics, hangs or allocation inside user Deserialize impls and serde_json are not decided. R12.c resume() touches only the addressed entry and frees it only when it can no longer be resolved, and every effect — notifications included — is announced under the slab key of its own entry, so a stray response never meets another request (shared with C09 R09.a/b). R12.i the wire types decoded from shell input derive their serde impls and carry only wire-neutral attributes: no conversion code of crux\'s own runs inside deserialisation (shared with C10). R12.i is the wire-type rule of C10 (R10.a-c) run over every type decoded from shell input.')

BOUNDARY_ERRORS = ('crux_core::bridge::BridgeError', 'erased_serde::error::Error', 'crux_core::core::resolve::ResolveError',
                   'bincode::error::ErrorKind', 'alloc::boxed::Box<bincode::error::ErrorKind>')

# (function key path, kind, detail fragment) -> reason
PANIC_TABLE = [
    ('crux_core::bridge::registry::ResolveRegistry::register', 'expect', 'PoisonError', 'lock poisoning (a previous panic while the registry was locked)'),
    ('crux_core::bridge::registry::ResolveRegistry::resume', 'expect', 'PoisonError', 'lock poisoning'),
    ('crux_core::bridge::registry::ResolveRegistry::register', 'expect', 'TryFromIntError', 'EffectId overflow: more than u32::MAX entries in the slab'),
    ('crux_core::bridge::request_serde::ResolveSerialized::resolve', 'panic', 'unreachable', 'unreachable!() after mem::replace of a value just matched as Once'),
]


def boundary_fns(core):
    out = []
    for f in core.built:
        if f.j.get('exp'):
            continue
        if f.npath.startswith('crux_core::bridge::') or f.npath.startswith('<crux_core::bridge::') or '::bridge::' in f.npath.split('::{closure')[0]:
            out.append(f)
    return out


def carries_boundary_error(ty):
    return ty.startswith('core::result::Result<') and any(e in ty for e in BOUNDARY_ERRORS)


def asserted_on(fn, local):
    """is the value (or a borrow of it) inspected by an assert!/debug_assert!?"""
    for s in flows_to(fn, local):
        if s[0] == 'callarg':
            t = s[2]
            if any(m in ('assert', 'debug_assert', 'assert_eq', 'debug_assert_eq', 'assert_matches') for m in (t.get('x') or [])):
                return s[1], t
    return None


def check_resume_result(rep, rid, core, fns):
    """the bridge runs the core after a response only when resume() accepted it: Core::process is reachable from the resume call only
    along the Ok edge of `?` on its result, so every rejection (unknown id, spent one-shot, finished stream, undecodable payload) is
    returned to the shell as an error"""
    from rules.common import Summaries
    sm0 = Summaries([core])
    rs_sites = [(f, bb, t) for f in fns for bb, t in f.calls('crux_core::bridge::registry::ResolveRegistry::resume')]
    ok = len(rs_sites) == 1
    if ok:
        f, rb, rt = rs_sites[0]
        pr = sm0.sites(f, ['crux_core::core::Core::process'], 'may')
        ok = False
        branch = [(bb, t) for bb, t in f.calls('core::ops::try_trait::Try::branch')
                  if any(o.kind == 'call' and o.bb == rb for o in origins(f, t['args'][0]))]
        if branch and pr:
            res_l = branch[0][1]['d']['l']
            for sb, st in f.terms('switch'):
                if any(o.kind == 'rvalue' and o.stmt['rv']['k'] == 'discr' and o.stmt['rv']['a']['l'] == res_l for o in origins(f, st['a'])):
                    cont = None
                    for v, b in st['arms']:
                        if v == 0:
                            cont = (sb, b)
                    if cont and all(p_ not in f.reachable([rb], removed_edges=[cont]) for p_ in pr):
                        ok = True
        elif not branch:
            # `resume(id, data).map(|()| self.core.process())` / `.and_then(..)`: the combinator calls its closure on Ok only. The result of
            # resume must be the receiver of exactly that combinator, the core run must be inside the closure given to it, and no other run
            # of the core may be reachable after resume in the function itself
            combs = [(bb, t) for bb, t in f.calls('core::result::Result::map', 'core::result::Result::and_then')
                     if t['args'] and (lambda os_: bool(os_) and all(o.kind == 'call' and o.bb == rb for o in os_))(origins(f, t['args'][0]))]
            inside = False
            for bb, t in combs:
                for x in origins(f, t['args'][1]) if len(t['args']) > 1 else []:
                    if x.kind == 'agg' and x.stmt['rv'].get('ak') == 'closure':
                        g_ = core.by_exact(x.stmt['rv']['def'])
                        if g_ is not None and (list(g_.calls('crux_core::core::Core::process')) or sm0.sites(g_, ['crux_core::core::Core::process'], 'may')):
                            inside = True
            after = f.reachable_after(rb)
            ok = len(combs) == 1 and inside and not any(p_ in after for p_ in pr)
    rep.expect(rid, ok, 'process-after-ok-resume', 'Core::process is reachable from resume only along the Ok edge of `?`',
               'the bridge runs the core although resume returned an error')


def check(ctx, rep):
    rep.rule('R12.a', 'every boundary error is propagated, never unwrapped, asserted on or discarded', floor=5)
    rep.rule('R12.b', 'malformed input is rejected before the core is touched', floor=2)
    rep.rule('R12.d', 'explicit panics in the boundary modules are exactly the tabled ones', floor=2)
    rep.rule('R12.e', 'the bincode deserialisers read from a bounded slice', floor=2)
    core = ctx.crate('default', 'crux_core')
    if core is None:
        rep.missing('R12.a', 'crux_core facts')
        return
    fns = boundary_fns(core)
    if len(fns) < 15:
        rep.bad('R12.a', 'scope', 'expected at least 15 functions in crux_core::bridge, found %d' % len(fns))
    for f in fns:
        for bb, t in f.calls():
            if not carries_boundary_error(t['d']['t']) or in_expansion(t):
                continue
            if call_matches(t, CHAIN_OK + ['core::ops::try_trait::Try::from_output']):
                continue
            c = norm(t.get('callee') or 'dyn call')
            key = '%s|%s' % (f.kpath, last_seg(c))
            ok, why = failure_reaches_error(f, t['d']['l'], allow_panic=False)
            a = asserted_on(f, t['d']['l'])
            if a is not None:
                ok, why = False, 'the result is inspected by %s! before it is propagated: a rejected input panics in builds with debug assertions' % (
                    [m for m in a[1].get('x') if 'assert' in m][-1])
                key += '|asserted'
            rep.expect('R12.a', ok, key, 'failure of %s reaches the error return' % last_seg(c),
                       '%s: the error of %s is not propagated cleanly: %s' % (f.where(bb), c, why))
    # R12.b (sites are found wherever they are in the bridge module, so that helper extraction does not matter)
    from rules.common import Summaries
    sm0 = Summaries([core])
    pe_sites = [(f, bb, t) for f in fns for bb, t in f.calls('crux_core::core::Core::process_event')]
    ok = len(pe_sites) == 1
    if ok:
        f, bb, t = pe_sites[0]
        src = origins(f, t['args'][1])
        ok = bool(src) and all(o.kind == 'call' and (any(s_[0] == 'try' for s_ in o.steps) or o.suffix == ['as Ok', '.0']) and
                               (call_matches(o.term, ['core::result::Result::map_err']) or 'deserialize' in norm(o.term.get('callee') or ''))
                               for o in src)
    rep.expect('R12.b', ok, 'event-is-ok-payload', 'process_event receives `deserialize(data).map_err(..)?`',
               'the bridge hands the core an event that is not the Ok payload of the deserialisation')
    check_resume_result(rep, 'R12.b', core, fns)
    # R12.f: no input-caused rejection after the core has been entered
    rep.rule('R12.f', 'an error that blames the input (DeserializeEvent / DeserializeOutput / ProcessResponse) is only produced before the core is entered', floor=3)
    from rules.common import Summaries
    sm = Summaries([core])
    n_sites = 0
    for f in fns:
        entering = sm.sites(f, ['crux_core::core::Core::process_event', 'crux_core::core::Core::process'], 'may')
        after = set()
        for b in entering:
            after |= f.reachable_after(b)
        for bb in f.normal_blocks():
            blk = f.blocks[bb]
            names = []
            for st in blk['st']:
                if st['k'] != 'assign':
                    continue
                rv = st['rv']
                if rv['k'] == 'agg' and path_matches(rv.get('adt'), 'crux_core::bridge::BridgeError') and rv['variant'] in ('DeserializeEvent', 'DeserializeOutput', 'ProcessResponse'):
                    names.append(rv['variant'])
            t = blk['t']
            for a in t.get('args', []) or []:
                fnp = a.get('fn') or ''
                if 'bridge::BridgeError::' in fnp and last_seg(fnp) in ('DeserializeEvent', 'DeserializeOutput', 'ProcessResponse'):
                    names.append(last_seg(fnp))
            if t['k'] == 'call' and call_matches(t, ['core::convert::From::from', 'core::ops::try_trait::FromResidual::from_residual']) and \
                    'ResolveError' in ' '.join(t.get('targs') or []) and 'BridgeError' in ' '.join(t.get('targs') or []):
                names.append('ProcessResponse(from)')
            for nme in names:
                n_sites += 1
                key = '%s|%s' % (f.kpath, nme)
                rep.expect('R12.f', bb not in after, key, 'produced before any call that can enter the core',
                           '%s produces the input error %s after the core may already have been entered (process_event / process ran): '
                           'the input is rejected although it was applied' % (f.where(bb), nme))
    if n_sites < 3:
        rep.bad('R12.f', 'sites', 'expected at least 3 sites producing input errors, found %d' % n_sites)
    # R12.c: a rejected response affects at most the request it was addressed to: resume() touches only the addressed entry and frees it
    # only when it can no longer be resolved — never because the response was rejected (shared with C09 R09.a / R09.b)
    from rules.props import c09, c06
    rep.rule('R12.c', 'a rejected response touches only the addressed registry entry and never frees a request that can still be resolved', floor=3)
    res_fn = c06.method(core, 'crux_core::bridge::registry::ResolveRegistry', 'resume')
    if res_fn is None:
        rep.missing('R12.c', 'ResolveRegistry::resume')
    else:
        c09.check_resume(rep, 'R12.c', 'R12.c', core, res_fn)
    # ... and the id a stray response carries belongs to at most one effect: every effect (a notification too) is announced under the slab
    # key of its own entry, so a response addressed to a notification meets that notification's Never entry and nothing else
    reg_fn = c06.method(core, 'crux_core::bridge::registry::ResolveRegistry', 'register')
    if reg_fn is None:
        rep.missing('R12.c', 'ResolveRegistry::register')
    else:
        c09.check_register(rep, 'R12.c', core, reg_fn)
    # R12.h: the task awaiting a rejected response is woken and evicted; that must not cost a sibling its wake-up: every id taken off a
    # ready queue goes to run_task (nothing drains or skips queued wake-ups)
    rep.rule('R12.h', 'every task id taken off a ready queue is handed to run_task (a rejected response cannot swallow the wake-up of another request)', floor=2)
    from rules.props import c01 as _c01
    _c01.check_ready_ids_are_run(rep, 'R12.h', core)
    # R12.g: a rejected response drops its resolver unresolved, and the task awaiting it is evicted: that must cancel that task alone. The
    # aborted flags are written only by the abort handles (the root task shares its command's flag: flagging an evicted task would cancel
    # the sibling requests of the command as well) (shared with C06 R06.i)
    c06.check_flag_ownership(rep, core, rid='R12.g')
    # R12.i: decoding shell input runs no hand-written code of crux's own: every wire type derives its serde impls and carries only
    # wire-neutral attributes — a `#[serde(from = ..)]` / `deserialize_with` conversion runs INSIDE the bridge's deserialisation, under the
    # registry lock, and a panic there (a checked constructor on an out-of-range field) poisons the lock for every later call (shared with
    # C10 R10.a-c; seeded: Instant deserialised through a repr whose From calls the panicking Instant::new)
    from rules.props import c10 as _c10
    rep.rule('R12.i', 'wire types decoded from shell input derive their serde impls and carry only wire-neutral attributes (no conversion code runs while decoding)', floor=15)
    if ctx.crate('controls', 'crux_verif_controls') is None:
        rep.missing('R12.i', 'probe crate facts (controls configuration)')
    else:
        _c10.check_wire_types(ctx, _c10.RuleProxy(rep, 'R12.i', lambda key: True))
    # R12.d
    used = set()
    for f in fns:
        for bb, kind, detail, t in panic_sites(f):
            if kind == 'assert':
                continue
            raw = (t['args'][0].get('t') if t['args'] and 't' in t['args'][0] else '') or ''
            ident = '%s %s' % (detail, raw)
            row = None
            for i, (fk, k, frag, why) in enumerate(PANIC_TABLE):
                if fk == f.kpath and k == kind and (frag in ident or frag in ' '.join(t.get('x') or [])):
                    row = i
            key = '%s|%s %s' % (f.kpath, kind, detail)
            if row is None or row in used and PANIC_TABLE[row][2] not in ('PoisonError',):
                rep.bad('R12.d', key, 'untabled explicit panic in a boundary module at %s: %s %s' % (f.where(bb), kind, detail))
            else:
                used.add(row)
                rep.ok('R12.d', key, 'tabled: ' + PANIC_TABLE[row][3])
    # R12.e
    n = 0
    for f in core.built:
        for bb, t in f.calls():
            c = norm(t.get('callee') or '')
            if c.startswith('bincode::') and 'Deserializer' in c:
                n += 1
                bounded = last_seg(c) == 'from_slice'
                if not bounded and t['args']:
                    # a reader is acceptable when its options carry an explicit byte limit
                    bounded = any(o.kind == 'call' and call_matches(o.term, ['bincode::config::Options::with_limit']) for o in origins(f, t['args'][-1]))
                rep.expect('R12.e', bounded, '%s|%s' % (f.kpath, last_seg(c)), 'Deserializer::from_slice(&[u8], options) or a reader with with_limit(..)',
                           '%s builds a bincode deserialiser with %s and no byte limit: a corrupted length prefix can request an unbounded allocation' % (f.where(bb), c))
    if n < 2:
        rep.bad('R12.e', 'sites', 'expected 2 bincode deserialisers in the bridge, found %d' % n)
    rep.assume('bincode 1.3 SliceReader rejects a length prefix larger than the remaining input before allocating')
    rep.assume('user Deserialize impls, serde_json and App::update are outside the rules')
