"""C14 — an HTTP request reaches the shell exactly as the app described it (structural clauses)."""
import re
from rules.facts import norm, path_matches, origins, flows_to, call_matches, last_seg
from rules.props.c16 import coroutine_body

CONFIGS = {'quick': ['default', 'controls'], 'thorough': ['allfeat']}
TECHNIQUE = ('static analysis: field-provenance table for the HttpRequest conversion, single-conversion who-may-construct rule, '
             'one-emission-per-endpoint path rule, sibling diff of the two request builders')
EXPLANATION = (
    'R14.a each field of the HttpRequest built by into_protocol_request has the tabled source (method().to_string(), '
    'url().to_string(), the awaited take_body().into_bytes() or an empty Vec, and the enumeration of all names and all values of '
    'each name); R14.b nothing else constructs an HttpRequest from a Request and both APIs call that one conversion; R14.c each '
    'endpoint emits exactly one effect, outside any loop; R14.d every builder method of the command API and of the capability '
    'API resolves to the same Request/http_types callees; R14.e every mutating method of crux_http::Request forwards to exactly the same-named '
    'http_types method and changes nothing else. R14.h every builder setter of both APIs changes the request through its mutator on every non-error path, with a value computed from its argument (an argument is never skipped because it is empty or equal to a default). R14.j the argument of each body_json / body_form / body_string / body_bytes setter (Request and both builders) is consumed by the tabled http_types encoder of that format and by nothing else. R14.i crux_http never chooses a media type itself: no Mime::sniff / from_extension / Body::set_mime anywhere in the crate (positive control in the fixtures), set_content_type only from the content_type(..) setters. URL, query and body encoding inside url/http_types is trusted. R14.e also requires the forwarding call on every (non-error) path of the method.')

HT = 'http_types_red_badger_temporary_fork'
SIBLINGS = ['header', 'content_type', 'body', 'body_json', 'body_string', 'body_bytes', 'body_form', 'query', 'middleware']


def check(ctx, rep):
    rep.rule('R14.a', 'into_protocol_request copies method, url, body bytes and every value of every header', floor=6)
    rep.rule('R14.b', 'one conversion: nothing else builds protocol::HttpRequest from a Request; both APIs call it', floor=2)
    rep.rule('R14.c', 'each endpoint emits exactly one effect, outside any loop', floor=2)
    rep.rule('R14.d', 'sibling builder methods of the two APIs resolve to the same callees', floor=9)
    rep.rule('R14.j', 'each body_* setter hands its argument to the http_types encoder of that format and to nothing else (one encoding step, no intermediate form)', floor=12)
    rep.rule('R14.h', 'every builder setter puts its argument on the request on every path on which it hands the builder back', floor=18)
    cfgs = ['default'] + (['allfeat'] if ctx.has('allfeat') else [])
    for cfg in cfgs:
        http = ctx.crate(cfg, 'crux_http')
        if http is None:
            rep.missing('R14.a', 'crux_http facts (%s)' % cfg)
            continue
        check_conversion(rep, http, cfg)
        check_single(rep, http, cfg)
        check_emission(rep, http, cfg)
        check_siblings(rep, http, cfg)
        check_forwarders(rep, http, cfg)
        check_setters_apply(rep, http, cfg)
        check_body_encoders(rep, http, cfg)
    # R14.f: "exactly one request effect" also rests on the command primitives underneath: a request / notification made through the command API
    # puts its effect on the effect channel exactly once (shared with C01 R01.f)
    from rules.props import prims as _prims
    _core = ctx.crate('default', 'crux_core')
    rep.rule('R14.f', 'a command-API request, stream or notification puts its effect on the effect channel exactly once (at the call / at the first poll)', floor=10)
    if _core is None:
        rep.missing('R14.f', 'crux_core facts')
    else:
        _prims.check_request_typestate(rep, 'R14.f', _core)
    # R14.g: the URL the app gave is the URL the shell gets: nothing in crux_http edits a Url in place (who-may-call, expected count zero,
    # with a positive control in the fixture crate)
    rep.rule('R14.g', 'nothing in crux_http edits a URL in place (no Url::set_* / *_mut call)', floor=1)
    URL_EDIT = re.compile(r'^url::Url::(set_\w+|query_pairs_mut|path_segments_mut)$')
    _http = ctx.crate('default', 'crux_http')
    _edits = []
    for f in (_http.built if _http else []):
        if f.j.get('exp') or '::testing' in f.npath:
            continue
        for bb, t in f.calls():
            if URL_EDIT.match(norm(t.get('callee') or '')):
                _edits.append('%s at %s' % (last_seg(t['callee']), f.where(bb)))
    rep.expect('R14.g', _http is not None and not _edits, 'no-url-edit', 'no in-place edit of a Url in crux_http',
               'crux_http edits a URL in place (%s): method, absolute URL including query and fragment must reach the shell as the app gave them' % _edits)
    # R14.i: the media type the shell sees is the one the app gave, or the documented default of the body constructor it used: crux_http
    # never picks one itself — no content sniffing, no Body::set_mime, and set_content_type only from the app's own content_type(..)
    # (who-may-call over the crate; the first two expected zero)
    rep.rule('R14.i', 'crux_http never chooses a media type: no Mime::sniff / from_extension / Body::set_mime; set_content_type only from content_type(..)', floor=3)
    MIME_PICK = re.compile(r'::mime::Mime::(sniff|from_extension)$|::body::Body::set_mime$|::request::Request::copy_content_type_from_body$')
    CT_SET_OK = {'crux_http::request::Request::set_content_type', 'crux_http::request_builder::RequestBuilder::content_type',
                 'crux_http::command::RequestBuilder::content_type'}
    _picks, _n_ct = [], 0
    for f in (_http.built if _http else []):
        if f.j.get('exp') or '::testing' in f.npath:
            continue
        for bb, t in f.calls():
            cn = norm(t.get('callee') or '')
            if MIME_PICK.search(cn):
                _picks.append('%s at %s' % (last_seg(cn), f.where(bb)))
            elif cn.endswith('::request::Request::set_content_type'):
                _n_ct += 1
                host = _http.host_root(f)
                rep.expect('R14.i', host in CT_SET_OK, '%s|set_content_type' % host, 'the app\'s own content_type(..)',
                           '%s sets a Content-Type on the request: only the content_type(..) setters may (the app did not ask for this one)' % f.where(bb))
    rep.expect('R14.i', _http is not None and not _picks, 'no-media-type-chosen', 'no sniffing and no Body::set_mime in crux_http',
               'crux_http chooses a media type itself (%s): the shell gets a Content-Type the app never specified in place of the documented default' % _picks)
    if _n_ct < 3:
        rep.bad('R14.i', 'sites', 'expected the three set_content_type sites (Request, both builders), found %d' % _n_ct)
    _ctl = ctx.crate('controls', 'crux_verif_controls')
    _fs2 = _ctl.find('c15::sniff_media_type') if _ctl else []
    rep.control('R14.i fires on Mime::sniff', bool(_fs2) and any(MIME_PICK.search(norm(t.get('callee') or '')) for _, t in _fs2[0].calls()))
    _fs = _ctl.find('c15::strip_fragment') if _ctl else []
    rep.control('R14.g fires on Url::set_fragment', bool(_fs) and any(URL_EDIT.match(norm(t.get('callee') or '')) for _, t in _fs[0].calls()))
    rep.assume('http_types Request::{method,url,take_body,set_body,insert_header,set_query}, Body::{from_json,from_string,from_form,'
               'into_bytes} and url::Url behave as documented (third-party)')


def conv_body(http):
    fs = [f for f in http.built if f.kind == 'Closure' and f.coroutine and f.parent and
          f.parent.endswith('::into_protocol_request') and 'ProtocolRequestBuilder' in f.parent]
    return fs


def check_conversion(rep, http, cfg):
    fs = conv_body(http)
    if len(fs) != 1:
        rep.missing('R14.a', 'async body of into_protocol_request (%s)' % cfg)
        return
    f = fs[0]
    aggs = [(bb, s) for bb, i, s in f.stmts('assign') if s['rv']['k'] == 'agg' and
            path_matches(s['rv'].get('adt'), 'crux_http::protocol::HttpRequest')]
    if len(aggs) != 1:
        rep.bad('R14.a', 'aggregate@' + cfg, 'expected one HttpRequest construction in into_protocol_request, found %d' % len(aggs))
        return
    rv = aggs[0][1]['rv']
    fields = dict(zip(rv['fields'], rv['ops']))
    site = 'into_protocol_request@' + cfg

    def via_to_string(op, getter):
        srcs = origins(f, op)
        if not srcs:
            return False
        for o in srcs:
            if not (o.kind == 'call' and call_matches(o.term, ['alloc::string::ToString::to_string'])):
                return False
            inner = origins(f, o.term['args'][0])
            if not inner or not all(i.kind == 'call' and path_matches(i.term.get('callee'), getter) for i in inner):
                return False
        return True
    rep.expect('R14.a', via_to_string(fields['method'], 'crux_http::request::Request::method'), 'method',
               'method = self.method().to_string()', 'HttpRequest.method no longer comes from Request::method().to_string()',
               site=site + '#method')
    rep.expect('R14.a', via_to_string(fields['url'], 'crux_http::request::Request::url'), 'url',
               'url = self.url().to_string()', 'HttpRequest.url no longer comes from Request::url().to_string()', site=site + '#url')
    # body: awaited into_bytes(take_body()) or an empty Vec
    bsrc = origins(f, fields['body'])
    kinds = set()
    for o in bsrc:
        if o.kind == 'call' and path_matches(o.term.get('callee'), HT + '::body::Body::into_bytes') and \
                any(s[0] == 'await' for s in o.steps):
            inner = origins(f, o.term['args'][0])
            if inner and all(i.kind == 'call' and path_matches(i.term.get('callee'), 'crux_http::request::Request::take_body') for i in inner):
                kinds.add('bytes')
            else:
                kinds.add('other')
        elif o.kind == 'call' and call_matches(o.term, ['alloc::vec::Vec::new']):
            kinds.add('empty')
        else:
            kinds.add('other:' + o.kind)
    rep.expect('R14.a', kinds == {'bytes', 'empty'}, 'body', 'body = take_body().into_bytes().await? or an empty Vec',
               'HttpRequest.body provenance changed: %s' % sorted(kinds), site=site + '#body')
    # the empty branch is taken only when is_empty() is Some(true): evaluate the guards for the three possible values
    empty_blocks = [o.bb for o in bsrc if o.kind == 'call' and call_matches(o.term, ['alloc::vec::Vec::new'])]
    verdict = guard_eval(f, 'crux_http::request::Request::is_empty', empty_blocks)
    rep.expect('R14.a', verdict == {'None': False, 'Some(false)': False, 'Some(true)': True}, 'empty-only-when-known-empty',
               'the empty body is used only when is_empty() == Some(true)',
               'the body is replaced by an empty Vec when is_empty() is %s (a body of unknown length would be dropped)'
               % sorted(k for k, v in (verdict or {}).items() if v and k != 'Some(true)') if verdict else
               'guard of the empty-body branch not recognised', site=site + '#empty-guard')
    # headers: collect of iter().flat_map(outer) where outer maps HeaderValues::iter() with inner building HttpHeader
    hsrc = origins(f, fields['headers'])
    ok = bool(hsrc) and all(o.kind == 'call' and call_matches(o.term, ['core::iter::traits::iterator::Iterator::collect']) for o in hsrc)
    chain = []
    outer = None
    if ok:
        cur = hsrc[0].term['args'][0]
        for _ in range(6):
            srcs = origins(f, cur)
            if len(srcs) != 1 or srcs[0].kind != 'call':
                break
            t = srcs[0].term
            chain.append(last_seg(t.get('callee') or '?'))
            if last_seg(t.get('callee') or '') == 'flat_map':
                for o in origins(f, t['args'][1]):
                    if o.kind == 'agg' and o.stmt['rv'].get('ak') == 'closure':
                        outer = o.stmt['rv']['def']
            cur = t['args'][0]
    loop_form = None
    if not (ok and chain == ['flat_map', 'iter'] and outer is not None):
        loop_form = headers_loop_form(f, fields['headers'])
    if loop_form is not None:
        rep.expect('R14.a', loop_form[0], 'headers-chain', 'headers are pushed in a loop over self.iter() (%s)' % loop_form[1],
                   'HttpRequest.headers is no longer the plain enumeration of the header map: %s' % loop_form[1], site=site + '#headers')
        rep.expect('R14.a', loop_form[0], 'all-values', 'every value of each header name is pushed (inner loop over HeaderValues::iter, unconditional push)',
                   'the header enumeration no longer covers all values of a name: %s' % loop_form[1], site=site + '#all-values')
        rep.expect('R14.a', loop_form[0], 'header-pair', 'HttpHeader { name: name.to_string(), value: value.to_string() }',
                   'the HttpHeader built per value no longer takes the iterated name and value: %s' % loop_form[1], site=site + '#pair')
    else:
        rep.expect('R14.a', ok and chain == ['flat_map', 'iter'] and outer is not None, 'headers-chain',
                   'headers = self.iter().flat_map(..).collect() with no other adaptor',
                   'HttpRequest.headers is no longer the plain enumeration of the header map: chain %s' % chain, site=site + '#headers')
    if outer and loop_form is None:
        og = http.by_exact(outer)
        inner_def = None
        all_values = False
        if og is not None:
            its = [t for _, t in og.calls(HT + '::headers::header_values::HeaderValues::iter')]
            maps = [t for _, t in og.calls('core::iter::traits::iterator::Iterator::map')]
            other = [norm(t.get('callee')) for _, t in og.calls() if last_seg(t.get('callee') or '') in
                     ('last', 'get', 'first', 'take', 'skip', 'nth', 'filter', 'find', 'dedup')]
            all_values = len(its) == 1 and len(maps) == 1 and not other
            for t in maps:
                for o in origins(og, t['args'][1]):
                    if o.kind == 'agg' and o.stmt['rv'].get('ak') == 'closure':
                        inner_def = o.stmt['rv']['def']
        rep.expect('R14.a', all_values, 'all-values', 'every value of each header name is enumerated (HeaderValues::iter, no last/first/filter)',
                   'the header enumeration no longer covers all values of a name', site=site + '#all-values')
        ig = http.by_exact(inner_def) if inner_def else None
        good = False
        if ig is not None:
            for bb, i, s in ig.stmts('assign'):
                r = s['rv']
                if r['k'] == 'agg' and path_matches(r.get('adt'), 'crux_http::protocol::HttpHeader'):
                    fl = dict(zip(r['fields'], r['ops']))
                    def tostr_of(op, what):
                        # (through at most String -> String `into()`: a spliced `HttpHeader::new(name: impl Into<String>, ..)`)
                        srcs = origins(ig, op, extra_identity=[('core::convert::Into::into', 0), ('core::convert::From::from', 0)])
                        return bool(srcs) and all(o.kind == 'call' and call_matches(o.term, ['alloc::string::ToString::to_string']) and
                                                  what(origins(ig, o.term['args'][0])) for o in srcs)
                    name_ok = tostr_of(fl['name'], lambda os: bool(os) and all(o.kind == 'arg' and any('name' in t for t in o.suffix) for o in os))
                    value_ok = tostr_of(fl['value'], lambda os: bool(os) and all(o.kind == 'arg' and o.n == 2 for o in os))
                    good = name_ok and value_ok
        rep.expect('R14.a', good, 'header-pair', 'HttpHeader { name: name.to_string(), value: value.to_string() }',
                   'the HttpHeader built per value no longer takes the captured name and the iterated value', site=site + '#pair')


def guard_eval(f, getter, target_blocks):
    """For each possible value of the Option<bool> returned by `getter`, is one of target_blocks reachable?
    Understands `res == Some(c)`, `res != Some(c)`, matches on the Option discriminant and on its bool payload."""
    res_calls = [(bb, t) for bb, t in f.calls(getter)]
    if len(res_calls) != 1 or not target_blocks:
        return None
    res_local = res_calls[0][1]['d']['l']

    def from_res(op, want_suffix=()):
        os = origins(f, op)
        return bool(os) and all(o.kind == 'call' and o.bb == res_calls[0][0] and tuple(o.suffix) == tuple(want_suffix) for o in os)

    def const_some(op):
        for o in origins(f, op):
            if o.kind == 'agg' and o.stmt['rv'].get('adt') == 'core::option::Option' and o.stmt['rv']['variant'] == 'Some':
                c = o.stmt['rv']['ops'][0]
                if c.get('o') == 'const' and c.get('v') is not None:
                    return bool(c['v'])
        return None
    out = {}
    for name, val in (('None', None), ('Some(false)', False), ('Some(true)', True)):
        removed = []
        for bb, t in f.terms('switch'):
            outcome = None  # the integer the switch operand takes for this abstract value
            for o in origins(f, t['a']):
                if o.kind == 'call' and call_matches(o.term, ['core::cmp::PartialEq::eq', 'core::cmp::PartialEq::ne']):
                    a, b = o.term['args'][0], o.term['args'][1]
                    c = None
                    if from_res(a):
                        c = const_some(b)
                    elif from_res(b):
                        c = const_some(a)
                    if c is None:
                        continue
                    eq = (val is not None and val == c)
                    if last_seg(o.term['callee']) == 'ne':
                        eq = not eq
                    outcome = 1 if eq else 0
                elif o.kind == 'rvalue' and o.stmt['rv']['k'] == 'discr' and o.stmt['rv']['a']['l'] == res_local and not o.stmt['rv']['a']['p']:
                    outcome = 0 if val is None else 1
                elif o.kind == 'call' and o.bb == res_calls[0][0] and tuple(o.suffix) == ('as Some', '.0'):
                    if val is not None:
                        outcome = 1 if val else 0
            if outcome is None:
                continue
            taken = None
            for v, tgt in t['arms']:
                if v == outcome:
                    taken = tgt
            if taken is None:
                taken = t['otherwise']
            for s2 in f.succ(bb):
                if s2 != taken:
                    removed.append((bb, s2))
        r = f.reachable([0], removed_edges=removed)
        out[name] = any(b in r for b in target_blocks)
    return out


def headers_loop_form(f, headers_op):
    """headers built by `for (name, values) in self.iter() { for value in values.iter() { v.push(HttpHeader{..}) } }`"""
    vecs = [o for o in origins(f, headers_op) if o.kind == 'call' and call_matches(o.term, ['alloc::vec::Vec::new', 'alloc::vec::Vec::with_capacity'])]
    if len(vecs) != 1 or len(origins(f, headers_op)) != 1:
        return None
    v = vecs[0].term['d']['l']
    pushes = [(bb, t) for bb, t in f.calls('alloc::vec::Vec::push') if any(o.kind == 'call' and o.bb == vecs[0].bb for o in origins(f, t['args'][0]))]
    if len(pushes) != 1:
        return (False, '%d pushes into the header vector' % len(pushes))
    pb, pt = pushes[0]
    nexts = [(bb, t) for bb, t in f.calls('core::iter::traits::iterator::Iterator::next') if 'desugar:ForLoop' in (t.get('x') or [])]
    outer = [(bb, t) for bb, t in nexts if any(o.kind == 'call' and path_matches(o.term.get('callee'), 'crux_http::request::Request::iter')
                                               for o in origins(f, t['args'][0]))]
    inner = [(bb, t) for bb, t in nexts if any(o.kind == 'call' and path_matches(o.term.get('callee'), HT + '::headers::header_values::HeaderValues::iter')
                                               for o in origins(f, t['args'][0]))]
    if len(outer) != 1 or len(inner) != 1:
        return (False, 'expected one loop over Request::iter() and one over HeaderValues::iter(), found %d / %d' % (len(outer), len(inner)))
    ob, ot = outer[0]
    ib, it = inner[0]

    def some_target(nb, nt):
        res = nt['d']['l']
        for sb, st in f.terms('switch'):
            if any(o.kind == 'rvalue' and o.stmt['rv']['k'] == 'discr' and o.stmt['rv']['a']['l'] == res for o in origins(f, st['a'])):
                for val, b in st['arms']:
                    if val == 1:
                        return b
        return None
    its = some_target(ib, it)
    ots = some_target(ob, ot)
    if its is None or ots is None:
        return (False, 'loop structure not recognised')
    # every value is pushed: from the inner Some edge every path back to the inner next passes the push; the outer Some edge always reaches the inner loop
    every_value = ib not in f.reachable([its], removed_blocks=[pb]) and pb in f.reachable([its])
    every_name = ob not in f.reachable([ots], removed_blocks=[ib]) and ib in f.reachable([ots])
    # the pushed header takes name from the outer item and value from the inner item, through to_string only
    pair = False
    for o in origins(f, pt['args'][1]):
        if o.kind == 'agg' and path_matches(o.stmt['rv'].get('adt'), 'crux_http::protocol::HttpHeader'):
            fl = dict(zip(o.stmt['rv']['fields'], o.stmt['rv']['ops']))

            def via_tostring_of(op, call_bb, want_suffix):
                srcs = origins(f, op)
                return bool(srcs) and all(x.kind == 'call' and call_matches(x.term, ['alloc::string::ToString::to_string']) and
                                          all(y.kind == 'call' and y.bb == call_bb and want_suffix(y.suffix) for y in origins(f, x.term['args'][0]))
                                          and origins(f, x.term['args'][0]) for x in srcs)
            pair = via_tostring_of(fl['name'], ob, lambda suf: '.0' in suf) and via_tostring_of(fl['value'], ib, lambda suf: suf[:2] == ['as Some', '.0'])
    return (every_value and every_name and pair, 'every value pushed: %s; every name visited: %s; pair from (name, value): %s' % (every_value, every_name, pair))


def check_single(rep, http, cfg):
    n = 0
    for f in http.built:
        if f.j.get('exp') and 'async_trait' not in ' '.join(f.j.get('exp') or []):
            continue
        for bb, i, s in f.stmts('assign'):
            r = s['rv']
            if r['k'] == 'agg' and path_matches(r.get('adt'), 'crux_http::protocol::HttpRequest'):
                if s.get('x') and any(m in ('Builder', 'Default', 'Clone') or 'derive' in m for m in s['x']):
                    continue
                n += 1
                in_conv = 'into_protocol_request' in f.path
                rep.expect('R14.b', in_conv, '%s|constructs-HttpRequest' % f.kpath,
                           'the only hand-written construction is the conversion',
                           '%s constructs a protocol::HttpRequest outside into_protocol_request' % f.where(bb),
                           site='%s|construct@%s' % (f.kpath, cfg))
    callers = []
    for f in http.built:
        for bb, t in f.calls('crux_http::protocol::ProtocolRequestBuilder::into_protocol_request'):
            callers.append(f)
    names = sorted(set(http.host_root(c) for c in callers))
    from rules.props import c16
    under = c16.endpoints_under_next(http)
    rep.expect('R14.b', len(names) == 2 and any(c16.is_under_hosted(http, c, under) for c in callers) and
               any('command::RequestBuilder::build' in x for x in names), 'callers',
               'called from the client endpoint and from the command builder',
               'into_protocol_request is called from %s (expected the client endpoint and the command builder)' % names,
               site='callers@' + cfg)


def check_emission(rep, http, cfg):
    # endpoint closure under Next::new
    for f in http.built:
        if not (f.kind == 'Closure' and f.coroutine):
            continue
        sends = [(bb, t) for bb, t in f.calls('crux_http::protocol::EffectSender::send')]
        reqs = [(bb, t) for bb, t in f.calls('crux_core::command::Command::request_from_shell')
                if any('HttpRequest' in x for x in t.get('targs') or [])]
        sites = sends + reqs
        if not sites:
            continue
        if 'as crux_http::protocol::EffectSender' in (f.root or ''):
            continue
        key = '%s|one-emission' % f.kpath
        ok = len(sites) == 1 and not f.in_cycle(sites[0][0])
        rep.expect('R14.c', ok, key, 'one effect emission, not in a loop',
                   '%s emits %d effect(s)%s' % (f.path, len(sites), ' inside a loop' if sites and f.in_cycle(sites[0][0]) else ''),
                   site=key + '@' + cfg)


def sibling_callees(f, http=None):
    out = set()
    # (the closures of the method count: a setter may apply its change through `self.configure(|req| req.set_body(body))`)
    bodies = [f] + (http.closures_of(f) if http is not None else [])
    for _, t in [x for g in bodies for x in g.calls()]:
        c = norm(t.get('callee') or '')
        if c.startswith(('core::option', 'core::ops', 'core::result', 'core::convert', 'core::panicking')):
            continue
        c = c.replace('crux_http::command::RequestBuilder::', 'Builder::').replace('crux_http::request_builder::RequestBuilder::', 'Builder::')
        out.add(c)
    return out


def check_siblings(rep, http, cfg):
    for name in SIBLINGS:
        a = [f for f in http.built if f.name == name and f.kind == 'AssocFn' and 'crux_http::command::RequestBuilder' in f.npath]
        b = [f for f in http.built if f.name == name and f.kind == 'AssocFn' and 'crux_http::request_builder::RequestBuilder' in f.npath]
        key = 'builders|%s' % name
        if len(a) != 1 or len(b) != 1:
            rep.bad('R14.d', key + '|missing', 'builder method `%s` not found in both APIs (%d / %d)' % (name, len(a), len(b)), site=key + '@' + cfg)
            continue
        ca, cb = sibling_callees(a[0], http), sibling_callees(b[0], http)
        rep.expect('R14.d', ca == cb and ca, key, 'both resolve to %s' % sorted(ca),
                   'builder method `%s` differs between the command API %s and the capability API %s' % (name, sorted(ca), sorted(cb)),
                   site=key + '@' + cfg)


# builder setter -> the mutators of the request through which it applies its argument
SETTER_APPLIES = {
    'header': ['insert_header', 'append_header'],
    'content_type': ['set_content_type'],
    'body': ['set_body'], 'body_json': ['set_body'], 'body_string': ['set_body'], 'body_bytes': ['set_body'], 'body_form': ['set_body'],
    'query': ['set_query'],
    'middleware': ['middleware'],
}


def derived_from_param(f, operand, depth=3):
    """the operand is (computed from) a parameter other than self"""
    for o in origins(f, operand, through_casts=True, through_clone=True):
        if o.kind == 'arg' and o.n >= 2:
            return True
        if o.kind == 'call' and depth > 0 and any(derived_from_param(f, a, depth - 1) for a in o.term.get('args') or [] if 'l' in a):
            return True
        if o.kind == 'agg' and depth > 0 and any(derived_from_param(f, a, depth - 1) for a in o.stmt['rv'].get('ops') or [] if 'l' in a):
            return True     # a closure (or tuple) that carries the parameter
    return False


def check_setters_apply(rep, http, cfg):
    """R14.h: what the app says through a builder setter is put on the request whenever the setter hands the builder back: on every
    path to a return that is not an error return, the request is changed through the setter's mutator (directly, or through a sibling
    setter / helper that does so on all of its paths), and what is written is computed from the setter's argument"""
    from rules.common import Summaries
    sm = Summaries([http])
    for api, marker in (('command', 'crux_http::command::RequestBuilder'), ('capability', 'crux_http::request_builder::RequestBuilder')):
        for name, muts in sorted(SETTER_APPLIES.items()):
            fs = [f for f in http.built if f.name == name and f.kind == 'AssocFn' and marker in f.npath and not f.j.get('exp')]
            key = '%s|%s|applies' % (api, name)
            if len(fs) != 1:
                rep.bad('R14.h', key + '|missing', 'builder setter `%s` of the %s API not found (%d)' % (name, api, len(fs)), site=key + '@' + cfg)
                continue
            f = fs[0]
            pats = ['crux_http::request::Request::' + m for m in muts] + [HT + '::request::Request::' + m for m in muts]
            sites = sm.sites(f, pats, 'must')
            errs = [bb for bb, i, s_ in f.stmts('assign') if s_['rv']['k'] == 'agg' and s_['rv'].get('variant') == 'Err' and path_matches(s_['rv'].get('adt'), 'core::result::Result')]
            errs += [bb for bb, t in f.calls('core::ops::try_trait::FromResidual::from_residual')]
            always = bool(sites) and not any(r in f.reachable([0], removed_blocks=sites + errs) for r in f.return_blocks())
            fed = bool(sites) and all(any(derived_from_param(f, a) for a in f.blocks[b]['t'].get('args') or [] if 'l' in a) for b in sites)
            rep.expect('R14.h', always and fed, key, 'every non-error return passes %s, fed from the argument' % muts,
                       '%s: the setter can hand the builder back without having put its argument on the request (%s on every successful path: %s; '
                       'written value computed from the argument: %s) — e.g. an empty body that no longer replaces an earlier one'
                       % (f.path, '/'.join(muts), always, fed), site=key + '@' + cfg)


# the one encoder of each body format; the argument goes there (through borrows / as_ref) and nowhere else — a detour through another
# representation (serde_json::Value, a String re-parse) changes the bytes the shell gets for some inputs (key order, float widening,
# 128-bit numbers) while every ordinary body still looks the same
BODY_ENCODERS = {
    'body_json': [HT + '::body::Body::from_json'],
    'body_form': [HT + '::body::Body::from_form'],
    'body_string': [HT + '::body::Body::from_string', '<' + HT + '::body::Body as core::convert::From<alloc::string::String>>::from',
                    '<' + HT + '::body::Body as core::convert::From::from>', '<' + HT + '::body::Body as core::convert::Into::into>'],
    'body_bytes': [HT + '::body::Body::from_bytes', '<' + HT + '::body::Body as core::convert::From<&[u8]>>::from',
                   '<' + HT + '::body::Body as core::convert::From::from>', '<' + HT + '::body::Body as core::convert::Into::into>'],
}
BODY_ARG_IDENTITY = [('core::convert::AsRef::as_ref', 0), ('core::ops::deref::Deref::deref', 0), ('core::borrow::Borrow::borrow', 0),
                     # an owned copy of the same bytes / text
                     ('alloc::slice::<impl [T]>::to_owned', 0), ('alloc::borrow::ToOwned::to_owned', 0), ('alloc::slice::<impl [T]>::to_vec', 0),
                     ('core::clone::Clone::clone', 0), ('alloc::string::String::into_bytes', 0), ('alloc::string::String::as_bytes', 0),
                     ('alloc::string::String::as_str', 0), ('alloc::vec::Vec::as_slice', 0)]


def check_body_encoders(rep, http, cfg):
    """R14.j: over Request and both builders, the argument of body_json / body_form / body_string / body_bytes is consumed by exactly
    the tabled http_types encoder"""
    for owner in ('crux_http::request::Request', 'crux_http::request_builder::RequestBuilder', 'crux_http::command::RequestBuilder'):
        for name, encs in sorted(BODY_ENCODERS.items()):
            fs = [f for f in http.built if f.name == name and f.kind == 'AssocFn' and not f.j.get('exp') and
                  (path_matches(f.assoc.get('self_adt'), owner) or f.npath.startswith(owner + '::'))]
            key = '%s|%s|encoder' % (owner.split('::', 1)[1], name)
            if len(fs) != 1:
                rep.bad('R14.j', key + '|missing', 'body setter %s::%s not found (%d)' % (owner, name, len(fs)), site=key + '@' + cfg)
                continue
            f = fs[0]
            sinks = [s for s in flows_to(f, 2, extra_identity=BODY_ARG_IDENTITY) if s[0] == 'callarg']
            def callee_of(t):
                c = norm(t.get('callee') or '?')
                if c in ('core::convert::From::from', 'core::convert::Into::into') and 'l' in (t.get('d') or {}):
                    # the conversion is named by what it produces
                    return '<%s as %s>' % (norm(str(f.locals[t['d']['l']])), c)
                return c
            callees = sorted(set(callee_of(s[2]) for s in sinks))
            # handing the argument on to the same-named setter of the wrapped request / builder is that setter's instance
            good = [c for c in callees if any(path_matches(c, e) or c == norm(e) for e in encs) or
                    (c.startswith('crux_http::') and last_seg(c) == name and c != f.npath)]
            other = [c for c in callees if c not in good]
            rep.expect('R14.j', bool(good) and not other, key, 'argument consumed by %s only' % '/'.join(last_seg(e) for e in encs),
                       '%s: the argument is %s — the body of this format is encoded by %s, directly from what the app gave'
                       % (f.path, ('handed to ' + ', '.join(other)) if other else 'never handed to the encoder', ' or '.join(encs)), site=key + '@' + cfg)


# methods of http_types::Request that change the request
HT_MUTATORS = {'set_body', 'replace_body', 'swap_body', 'take_body', 'insert_header', 'append_header', 'remove_header', 'set_content_type',
               'set_query', 'set_ext', 'url_mut', 'header_mut', 'set_method', 'set_version', 'set_peer_addr', 'set_local_addr', 'copy_content_type_from_body'}


def check_forwarders(rep, http, cfg):
    """R14.e: crux_http::Request is a thin wrapper: each of its methods that changes the underlying http_types request does so through
    exactly the same-named http_types method and touches nothing else (nothing is added to or removed from what the app described)"""
    rep.rule('R14.e', 'every method of crux_http::Request that mutates the wrapped request forwards to the same-named http_types method and does nothing else to it', floor=6)
    n = 0
    for f in http.built:
        if f.kind != 'AssocFn' or f.j.get('exp') or not path_matches(f.assoc.get('self_adt'), 'crux_http::request::Request') or f.assoc.get('trait'):
            continue
        muts = []
        for g in [f] + http.closures_of(f):
            for bb, t in g.calls():
                c = norm(t.get('callee') or '')
                if c.startswith(HT + '::request::Request::') and last_seg(c) in HT_MUTATORS:
                    muts.append((g, bb, last_seg(c)))
        if not muts:
            continue
        n += 1
        names = [m[2] for m in muts]
        key = '%s|forwards' % f.kpath
        expected = {f.name}
        if f.name == 'as_mut' or f.name == 'take_middleware':
            continue
        # ... on EVERY path: no return of the method is reachable without the forwarding call (a setter that skips the call when it
        # judges the new value "the same" drops what the app said — seeded: set_content_type comparing Mime::essence, which ignores the
        # charset / boundary parameters). Methods returning a Result may leave early on their error path only.
        skipped = False
        if len(muts) == 1 and muts[0][0] is f:
            mb = muts[0][1]
            free = [r_ for r_ in f.return_blocks() if r_ in f.reachable([0], removed_blocks=[mb])]
            if free and not norm(f.locals[0]).startswith('core::result::Result'):
                skipped = True
            elif free:
                # the early exits of a fallible setter must be error returns: an Ok built without the call is a skipped write
                for bb2, i2, s2 in f.stmts('assign'):
                    if s2['rv']['k'] == 'agg' and s2['rv'].get('variant') == 'Ok' and norm(s2['rv'].get('adt') or '') == 'core::result::Result' and \
                            s2['d']['l'] == 0 and bb2 in f.reachable([0], removed_blocks=[mb]):
                        skipped = True
        rep.expect('R14.e', not skipped, key + '|on-every-path', 'the forwarding call is made on every (non-error) path',
                   'crux_http::Request::%s can return without calling http_types::Request::%s: what the app set is silently not applied for '
                   'some values' % (f.name, f.name), site=key + '|on-every-path@' + cfg)
        rep.expect('R14.e', set(names) <= expected and len(names) == 1, key, 'forwards to http_types::Request::%s only' % f.name,
                   'crux_http::Request::%s changes the wrapped request through %s: besides forwarding, it adds, removes or replaces something the '
                   'app described (e.g. a Content-Type set before the body)' % (f.name, sorted(names)), site=key + '@' + cfg)
    if n < 6:
        rep.bad('R14.e', 'sites@' + cfg, 'expected at least 6 forwarding mutators on crux_http::Request, found %d' % n)
