"""C10 — generated foreign types describe the actual wire format (structural clauses)."""
import re

from rules.facts import norm, path_matches, origins, call_matches, last_seg, keypath

CONFIGS = {'quick': ['default', 'controls', 'allfeat'], 'thorough': []}
TECHNIQUE = ('static analysis: wire-type closure from Operation impls, serde-attribute neutrality table over the expanded AST, '
             'serializer/deserializer variant-numbering agreement, single-codec dataflow rule, register_types completeness')
EXPLANATION = (
    'Enumerates the wire types (closure over the fields of every `impl Operation`, its Output, bridge::Request, EffectId and '
    'the macro-generated Ffi enums of two probe apps) and decides: R10.b every serde attribute on them is neutral on the '
    'bincode wire; R10.c no serde-skipped variant precedes a non-skipped one (Serialize and Deserialize number variants '
    'differently otherwise); R10.d the bridge obtains one bincode configuration, with fixed-width integers, for both '
    'directions; R10.e every register_types registers Self, Self::Output and at least today\'s hand-registered types, and '
    'generated Export impls call register_types of every non-skipped operation. Does not decide agreement of schema and '
    'bytes per value, nor the generated foreign code. R10.f TypeGen obtains its registry through the checked Tracer::registry() and propagates its error. R10.h TypeGen::register_type / register_type_with_samples answer Ok only after a Tracer::trace_* call on the type they were given (no short cut by name). R10.g each bridge entry point hands the bincode serializer a Vec created empty in that call, gives it to nothing else and returns it: no byte of another (failed) serialisation can precede a message. R10.i each TypeGen register method calls exactly its tabled Tracer entry points: register_type traces exhaustively (trace_simple_type), only the *_with_samples / register_samples methods consult the sample store.')

WIRE_CRATES = ['crux_core', 'crux_http', 'crux_kv', 'crux_time', 'crux_platform']

# foreign ADTs that may appear on the wire: their serde encodings are modelled by serde-reflection/bincode alike
FOREIGN_OK = {
    'alloc::string::String': 'str',
    'alloc::vec::Vec': 'seq',
    'core::option::Option': 'option',
    'alloc::boxed::Box': 'transparent',
    'alloc::alloc::Global': 'allocator parameter of Vec/Box, not data',
}

# serde attribute -> why it is neutral on the wire (anything else is a violation)
NEUTRAL = {
    'rename': 'names are not on the bincode wire',
    'rename_all': 'names are not on the bincode wire',
    'transparent': 'newtype encoded as its field (same bytes); checked to be a single-field struct',
    'with = "serde_bytes"': 'Vec<u8> written as bytes: same length-prefixed bytes as a sequence of u8; traced as Bytes',
    'skip': 'two-sided skip: absent in both directions (variant order checked by R10.c)',
}


def serde_items(attr_strings):
    """[`rename_all = "camelCase"`, `skip`, ...] from `#[serde(...)]` attribute strings"""
    out = []
    for a in attr_strings:
        m = re.match(r'^#\[serde\((.*)\)\]$', a.strip(), re.S)
        if not m:
            continue
        depth = 0
        cur = ''
        for ch in m.group(1):
            if ch in '([{':
                depth += 1
            elif ch in ')]}':
                depth -= 1
            if ch == ',' and depth == 0:
                out.append(cur.strip())
                cur = ''
            else:
                cur += ch
        if cur.strip():
            out.append(cur.strip())
    return out


def attr_key(item):
    item = re.sub(r'\s+', ' ', item)
    if item.startswith('with'):
        return item
    return item.split('=')[0].split('(')[0].strip()


class World:
    """ADTs, AST attributes and impls of the wire crates (+ the probe crate), joined by path"""

    def __init__(self, crates):
        self.adts = {}
        self.ast = {}
        self.impls = []
        self.local = set()
        for c in crates:
            self.local.add(c.name)
            for p, a in c.adts.items():
                if p.startswith('crux_verif_controls::') and not p.startswith('crux_verif_controls::probe::'):
                    continue  # positive-control fixtures are not part of the world
                self.adts[p] = a
            for a in c.ast:
                if a['kind'] in ('struct', 'enum'):
                    path = '::'.join(x for x in (c.name, a['mod'], a['name']) if x)
                    self.ast[path] = a
            for i in c.impls:
                self.impls.append((c, i))

    def is_local(self, path):
        return path.split('::')[0] in self.local

    def derived(self, adt_path, trait):
        hand = der = False
        for c, i in self.impls:
            if i['self_adt'] and norm(i['self_adt']) == adt_path and path_matches(i['trait'], trait):
                if i['derived']:
                    der = True
                else:
                    hand = True
        return der, hand


def skipped(attrs):
    return 'skip' in [attr_key(x) for x in serde_items(attrs)]


def wire_closure(world, roots, rep):
    seen = {}
    work = list(roots)
    foreign = {}
    while work:
        p, why = work.pop()
        p = norm(p)
        if p in seen:
            continue
        if not world.is_local(p):
            foreign.setdefault(p, why)
            continue
        adt = world.adts.get(p)
        ast = world.ast.get(p)
        if adt is None or ast is None:
            rep.bad('R10.a', 'unresolved|%s' % p, 'wire type %s (reached via %s) has no ADT/AST facts' % (p, why))
            continue
        seen[p] = why
        ast_variants = ast.get('variants')
        for vi, v in enumerate(adt['variants']):
            if ast_variants is not None:
                av = ast_variants[vi] if vi < len(ast_variants) else None
                if av is None or av['name'] != v['name']:
                    rep.bad('R10.a', 'ast-mismatch|%s' % p, 'AST and HIR variant lists of %s disagree' % p)
                    continue
                if skipped(av['attrs']):
                    continue
                afields = av['fields']
            else:
                afields = ast.get('fields', [])
            for fi, f in enumerate(v['fields']):
                af = afields[fi] if fi < len(afields) else None
                if af is not None and skipped(af['attrs']):
                    continue
                for a in f['adts']:
                    work.append((a, '%s::%s.%s' % (p, v['name'], f['name'])))
    return seen, foreign


def check_checked_registry(ctx, rep):
    """R10.f: the generators only ever see a registry that serde-reflection has CHECKED for completeness: an enum reached only through
    another type keeps just the variants the tracer happened to see, and `Tracer::registry()` refuses such a registry.  TypeGen must
    obtain the registry through that call, propagate its error, and never use `registry_unchecked`."""
    from rules.common import failure_reaches_error
    rep.rule('R10.f', 'TypeGen obtains its registry through the checked Tracer::registry() and propagates its error', floor=1)
    core = ctx.crate('allfeat', 'crux_core') or ctx.crate('controls', 'crux_core')
    if core is None:
        rep.missing('R10.f', 'crux_core facts with the typegen feature')
        return
    fns = [f for f in core.built if f.npath.startswith('crux_core::typegen::') or '::typegen::' in f.npath]
    unchecked = [(f, bb) for f in fns for bb, t in f.calls() if norm(t.get('callee') or '').startswith('serde_reflection::') and 'unchecked' in last_seg(t['callee'])]
    checked = [(f, bb, t) for f in fns for bb, t in f.calls('serde_reflection::trace::Tracer::registry')]
    # the schema is traced in the mode the bridge's codec uses: bincode is not human readable, so the tracer must not be either (types such
    # as Uuid or IpAddr serialise differently in the two modes)
    for f in fns:
        for bb, t in f.calls('serde_reflection::trace::TracerConfig::is_human_readable'):
            if len(t['args']) < 2 or t['args'][1].get('v') != 0:
                rep.bad('R10.f', '%s|human-readable-tracer' % f.kpath, '%s traces types in human-readable mode while the bridge encodes them with bincode '
                        '(not human readable): types whose serde impls branch on the mode get a schema that does not match the wire' % f.where(bb))
    if not fns:
        rep.missing('R10.f', 'crux_core::typegen functions (feature typegen)')
        return
    for f, bb in unchecked:
        rep.bad('R10.f', '%s|unchecked' % f.kpath, '%s takes the tracer\'s registry without the completeness check: types whose variants were not all '
                'traced are generated with variants missing, silently' % f.where(bb))
    ok = bool(checked)
    why = ''
    for f, bb, t in checked:
        good, reason = failure_reaches_error(f, t['d']['l'], allow_panic=False)
        if not good:
            ok = False
            why = reason
    if not unchecked:
        rep.expect('R10.f', ok, 'registry|checked-and-propagated', 'Tracer::registry() is used and its failure reaches the error return',
                   'TypeGen no longer obtains its registry through a checked Tracer::registry() whose error is propagated (%s)' % (why or 'no call found'))
    # R10.h: every type handed to the generator is traced: the register_* methods report success only after the tracer was run on this very
    # type (no "seen this name before" short cut: serde-reflection's own refusal of two different layouts under one name is what keeps two
    # same-named types from silently sharing a schema)
    rep.rule('R10.h', 'TypeGen::register_type / register_type_with_samples answer Ok only after the tracer has traced the type they were given', floor=2)
    n_reg = 0
    for f in fns:
        if f.kind != 'AssocFn' or f.j.get('exp') or f.name not in ('register_type', 'register_type_with_samples'):
            continue
        if not path_matches(f.assoc.get('self_adt'), 'crux_core::typegen::TypeGen'):
            continue
        n_reg += 1
        traces = [bb for bb, t in f.calls() if norm(t.get('callee') or '').startswith('serde_reflection::trace::Tracer::trace_')]
        oks = [bb for bb, i, s_ in f.stmts('assign') if s_['rv']['k'] == 'agg' and s_['rv'].get('adt') == 'core::result::Result' and s_['rv'].get('variant') == 'Ok'
               and s_['d']['l'] == 0 and not s_['d']['p']]
        free = [b for b in oks if b in f.reachable([0], removed_blocks=traces)]
        rep.expect('R10.h', bool(traces) and bool(oks) and not free, '%s|traced-before-ok' % f.kpath, 'every Ok return follows a Tracer::trace_* call',
                   '%s can answer Ok without having traced the type it was given (at %s): a second type filed under the same name keeps the first '
                   'one\'s layout in the schema, silently' % (f.path, [f.where(b) for b in free]))
    if n_reg < 2:
        rep.bad('R10.h', 'sites', 'expected register_type and register_type_with_samples of TypeGen, found %d' % n_reg)
    # R10.i: WHICH tracer entry point a register method uses decides whether the schema is complete: trace_simple_type enumerates every
    # variant of every enum it reaches and fails loudly (MissingVariants) when it cannot, while trace_type(&samples) lets a recorded sample
    # stand in for a newtype and never looks behind it — an enum behind a sampled newtype is then known only by the variants the sample
    # happened to use, silently. Each register method calls exactly its tabled tracer entry points (seeded: register_type tracing with the
    # stored samples "so that register_app works for custom-serialised newtypes").
    rep.rule('R10.i', 'each TypeGen register method uses exactly its tabled Tracer entry points (a type without samples of its own is traced exhaustively)', floor=3)
    TRACER_TABLE = {'register_type': {'trace_simple_type'}, 'register_samples': {'trace_value'},
                    'register_type_with_samples': {'trace_value', 'trace_type'}}
    for f in fns:
        if f.kind != 'AssocFn' or f.j.get('exp') or f.name not in TRACER_TABLE or not path_matches(f.assoc.get('self_adt'), 'crux_core::typegen::TypeGen'):
            continue
        fam = [f] + core.closures_of(f)
        used = set(last_seg(norm(t.get('callee') or '')) for g in fam for bb, t in g.calls()
                   if norm(t.get('callee') or '').startswith('serde_reflection::trace::Tracer::trace_'))
        rep.expect('R10.i', used == TRACER_TABLE[f.name], '%s|tracer-entry-points' % f.kpath, 'calls %s' % sorted(used),
                   '%s traces through %s, tabled %s: trace_type / trace_type_once with a sample store accept a recorded sample in place of a '
                   'nested newtype and never enumerate what is behind it, so variants can be missing from the generated schema with no error'
                   % (f.path, sorted(used), sorted(TRACER_TABLE[f.name])))


def check(ctx, rep):
    rep.rule('R10.a', 'wire types are enumerated from the Operation impls and resolve to analysed ADTs', floor=15)
    rep.rule('R10.b', 'every serde attribute on a wire type is in the neutrality table; Serialize/Deserialize are derived', floor=15)
    rep.rule('R10.c', 'in an enum that derives Serialize and Deserialize no serde-skipped variant precedes a non-skipped one', floor=8)
    rep.rule('R10.d', 'the bincode bridge uses one options value, with fixint encoding, for the deserializer and the serializer', floor=5)
    rep.rule('R10.g', 'each bridge entry point serialises into a buffer created empty in that call and returns exactly that buffer', floor=3)
    rep.rule('R10.e', 'register_types registers Self, Self::Output and the hand-listed types; generated Export impls register every operation', floor=6)

    check_checked_registry(ctx, rep)
    r_ = check_wire_types(ctx, rep)
    if r_ is None:
        return
    ops, probe = r_
    check_codec(ctx, rep)
    _core = ctx.crate('default', 'crux_core')
    if _core is not None:
        check_output_buffers(rep, 'R10.g', _core)
    else:
        rep.missing('R10.g', 'crux_core facts')
    check_registration(ctx, rep, ops, probe)
    controls(ctx, rep)
    rep.assume('serde_derive 1.0.219 numbering (Serialize: declaration index; Deserialize: index among non-skipped variants), read in its source')
    rep.assume('bincode 1.3.3 with_fixint_encoding writes fixed-width little-endian integers, which the generated foreign runtimes read')
    rep.assume('serde-reflection traces String/Vec/Option/Box/serde_bytes as bincode encodes them')


class RuleProxy:
    """reports the wire-type rules R10.a-c of another property under one rule id of its own, restricted to some types"""

    def __init__(self, rep, rid, keep):
        self.rep, self.rid, self.keep = rep, rid, keep

    def ok(self, rid, site, detail=''):
        if self.keep(site):
            self.rep.ok(self.rid, site, detail)

    def bad(self, rid, key, detail, site=None):
        if self.keep(key):
            self.rep.bad(self.rid, key, detail, site=site)

    def expect(self, rid, cond, key, ok_detail, bad_detail, site=None):
        if self.keep(key):
            self.rep.expect(self.rid, cond, key, ok_detail, bad_detail, site=site)

    def missing(self, rid, what):
        self.rep.missing(self.rid, what)

    def rule(self, rid, text, floor=0):
        self.rep.rule(self.rid, text, floor=floor)

    def control(self, *a, **k):
        pass


def check_wire_types(ctx, rep):
    """R10.a-c; returns (operations, probe crate) or None when the facts are incomplete"""
    crates = []
    for name in WIRE_CRATES:
        c = ctx.crate('default', name)
        if c is None:
            rep.missing('R10.a', 'facts of %s' % name)
            return
        crates.append(c)
    probe = ctx.crate('controls', 'crux_verif_controls')
    if probe is None:
        rep.missing('R10.a', 'probe crate facts')
        return
    world = World(crates + [probe])

    # ---- R10.a roots
    roots = []
    ops = []
    for c, i in world.impls:
        if path_matches(i['trait'], 'crux_core::capability::Operation') and i['self_adt']:
            out = [x for x in i['items'] if x['name'] == 'Output']
            if not out or 'adts' not in out[0]:
                rep.bad('R10.a', 'no-output|%s' % norm(i['self_adt']), 'Operation impl without a resolvable Output type')
                continue
            ops.append((norm(i['self_adt']), out[0]))
            roots.append((i['self_adt'], 'impl Operation'))
            for a in out[0]['adts']:
                roots.append((a, 'Output of %s' % norm(i['self_adt'])))
    roots.append(('crux_core::bridge::Request', 'bridge'))
    roots.append(('crux_core::bridge::registry::EffectId', 'bridge'))
    for p in list(world.adts):
        if p.startswith('crux_verif_controls::probe::') and (p.endswith('Ffi') or p.endswith('::Event') or p.endswith('::ViewModel')):
            roots.append((p, 'probe app'))
    wire, foreign = wire_closure(world, roots, rep)
    for p, why in sorted(wire.items()):
        rep.ok('R10.a', p, 'wire type (reached via %s)' % why)
    op_names = sorted(o for o, _ in ops)
    for need in ('crux_core::capabilities::render::RenderOperation', 'crux_http::protocol::HttpRequest',
                 'crux_kv::KeyValueOperation', 'crux_time::protocol::TimeRequest', 'crux_platform::PlatformRequest'):
        if need not in op_names:
            rep.bad('R10.a', 'operation-missing|%s' % need, 'expected Operation impl for %s not found' % need)
    for p, why in sorted(foreign.items()):
        if p in FOREIGN_OK:
            continue
        rep.bad('R10.a', 'foreign|%s' % p,
                'foreign type %s is on the wire (via %s); its serde encoding is not modelled by the neutrality table' % (p, why))

    # ---- R10.b attributes + derives
    for p in sorted(wire):
        ast = world.ast[p]
        adt = world.adts[p]
        problems = []
        n_attr = 0

        def check_attrs(attrs, where, field_ty=None):
            nonlocal n_attr
            for it in serde_items(attrs):
                n_attr += 1
                k = attr_key(it)
                if k not in NEUTRAL:
                    problems.append('%s: #[serde(%s)] is not wire-neutral' % (where, it))
                elif k == 'transparent':
                    if adt['kind'] != 'struct' or len(adt['variants'][0]['fields']) != 1:
                        problems.append('%s: transparent on a non-newtype' % where)
                elif k.startswith('with'):
                    if field_ty is None or re.sub(r'\s', '', field_ty) not in ('Vec<u8>', 'std::vec::Vec<u8>'):
                        problems.append('%s: serde_bytes on a field of type %s' % (where, field_ty))
        check_attrs(ast['attrs'], 'container')
        if 'variants' in ast:
            for v in ast['variants']:
                check_attrs(v['attrs'], 'variant %s' % v['name'])
                for f in v['fields']:
                    check_attrs(f['attrs'], 'field %s.%s' % (v['name'], f['name']), f['ty'])
        else:
            for f in ast.get('fields', []):
                check_attrs(f['attrs'], 'field %s' % f['name'], f['ty'])
        for trait in ('serde::ser::Serialize', 'serde::de::Deserialize'):
            der, hand = world.derived(p, trait)
            if hand:
                problems.append('hand-written %s (encoding not modelled)' % trait)
            # operations and outputs need at least Deserialize; Serialize is required for operations
        der_de, _ = world.derived(p, 'serde::de::Deserialize')
        if not der_de:
            problems.append('no derived Deserialize (typegen traces Deserialize)')
        if problems:
            for pr in problems:
                rep.bad('R10.b', '%s|%s' % (p, pr.split(':')[0] if ':' in pr else pr), '%s: %s' % (p, pr))
        else:
            rep.ok('R10.b', p, '%d serde attribute item(s), all neutral; serde impls derived' % n_attr)

    # ---- R10.c variant numbering, over every local enum deriving both
    for p in sorted(world.adts):
        adt = world.adts[p]
        ast = world.ast.get(p)
        if adt['kind'] != 'enum' or ast is None or 'variants' not in ast:
            continue
        der_ser, _ = world.derived(p, 'serde::ser::Serialize')
        der_de, _ = world.derived(p, 'serde::de::Deserialize')
        if not (der_ser and der_de):
            continue
        seen_skip = None
        bad = None
        for v in ast['variants']:
            if skipped(v['attrs']):
                seen_skip = seen_skip or v['name']
            elif seen_skip is not None:
                bad = (seen_skip, v['name'])
                break
        if bad:
            rep.bad('R10.c', p, 'enum %s: skipped variant `%s` precedes `%s`; Serialize numbers by declaration position, '
                    'Deserialize by position among non-skipped variants' % (p, bad[0], bad[1]))
        else:
            rep.ok('R10.c', p, 'skipped variants (if any) are last')
    return ops, probe


def check_codec(ctx, rep, rid='R10.d'):
    core = ctx.crate('default', 'crux_core')
    # the options function: the only function in crux_core whose body calls into bincode's config builders
    opt_fns = [f for f in core.built if list(f.calls('bincode::config::Options::with_fixint_encoding',
                                                     'bincode::config::DefaultOptions::new'))]
    if len(opt_fns) != 1:
        rep.bad(rid, 'options-fn', 'expected exactly one function building bincode options, found %s' % [f.path for f in opt_fns])
        return
    of = opt_fns[0]
    chain = [norm(t.get('callee') or '') for _, t in of.calls() if (t.get('callee') or '').startswith('bincode::')]
    names = [last_seg(c) for c in chain]
    forbidden = [n for n in names if n in ('with_varint_encoding', 'with_big_endian', 'with_native_endian', 'with_limit')]
    rep.expect(rid, 'with_fixint_encoding' in names and not forbidden, '%s|chain' % of.kpath,
               'option chain %s: fixint, little-endian (default), no limit' % names,
               'option chain of %s is %s: must contain with_fixint_encoding and none of varint/big-endian/native-endian/limit' % (of.path, names))
    # every use of a bincode (de)serializer in crux_core takes its options from that function
    users = 0
    for f in core.built:
        for bb, t in f.calls():
            c = norm(t.get('callee') or '')
            if not c.startswith('bincode::') or f is of:
                continue
            seg = last_seg(c)
            if seg in ('from_slice', 'new', 'with_reader', 'from_reader') and ('Deserializer' in c or 'Serializer' in c):
                users += 1
                opt = t['args'][-1]
                # a byte limit does not change the encoding
                srcs = origins(f, opt, extra_identity=[('bincode::config::Options::with_limit', 0)])
                ok = bool(srcs) and all(o.kind == 'call' and path_matches(o.term.get('callee'), norm(of.path)) for o in srcs)
                rep.expect(rid, ok, '%s|%s' % (f.kpath, seg + ('-de' if 'Deserializer' in c else '-ser')),
                           'options come from %s' % of.name,
                           '%s builds a bincode %s with options not obtained from %s' % (f.where(bb), seg, of.path))
            elif seg in ('with_limit',):
                continue
            else:
                rep.bad(rid, '%s|%s' % (f.kpath, c), 'second codec entry point: %s calls %s' % (f.where(bb), c))
    if users < 5:
        rep.bad(rid, 'users', 'expected 5 bincode (de)serializer constructions in the bridge, found %d' % users)
    # per function, deserializer and serializer share one options value
    for f in core.built:
        sites = [(bb, t) for bb, t in f.calls() if norm(t.get('callee') or '').startswith('bincode::') and f is not of]
        if len(sites) >= 2:
            calls = set()
            for bb, t in sites:
                if last_seg(t.get('callee') or '') == 'with_limit':
                    continue
                for o in origins(f, t['args'][-1], extra_identity=[('bincode::config::Options::with_limit', 0)]):
                    calls.add(o.bb if o.kind == 'call' else None)
            rep.expect(rid, len(calls) == 1 and None not in calls, '%s|one-options-value' % f.kpath,
                       'deserializer and serializer share the result of one bincode_options() call',
                       'in %s the deserializer and the serializer do not share one options value' % f.path)


def check_output_buffers(rep, rid, core):
    """the bytes a bridge entry point returns are exactly what THIS call's serializer wrote: the writer handed to the bincode serializer is
    a Vec created empty in the same call, nothing else writes to it, and it is what the call returns.  (A buffer kept between calls can
    carry the bytes of a serialisation that failed half way into the next message, which then no longer decodes under the schema.)"""
    n = 0
    for f in core.built:
        if f.j.get('exp') or '::bridge::' not in f.npath:
            continue
        for bb, t in f.calls('bincode::ser::Serializer::new'):
            n += 1
            key = '%s|fresh-output-buffer' % core.host_root(f)
            src = origins(f, t['args'][0])
            fresh = bool(src) and all(o.kind == 'call' and norm(o.term.get('callee') or '') in ('alloc::vec::Vec::new', 'alloc::vec::Vec::with_capacity')
                                      and not o.suffix for o in src)
            made = set(o.bb for o in src if o.kind == 'call')
            once = fresh and len(made) == 1 and not any(f.in_cycle(b) for b in made)
            # nothing else is given the buffer
            others = []
            if once:
                for b2, t2 in f.calls():
                    if b2 == bb:
                        continue
                    for a_ in t2.get('args') or []:
                        if a_.get('o') == 'const':
                            continue
                        if any(o.kind == 'call' and o.bb in made and not o.suffix for o in origins(f, a_)):
                            others.append(last_seg(t2.get('callee') or '?'))
            # ... and the Ok payload of the return is that buffer
            returned = False
            if once:
                pay = []
                for o in origins(f, {'l': 0, 'p': []}):
                    if o.kind == 'agg' and o.stmt['rv'].get('variant') == 'Ok':
                        pay += origins(f, o.stmt['rv']['ops'][0])
                returned = bool(pay) and all(o.kind == 'call' and o.bb in made and not o.suffix for o in pay)
            rep.expect(rid, once and not others and returned, key, 'serialises into a Vec created in this call and returns it',
                       '%s: the bytes returned are not exactly what this call serialised (writer created empty in this call: %s; also handed to: %s; '
                       'returned as the Ok payload: %s): bytes of another serialisation can end up in the message'
                       % (f.path, once, sorted(set(others)), returned))
    if n < 3:
        rep.bad(rid, 'serializer-sites', 'expected the 3 bincode serializer constructions of the bridge (process_event, handle_response, view), found %d' % n)


# hand-registered types that register_types must keep (today's lists; may grow, not shrink)
HAND_REGISTERED = {
    'crux_http::protocol::HttpRequest': {'crux_http::error::HttpError'},
    'crux_kv::KeyValueOperation': {'crux_kv::KeyValueResponse', 'crux_kv::error::KeyValueError', 'crux_kv::value::Value'},
    'crux_time::protocol::TimeRequest': {'crux_time::protocol::instant::Instant', 'crux_time::protocol::duration::Duration'},
}


def registered_types(fn):
    out = set()
    for bb, t in fn.calls('crux_core::typegen::TypeGen::register_type'):
        ta = t.get('targs') or []
        if ta:
            out.add(ta[0])
    return out


def check_registration(ctx, rep, ops, probe):
    if not ctx.has('allfeat'):
        rep.bad('R10.e', 'allfeat-missing', 'all-features configuration not extracted')
        return
    found = 0
    for name in WIRE_CRATES:
        c = ctx.crate('allfeat', name)
        if c is None:
            rep.missing('R10.e', 'allfeat facts of %s' % name)
            continue
        for f in c.built:
            if f.name != 'register_types' or not path_matches(f.assoc.get('trait'), 'crux_core::capability::Operation'):
                continue
            found += 1
            if f.assoc.get('default_method'):
                regs = registered_types(f)
                rep.expect('R10.e', regs == {'Self', '<Self as crux_core::capability::Operation>::Output'},
                           'Operation::register_types(default)', 'default registers Self and Self::Output',
                           'default Operation::register_types registers %s' % sorted(regs))
                continue
            op = norm(f.assoc['self_adt'])
            out = [o for o_, o in ops if o_ == op]
            regs = set(norm(x) for x in registered_types(f))
            need = {op} | HAND_REGISTERED.get(op, set())
            out_ty = norm(out[0]['ty']) if out else None
            # Self::Output may print as a projection or as the concrete type
            has_out = out_ty in regs or any('Output' in r for r in regs)
            missing = sorted(need - regs)
            rep.expect('R10.e', not missing and has_out, '%s|register_types' % op,
                       'registers Self, Output and %d hand-listed type(s)' % len(HAND_REGISTERED.get(op, ())),
                       'register_types of %s no longer registers %s%s' % (op, missing, '' if has_out else ' and Self::Output'))
    if found < 4:
        rep.bad('R10.e', 'register_types-count', 'expected the default and 3 overriding register_types, found %d' % found)
    # generated Export impls in the probe
    for f in probe.built:
        if f.name != 'register_types' or not path_matches(f.assoc.get('trait'), 'crux_core::typegen::Export'):
            continue
        ops_called = set()
        for bb, t in f.calls('crux_core::capability::Operation::register_types'):
            ta = t.get('targs') or []
            if ta:
                ops_called.add(norm(ta[0]))
        regs = set(norm(x) for x in registered_types(f))
        want = {'crux_core::capabilities::render::RenderOperation', 'crux_http::protocol::HttpRequest',
                'crux_kv::KeyValueOperation', 'crux_time::protocol::TimeRequest', 'crux_platform::PlatformRequest'}
        ffi = [r for r in regs if r.endswith('Ffi')]
        req = [r for r in regs if r.startswith('crux_core::bridge::Request')]
        rep.expect('R10.e', ops_called == want and ffi and req, '%s|generated-export' % f.kpath,
                   'generated Export registers 5 operations, the Ffi enum and bridge::Request<Ffi>',
                   'generated Export %s registers operations %s, types %s' % (f.path, sorted(ops_called), sorted(regs)))
    n = len([f for f in probe.built if f.name == 'register_types'])
    if n < 2:
        rep.bad('R10.e', 'generated-export-count', 'expected generated Export impls for both probe apps, found %d' % n)


def controls(ctx, rep):
    c = ctx.crate('controls', 'crux_verif_controls')
    w = World([])
    for a in c.ast:
        if a['kind'] in ('struct', 'enum'):
            w.ast['::'.join(x for x in (c.name, a['mod'], a['name']) if x)] = a
    # positive control: an enum with a leading skipped variant, and a non-neutral attribute
    p = 'crux_verif_controls::c10::BadOrder'
    ast = w.ast.get(p)
    fired = False
    if ast:
        seen = False
        for v in ast['variants']:
            if skipped(v['attrs']):
                seen = True
            elif seen:
                fired = True
    rep.control('R10.c fires on a leading #[serde(skip)] variant', fired)
    ast = w.ast.get('crux_verif_controls::c10::NonNeutral')
    fired = False
    if ast:
        for f in ast['fields']:
            for it in serde_items(f['attrs']):
                if attr_key(it) not in NEUTRAL:
                    fired = True
    rep.control('R10.b fires on skip_serializing_if', fired)
