"""Runs the fact extraction (cargo +nightly check with the cruxfacts wrapper) against /repo's
current working tree, cached by a hash of the tree."""
import fcntl
import hashlib
import os
import shutil
import subprocess
import sys
import time

VERIF = os.path.dirname(os.path.dirname(os.path.abspath(__file__)))
REPO = os.environ.get('CRUX_REPO', '/repo')
CACHE = os.path.join(VERIF, '.cache')
DRIVER_TARGET = os.path.join(CACHE, 'driver-target')
DRIVER = os.path.join(DRIVER_TARGET, 'debug', 'cruxfacts')
TARGET = os.path.join(CACHE, 'target')
FACTS = os.path.join(CACHE, 'facts')

MEMBERS = ['crux_cli', 'crux_core', 'crux_http', 'crux_kv', 'crux_macros', 'crux_platform', 'crux_time',
           'doctest_support']

# configuration -> (cwd, cargo args, crates whose facts must exist afterwards)
CONFIGS = {
    'default': (REPO, ['--workspace', '--lib'],
                ['crux_cli', 'crux_core', 'crux_http', 'crux_kv', 'crux_platform', 'crux_time']),
    'allfeat': (REPO, ['--workspace', '--lib', '--all-features'],
                ['crux_cli', 'crux_core', 'crux_http', 'crux_kv', 'crux_platform', 'crux_time']),
    'timechrono': (REPO, ['-p', 'crux_time', '--lib', '--features', 'chrono'], ['crux_time']),
    'controls': (os.path.join(VERIF, 'controls'), ['--lib'], ['crux_verif_controls']),
}


def sh(cmd, **kw):
    return subprocess.run(cmd, stdout=subprocess.PIPE, stderr=subprocess.STDOUT, text=True, **kw)


def nightly_sysroot():
    r = sh(['rustc', '+nightly', '--print', 'sysroot'])
    return r.stdout.strip()


def tree_hash():
    """hash of every file cargo would read for the workspace members (tracked or not)"""
    r = subprocess.run(['git', '-C', REPO, 'ls-files', '-co', '--exclude-standard', '--'] + MEMBERS +
                       ['Cargo.toml', 'Cargo.lock', 'rust-toolchain.toml'],
                       stdout=subprocess.PIPE, text=True)
    h = hashlib.sha256()
    h.update(REPO.encode())
    for rel in sorted(set(r.stdout.split('\n'))):
        if not rel:
            continue
        p = os.path.join(REPO, rel)
        if not os.path.isfile(p):
            h.update(('-' + rel + '\n').encode())
            continue
        h.update((rel + '\n').encode())
        with open(p, 'rb') as fh:
            h.update(hashlib.sha256(fh.read()).digest())
    # the controls and the driver are inputs too
    for base in ('controls', 'driver/src'):
        for root, _, files in os.walk(os.path.join(VERIF, base)):
            if '/target' in root:
                continue
            for f in sorted(files):
                if f.endswith(('.rs', '.toml.in')) or f == 'rust-toolchain.toml':
                    p = os.path.join(root, f)
                    h.update(p.encode())
                    with open(p, 'rb') as fh:
                        h.update(hashlib.sha256(fh.read()).digest())
    return h.hexdigest()[:20]


def ensure_driver(log):
    src = os.path.join(VERIF, 'driver')
    newest = 0
    for root, _, files in os.walk(src):
        for f in files:
            newest = max(newest, os.path.getmtime(os.path.join(root, f)))
    if os.path.exists(DRIVER) and os.path.getmtime(DRIVER) >= newest:
        return
    env = dict(os.environ, CARGO_NET_OFFLINE='true', CARGO_TARGET_DIR=DRIVER_TARGET)
    r = sh(['cargo', 'build', '--offline'], cwd=src, env=env)
    log.append(r.stdout[-2000:])
    if r.returncode != 0 or not os.path.exists(DRIVER):
        sys.stderr.write(r.stdout)
        raise SystemExit('cruxfacts driver failed to build')


def _force_wrapper(target_dir):
    fp = os.path.join(target_dir, 'debug', '.fingerprint')
    if os.path.isdir(fp):
        for d in os.listdir(fp):
            if d.startswith(('crux_', 'crux-', 'doctest_support', 'doctest-support')):
                shutil.rmtree(os.path.join(fp, d), ignore_errors=True)


def extract(config, out_dir, log):
    cwd, args, need = CONFIGS[config]
    os.makedirs(out_dir, exist_ok=True)
    for f in os.listdir(out_dir):
        os.remove(os.path.join(out_dir, f))
    if config == 'controls':
        # the fixtures path-depend on /repo's crates and use its lock file
        shutil.copyfile(os.path.join(REPO, 'Cargo.lock'), os.path.join(cwd, 'Cargo.lock'))
        with open(os.path.join(cwd, 'Cargo.toml.in')) as fh:
            toml = fh.read().replace('@REPO@', REPO)
        with open(os.path.join(cwd, 'Cargo.toml'), 'w') as fh:
            fh.write(toml)
    _force_wrapper(TARGET)
    env = dict(os.environ)
    env.update({
        'LD_LIBRARY_PATH': os.path.join(nightly_sysroot(), 'lib'),
        'RUSTFLAGS': '-Zmir-opt-level=0 -Awarnings',
        'RUSTC_WORKSPACE_WRAPPER': DRIVER,
        'CRUXFACTS_OUT': out_dir,
        'CRUXFACTS_CONFIG': config,
        'CARGO_TARGET_DIR': TARGET,
        'CARGO_NET_OFFLINE': 'true',
        # same query order on a cold and on a warm target directory
        'CARGO_INCREMENTAL': '0',
    })
    env.pop('RUSTC_WRAPPER', None)
    t0 = time.time()
    r = sh(['cargo', '+nightly', 'check', '--offline'] + args, cwd=cwd, env=env)
    log.append('[extract %s] %.1fs rc=%d' % (config, time.time() - t0, r.returncode))
    if r.returncode != 0:
        sys.stderr.write(r.stdout[-6000:])
        return False, 'cargo check failed for configuration %s' % config
    have = set(f.split('.')[0] for f in os.listdir(out_dir) if f.endswith('.json'))
    missing = [c for c in need if c not in have]
    if missing:
        return False, 'fact files missing after extraction (%s): %s' % (config, missing)
    with open(os.path.join(out_dir, '.done'), 'w') as fh:
        fh.write('ok\n')
    return True, ''


def facts_for(configs, log):
    """returns {config: directory}; extracts what is missing for the current tree"""
    os.makedirs(CACHE, exist_ok=True)
    lock = open(os.path.join(CACHE, 'lock'), 'w')
    fcntl.flock(lock, fcntl.LOCK_EX)
    try:
        ensure_driver(log)
        th = tree_hash()
        base = os.path.join(FACTS, th)
        out = {}
        for c in configs:
            d = os.path.join(base, c)
            if not os.path.exists(os.path.join(d, '.done')):
                ok, why = extract(c, d, log)
                if not ok:
                    raise SystemExit('EXTRACTION FAILED: ' + why)
            out[c] = d
        # keep the three most recent tree hashes
        if os.path.isdir(FACTS):
            ds = sorted((os.path.getmtime(os.path.join(FACTS, x)), x) for x in os.listdir(FACTS))
            for _, x in ds[:-3]:
                if x != th:
                    shutil.rmtree(os.path.join(FACTS, x), ignore_errors=True)
        os.utime(base, None)
        return out, th
    finally:
        fcntl.flock(lock, fcntl.LOCK_UN)
        lock.close()
