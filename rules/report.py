"""Collects rule instances, applies the known-findings file, prints the verdict lines and
writes the evidence file."""
import json
import os
import time

VERIF = os.path.dirname(os.path.dirname(os.path.abspath(__file__)))
# self-tests on scratch copies write their evidence elsewhere, never over the real files
EVIDENCE = os.environ.get('VERIF_EVIDENCE_DIR') or os.path.join(VERIF, 'evidence')


class Report:
    def __init__(self, prop, tier, seed):
        self.prop = prop
        self.tier = tier
        self.seed = seed
        self.t0 = time.time()
        self.rules = {}       # rid -> {'text', 'ok': [], 'bad': [], 'floor': None}
        self.order = []
        self.controls = []
        self.units = []
        self.notes = []
        self.assumptions = []
        self.witness = None
        self.selftest = None

    # ---- declaring and discharging
    def rule(self, rid, text, floor=None):
        if rid not in self.rules:
            self.rules[rid] = {'text': text, 'ok': [], 'bad': [], 'floor': floor, 'na': []}
            self.order.append(rid)
        return rid

    def ok(self, rid, site, detail=''):
        self.rules[rid]['ok'].append({'site': site, 'detail': detail})

    def bad(self, rid, key, detail, site=None):
        """a violation; `key` identifies the instance without line numbers"""
        self.rules[rid]['bad'].append({'key': '%s|%s' % (rid, key), 'detail': detail, 'site': site or key})

    def expect(self, rid, cond, key, ok_detail, bad_detail, site=None):
        if cond:
            self.ok(rid, site or key, ok_detail)
        else:
            self.bad(rid, key, bad_detail, site)
        return cond

    def missing(self, rid, what):
        """fail closed: an anchor the rule needs was not found"""
        self.bad(rid, 'anchor-missing:' + what, 'anchor not found: %s (rule cannot be evaluated; failing closed)' % what)

    def control(self, name, passed, detail=''):
        self.controls.append({'name': name, 'passed': bool(passed), 'detail': detail})

    def unit(self, config, crate, nfns):
        self.units.append({'config': config, 'crate': crate, 'functions': nfns})

    def assume(self, text):
        if text not in self.assumptions:
            self.assumptions.append(text)

    # ---- verdict
    def finish(self, known, explanation, technique):
        violations = []
        known_hits = []
        # floors
        for rid in self.order:
            r = self.rules[rid]
            if r['floor'] is not None:
                found = len(r['ok']) + len(r['bad'])
                if found < r['floor']:
                    r['bad'].append({
                        'key': '%s|floor' % rid,
                        'detail': 'only %d instance(s) found, floor confirmed by hand is %d (rule would pass vacuously)' % (found, r['floor']),
                        'site': 'floor'})
        for c in self.controls:
            if not c['passed']:
                violations.append({'key': 'control|%s' % c['name'],
                                   'detail': 'positive control did not fire: %s %s' % (c['name'], c['detail']),
                                   'rule': 'control'})
        known_map = {k['key']: k for k in known.get('findings', []) if k.get('property') == self.prop}
        seen_keys = set()
        for rid in self.order:
            for b in self.rules[rid]['bad']:
                if b['key'] in seen_keys:
                    continue  # same instance seen in several configurations
                seen_keys.add(b['key'])
                if b['key'] in known_map:
                    known_hits.append({'key': b['key'], 'what': known_map[b['key']].get('what', ''), 'detail': b['detail']})
                else:
                    violations.append({'key': b['key'], 'detail': b['detail'], 'rule': rid})
        stale = [k for k in known_map if k not in {h['key'] for h in known_hits}]

        for h in known_hits:
            print('KNOWN-FINDING: property=%s %s [%s]' % (self.prop, h['what'], h['key']))
        replay = None
        if violations:
            os.makedirs(os.path.join(EVIDENCE, 'replay'), exist_ok=True)
            replay = os.path.join(EVIDENCE, 'replay', '%s.txt' % self.prop)
            with open(replay, 'w') as fh:
                for v in violations:
                    fh.write('%s\n    %s\n' % (v['key'], v['detail']))
            for v in violations:
                print('  violation %s: %s' % (v['key'], v['detail']))
            print('VIOLATION property=%s replay=%s' % (self.prop, replay))

        evaluations = sum(len(r['ok']) + len(r['bad']) for r in self.rules.values())
        distinct = set()
        for rid, r in self.rules.items():
            for o in r['ok']:
                distinct.add((rid, o['site']))
            for b in r['bad']:
                distinct.add((rid, b['site']))
        if os.environ.get('VERIF_LIST'):
            for rid in self.order:
                for o in self.rules[rid]['ok']:
                    print('  ok %s|%s: %s' % (rid, o['site'], o['detail']))
        samples = []
        for rid in self.order:
            r = self.rules[rid]
            for o in r['ok'][:2]:
                samples.append({'rule': rid, 'site': o['site'], 'discharged_by': o['detail']})
        rules_out = {}
        for rid in self.order:
            r = self.rules[rid]
            rules_out[rid] = {
                'statement': r['text'],
                'instances': len(r['ok']) + len(r['bad']),
                'discharged': len(r['ok']),
                'floor': r['floor'],
                'violations_or_known': [b['key'] for b in r['bad']],
            }
        obligations = evaluations
        discharged = sum(len(r['ok']) for r in self.rules.values())
        cov = {
            'explanation': explanation,
            'technique': technique,
            'evaluations': evaluations,
            'distinct_nontrivial': len(distinct),
            'rule': 'one evaluation = one (rule, site) pair enumerated from the extracted facts of the current tree; '
                    'distinct = distinct (rule, site) pairs whose predicate inspected at least one path, flow or table row',
            'samples': samples[:40],
            'obligations': obligations,
            'discharged': discharged,
            'exhaustive': True,
            'units_analysed': self.units,
            'rules': rules_out,
            'positive_controls': self.controls,
            'known_findings_reported': known_hits,
            'known_findings_not_reproduced': stale,
            'notes': self.notes,
        }
        if self.witness is not None:
            cov['compile_fail_witnesses'] = self.witness
        if self.selftest is not None:
            cov['selftest'] = self.selftest
        ev = {
            'property_id': self.prop,
            'tier': self.tier,
            'seed': self.seed,
            'level': 'other',
            'coverage': cov,
            'assumptions': self.assumptions,
            'wall_s': round(time.time() - self.t0, 3),
            'violations': len(violations),
        }
        os.makedirs(EVIDENCE, exist_ok=True)
        with open(os.path.join(EVIDENCE, '%s.json' % self.prop), 'w') as fh:
            json.dump(ev, fh, indent=1, sort_keys=False)
            fh.write('\n')
        print('%s %s: %d rule instance(s), %d discharged, %d known finding(s), %d violation(s)'
              % (self.prop, self.tier, evaluations, discharged, len(known_hits), len(violations)))
        return 1 if violations else 0
