"""Compile-fail witnesses: runs `cargo +nightly test --doc` in /verif/witness against the current tree and
reports, per witness group (W01, W02, W18, W19), whether every compile_fail block failed with its named
error code and every twin compiled (twins are `no_run`: nothing is executed)."""
import os
import re
import shutil
import subprocess

from rules import extract

EXPECTED = {  # group -> (compile_fail blocks, twins)
    'W01': (1, 1), 'W02': (3, 3), 'W18': (2, 1), 'W19': (2, 1),
}


def run():
    d = os.path.join(extract.VERIF, 'witness')
    with open(os.path.join(d, 'Cargo.toml.in')) as fh:
        toml = fh.read().replace('@REPO@', extract.REPO)
    with open(os.path.join(d, 'Cargo.toml'), 'w') as fh:
        fh.write(toml)
    shutil.copyfile(os.path.join(extract.REPO, 'Cargo.lock'), os.path.join(d, 'Cargo.lock'))
    env = dict(os.environ, CARGO_NET_OFFLINE='true', CARGO_TARGET_DIR=os.path.join(extract.CACHE, 'target-witness'),
               CARGO_INCREMENTAL='0')
    env.pop('RUSTC_WORKSPACE_WRAPPER', None)
    r = subprocess.run(['cargo', '+nightly', 'test', '--doc', '--offline'], cwd=d, env=env, stdout=subprocess.PIPE,
                       stderr=subprocess.STDOUT, text=True)
    groups = {}
    for m in re.finditer(r'^test src/lib\.rs - (W\d+) \(line (\d+)\)( - compile fail| - compile)? \.\.\. (\w+)', r.stdout, re.M):
        g, line, cf, res = m.group(1), int(m.group(2)), (m.group(3) or '').strip() == '- compile fail', m.group(4)
        groups.setdefault(g, []).append({'line': line, 'compile_fail': cf, 'ok': res == 'ok'})
    return {'rc': r.returncode, 'groups': groups, 'tail': r.stdout[-1500:] if r.returncode != 0 else ''}


def report(rep, group, result=None):
    """adds the witness group's obligations to the report; a missing or failing witness is a violation"""
    res = result or run()
    rid = 'W' + group[1:]
    rep.rule(rid, 'compile-fail witnesses %s: each violating program fails to type-check with its named error code; each twin compiles' % group)
    tests = res['groups'].get(group, [])
    want_cf, want_tw = EXPECTED[group]
    cf = [t for t in tests if t['compile_fail']]
    tw = [t for t in tests if not t['compile_fail']]
    if len(cf) < want_cf or len(tw) < want_tw:
        rep.bad(rid, 'missing', 'expected %d compile_fail blocks and %d twins for %s, cargo reported %d/%d (rc=%s) %s'
                % (want_cf, want_tw, group, len(cf), len(tw), res['rc'], res['tail'][-400:]))
    for t in tests:
        kind = 'compile_fail' if t['compile_fail'] else 'twin'
        rep.expect(rid, t['ok'], '%s|%s@%d' % (group, kind, t['line']),
                   'rustc: %s' % ('rejected with the named error code' if t['compile_fail'] else 'compiles'),
                   'witness %s at witness/src/lib.rs:%d (%s) did not behave as required: the type-level fact no longer holds'
                   % (group, t['line'], kind))
    rep.witness = {'checker_cmd': 'cargo +nightly test --doc --offline (in /verif/witness)', 'obligations': len(tests),
                   'discharged': len([t for t in tests if t['ok']]), 'trusted_base': ['rustc type checker', 'rustdoc compile_fail harness']}
    return res
