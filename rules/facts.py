"""Fact loading and the generic analyses the per-property rule modules compose.

Facts come from /verif/driver (cruxfacts): one JSON per crate per configuration, with the
expanded-AST attribute view, HIR item tables and two MIR views ("built" = mir_built,
"elab" = mir_drops_elaborated_and_const_checked).  Nothing here runs crux code.
"""
import glob
import json
import os
import re
from collections import defaultdict


# --------------------------------------------------------------------------------------
# path normalisation

def norm(path):
    """Strip generic arguments: `a::B::<T>::f` -> `a::B::f`, `Vec<u8>` -> `Vec`.
    Qualified-path brackets (`<X as T>::m`) are kept, their contents normalised."""
    if path is None:
        return None
    out = []
    i = 0
    n = len(path)
    stack = []  # True = kept bracket
    while i < n:
        c = path[i]
        if c == '<':
            prev = path[i - 1] if i > 0 else ''
            if path.startswith('<impl ', i):
                stack.append(True)
                out.append(c)
                i += 1
                continue
            if prev.isalnum() or prev == '_' or prev == ':' or prev == '>':
                # generic args: skip balanced group
                depth = 0
                j = i
                while j < n:
                    if path[j] == '<':
                        depth += 1
                    elif path[j] == '>' and not (j > 0 and path[j - 1] == '-'):
                        depth -= 1
                        if depth == 0:
                            break
                    j += 1
                # drop a preceding `::` (turbofish)
                if len(out) >= 2 and out[-1] == ':' and out[-2] == ':':
                    out.pop()
                    out.pop()
                i = j + 1
                continue
            stack.append(True)
            out.append(c)
        elif c == '>' and not (i > 0 and path[i - 1] == '-'):
            if stack:
                stack.pop()
            out.append(c)
        else:
            out.append(c)
        i += 1
    return ''.join(out)


def keypath(path):
    """Path used in violation keys: only turbofish groups (`::<T>`) are removed, so that two impls of
    one trait for different types keep different keys."""
    if path is None:
        return None
    out = []
    i = 0
    n = len(path)
    while i < n:
        if path.startswith('::<', i) and not path.startswith('::<impl ', i):
            depth = 0
            j = i + 2
            while j < n:
                if path[j] == '<':
                    depth += 1
                elif path[j] == '>' and path[j - 1] != '-':
                    depth -= 1
                    if depth == 0:
                        break
                j += 1
            i = j + 1
            continue
        out.append(path[i])
        i += 1
    return ''.join(out)


def path_matches(path, pattern):
    """`pattern` matches `path` when equal after normalisation or when it is a suffix on a
    `::` boundary (`QueuingExecutor::run_all` matches `crux_core::capability::executor::
    QueuingExecutor::run_all`)."""
    if path is None:
        return False
    p = norm(path)
    if p == pattern:
        return True
    return p.endswith('::' + pattern)


def last_seg(path):
    p = norm(path) or ''
    return p.rsplit('::', 1)[-1]


# --------------------------------------------------------------------------------------

_PS_SCALARS = {'bool', 'u8', 'u16', 'u32', 'u64', 'usize', 'i8', 'i16', 'i32', 'i64', 'isize', 'u128', 'i128'}
# (enum, predicate method) -> the variant index for which it is true
_VARIANT_PREDICATES = {
    ('core::task::poll::Poll', 'is_ready'): 0, ('core::task::poll::Poll', 'is_pending'): 1,
    ('core::option::Option', 'is_none'): 0, ('core::option::Option', 'is_some'): 1,
    ('core::result::Result', 'is_ok'): 0, ('core::result::Result', 'is_err'): 1,
    ('core::ops::control_flow::ControlFlow', 'is_continue'): 0, ('core::ops::control_flow::ControlFlow', 'is_break'): 1,
}
_PS_ENUM = re.compile(r'^(core::result::Result|core::option::Option|core::ops::control_flow::ControlFlow|core::task::poll::Poll)$')


class Fn:
    def __init__(self, crate, j, view):
        self.crate = crate
        self.j = j
        self.view = view
        self.path = j['path']
        self.npath = norm(self.path)
        self.kpath = keypath(self.path)
        self.name = last_seg(self.path)
        self.kind = j['kind']
        self.parent = j.get('parent')
        self.root = j.get('root')
        self.assoc = j.get('assoc') or {}
        self.blocks = j['blocks']
        self.argc = j['argc']
        self.locals = j['locals']
        self.span = j['span']
        self.upvars = j.get('upvars') or []
        self.coroutine = j.get('coroutine')
        self._succ = None
        self._pred = None
        self._defs = None
        self._uses = None

    def __repr__(self):
        return 'Fn(%s)' % self.path

    @property
    def file(self):
        return self.span.split(':')[0]

    def where(self, bb=None):
        if bb is None:
            return '%s (%s)' % (self.path, self.span)
        ln = self.blocks[bb]['t'].get('ln')
        return '%s (%s:%s)' % (self.path, self.file, ln)

    # ---- CFG (normal edges only: no unwind, no imaginary, no coroutine-drop edges)
    def succ(self, b):
        if self._succ is None:
            self._succ = {}
            for blk in self.blocks:
                t = blk['t']
                k = t['k']
                s = []
                if k in ('goto', 'drop', 'assert', 'falseedge', 'falseunwind', 'yield'):
                    s = [t['tg']]
                elif k == 'call':
                    if t.get('tg') is not None:
                        s = [t['tg']]
                elif k == 'switch':
                    s = [a[1] for a in t['arms']] + [t['otherwise']]
                self._succ[blk['i']] = s
        return self._succ[b]

    def pred(self, b):
        if self._pred is None:
            self._pred = defaultdict(list)
            for blk in self.blocks:
                for s in self.succ(blk['i']):
                    self._pred[s].append(blk['i'])
        return self._pred[b]

    def normal_blocks(self):
        return [b['i'] for b in self.blocks if not b['cleanup']]

    def reachable(self, starts, removed_blocks=(), removed_edges=()):
        """blocks reachable from `starts` (inclusive) along normal edges, never entering a
        removed block and never following a removed edge"""
        if self.j.get('inlined'):
            # spliced helpers hand their bool results back through a local assigned constants: follow only feasible edges
            return self.reachable_ps(starts, removed_blocks, removed_edges)
        removed_blocks = set(removed_blocks)
        removed_edges = set(removed_edges)
        seen = set()
        work = [s for s in starts if s not in removed_blocks]
        while work:
            b = work.pop()
            if b in seen:
                continue
            seen.add(b)
            for s in self.succ(b):
                if s in removed_blocks or (b, s) in removed_edges or s in seen:
                    continue
                work.append(s)
        return seen

    def _ps_correlated_defs(self):
        """blocks whose call defines a bool that is tested by MORE than one switch (directly, through whole-local copies or `!`): the
        shape a spliced `fn f(&mut self) -> bool { let x = self.g(); if x { .. } x }` followed by `if self.f() { return }` leaves behind.
        Only these results are tracked symbolically by reachable_ps (every other call result stays unknown, as before)."""
        if hasattr(self, '_ps_corr'):
            return self._ps_corr
        defs = {}      # local -> list of ('call', bb) | ('copy', local) | ('other',)
        for b in self.blocks:
            for st in b['st']:
                if st['k'] == 'assign' and not st['d']['p']:
                    rv = st['rv']
                    if rv['k'] == 'use' and 'l' in rv['a'] and not rv['a'].get('p'):
                        defs.setdefault(st['d']['l'], []).append(('copy', rv['a']['l']))
                    elif rv['k'] == 'unop' and rv.get('op') == 'Not' and 'l' in rv['a'] and not rv['a'].get('p'):
                        defs.setdefault(st['d']['l'], []).append(('copy', rv['a']['l']))
                    else:
                        defs.setdefault(st['d']['l'], []).append(('other',))
            t = b['t']
            if t['k'] == 'call' and not t['d']['p']:
                defs.setdefault(t['d']['l'], []).append(('call', b['i']))

        def sources(l, seen):
            if l in seen:
                return set()
            seen.add(l)
            out = set()
            for d in defs.get(l, [('other',)]):
                if d[0] == 'call':
                    out.add(d[1])
                elif d[0] == 'copy':
                    out |= sources(d[1], seen)
                else:
                    out.add(None)
            return out
        count = {}
        for b in self.blocks:
            t = b['t']
            if t['k'] == 'switch' and 'l' in t['a'] and not t['a'].get('p') and self.locals[t['a']['l']] == 'bool':
                for src in sources(t['a']['l'], set()):
                    if src is not None:
                        count[src] = count.get(src, 0) + 1
        self._ps_corr = set(b for b, n in count.items() if n > 1)
        return self._ps_corr

    def reachable_ps(self, starts, removed_blocks=(), removed_edges=(), call_values=None):
        """like reachable(), but path-sensitive in what is known about locals along the path: bool / integer locals assigned
        constants (the shape `matches!`/`&&`/`||` compile to), and enum-typed locals assigned an aggregate of a known variant
        (Ok(..) / Err(..) / Some(..) built by a spliced helper and then tested by `?` or a match).  A switch on such a local, or on
        the discriminant read from it, only follows the edge its known value selects.  `Try::branch` maps Ok/Some to Continue and
        Err/None to Break."""
        removed_blocks = set(removed_blocks)
        removed_edges = set(removed_edges)
        seen = set()
        out = set()
        work = [(s, frozenset()) for s in starts if s not in removed_blocks]
        corr = self._ps_correlated_defs()
        while work:
            b, known = work.pop()
            if (b, known) in seen or len(seen) > 40000:
                continue
            seen.add((b, known))
            out.add(b)
            k = dict(known)
            for st in self.blocks[b]['st']:
                if st['k'] != 'assign' or st['d']['p']:
                    continue
                l = st['d']['l']
                rv = st['rv']
                if rv['k'] == 'use' and rv['a'].get('o') == 'const' and rv['a'].get('v') is not None and rv['a'].get('t') in _PS_SCALARS:
                    k[l] = rv['a']['v']
                elif rv['k'] == 'use' and rv['a'].get('l') in k and not rv['a'].get('p'):
                    k[l] = k[rv['a']['l']]
                elif rv['k'] == 'agg' and rv.get('ak') == 'adt' and rv.get('vidx') is not None and _PS_ENUM.match(rv.get('adt') or ''):
                    k[l] = ('V', rv['adt'], rv['vidx']) if rv.get('ops') else ('V', rv['adt'], rv['vidx'], 'unit')
                elif rv['k'] == 'agg' and rv.get('ak') == 'adt' and rv.get('vidx') is not None \
                        and (self.crate.adts.get(norm(rv.get('adt') or '')) or {}).get('kind') == 'enum':
                    # a variant of one of the crate's own enums (`state != TaskState::Completed`; a private `Step::Through(..)` matched on next)
                    k[l] = ('V', rv['adt'], rv['vidx']) if rv.get('ops') else ('V', rv['adt'], rv['vidx'], 'unit')
                elif rv['k'] == 'ref' and not rv['a'].get('p') and isinstance(k.get(rv['a'].get('l')), tuple) and k[rv['a']['l']][0] == 'V':
                    k[l] = ('&',) + k[rv['a']['l']]
                elif rv['k'] == 'agg' and rv.get('ak') == 'tuple':
                    # a tuple of known and unknown parts (`(entry.resolve(body), entry.is_spent())` destructured further on)
                    parts = []
                    for op in rv.get('ops') or []:
                        if op.get('o') == 'const' and op.get('v') is not None and op.get('t') in _PS_SCALARS:
                            parts.append(op['v'])
                        elif 'l' in op and not op.get('p') and op['l'] in k:
                            parts.append(k[op['l']])
                        else:
                            parts.append(None)
                    if any(x is not None for x in parts):
                        k[l] = ('T',) + tuple(parts)
                    else:
                        k.pop(l, None)
                elif rv['k'] == 'use' and 'l' in rv['a'] and len(rv['a'].get('p') or []) == 1 and isinstance(k.get(rv['a']['l']), tuple) \
                        and k[rv['a']['l']][0] == 'T' and re.match(r'^\.\d+$', rv['a']['p'][0]) and int(rv['a']['p'][0][1:]) + 1 < len(k[rv['a']['l']]) \
                        and k[rv['a']['l']][int(rv['a']['p'][0][1:]) + 1] is not None:
                    k[l] = k[rv['a']['l']][int(rv['a']['p'][0][1:]) + 1]
                elif rv['k'] == 'discr' and not rv['a'].get('p') and isinstance(k.get(rv['a'].get('l')), tuple) and k[rv['a']['l']][0] != 'S':
                    k[l] = k[rv['a']['l']][2]
                elif rv['k'] == 'unop' and rv.get('op') == 'Not' and 'l' in rv['a'] and not rv['a'].get('p') and k.get(rv['a']['l']) in (0, 1, True, False) \
                        and not isinstance(k.get(rv['a']['l']), tuple) and self.locals[rv['a']['l']] == 'bool':
                    k[l] = 0 if k[rv['a']['l']] else 1
                elif rv['k'] == 'unop' and rv.get('op') == 'Not' and 'l' in rv['a'] and not rv['a'].get('p') and isinstance(k.get(rv['a']['l']), tuple) \
                        and k[rv['a']['l']][0] == 'S':
                    v_ = k[rv['a']['l']]
                    k[l] = ('S', v_[1], 1 - v_[2])
                else:
                    k.pop(l, None)
            t = self.blocks[b]['t']
            if t['k'] == 'call' and not t['d']['p']:
                val = None
                if call_values is not None:
                    # the caller fixes the result of some calls (evaluation of a predicate over a finite domain)
                    val = call_values(b, t)
                if val is None and t.get('args') and call_matches(t, ['core::ops::try_trait::Try::branch']):
                    src = k.get(t['args'][0].get('l')) if not t['args'][0].get('p') else None
                    if isinstance(src, tuple):
                        if src[1] == 'core::result::Result':
                            val = ('V', 'core::ops::control_flow::ControlFlow', 0 if src[2] == 0 else 1)
                        elif src[1] == 'core::option::Option':
                            val = ('V', 'core::ops::control_flow::ControlFlow', 0 if src[2] == 1 else 1)
                if val is None and len(t.get('args') or []) == 2 and call_matches(t, ['core::cmp::PartialEq::eq', 'core::cmp::PartialEq::ne']):
                    val = self._ps_enum_eq(t, k)
                if val is None and len(t.get('args') or []) == 1 and not t['args'][0].get('p'):
                    # `poll.is_pending()`, `opt.is_some()`, `res.is_err()` on a value of known variant
                    v_ = k.get(t['args'][0].get('l'))
                    if isinstance(v_, tuple) and v_[0] == '&':
                        v_ = v_[1:]
                    if isinstance(v_, tuple) and v_[0] == 'V':
                        pred = _VARIANT_PREDICATES.get((norm(v_[1]), last_seg(norm(t.get('callee') or ''))))
                        if pred is not None and norm(t.get('callee') or '').startswith(norm(v_[1]) + '::'):
                            val = (v_[2] == pred)
                if val is None and b in corr:
                    # a bool tested more than once: a symbol whose value is fixed by the first test along the path. Executing the
                    # defining call again (a loop) makes a new value: what was known about the old one is forgotten
                    for l_ in [l_ for l_, v_ in k.items() if (isinstance(v_, tuple) and v_[0] == 'S' and v_[1] == b) or l_ == ('fact', b)]:
                        del k[l_]
                    val = ('S', b, 0)
                if val is not None:
                    k[t['d']['l']] = val
                else:
                    k.pop(t['d']['l'], None)
                # a call given a mutable borrow may change nothing we track (we only track by-value locals assigned whole)
            succs = self.succ(b)
            if t['k'] == 'switch' and t['a'].get('l') in k and not t['a'].get('p') and not isinstance(k[t['a']['l']], tuple):
                v = k[t['a']['l']]
                tgt = None
                for val, bb2 in t['arms']:
                    if val == v:
                        tgt = bb2
                if tgt is None:
                    tgt = t['otherwise']
                succs = [tgt]
            if t['k'] == 'switch' and t['a'].get('l') in k and not t['a'].get('p') and isinstance(k[t['a']['l']], tuple) and k[t['a']['l']][0] == 'S':
                _, sid, neg = k[t['a']['l']]
                f0 = next((bb2 for val, bb2 in t['arms'] if val == 0), None)     # the arm taken when the tested value is false
                f1 = t['otherwise'] if f0 is not None else None
                if f0 is not None and f1 is not None and len(t['arms']) == 1:
                    fact = k.get(('fact', sid))
                    for tested, s2 in ((0, f0), (1, f1)):
                        symval = tested ^ neg          # value of the symbol itself on this edge
                        if fact is not None and fact != symval:
                            continue
                        if s2 in removed_blocks or (b, s2) in removed_edges:
                            continue
                        k2 = dict(k)
                        k2[('fact', sid)] = symval
                        work.append((s2, frozenset(k2.items())))
                    continue
            nk = frozenset(k.items())
            for s2 in succs:
                if s2 in removed_blocks or (b, s2) in removed_edges:
                    continue
                work.append((s2, nk))
        return out

    def _ps_enum_eq(self, t, k):
        """`a == b` / `a != b` on two references to enum values of known variant, compared by the derived (structural) PartialEq:
        different variants are unequal; the same field-less variant is equal"""
        vs = []
        for a in t['args']:
            v = k.get(a.get('l')) if not a.get('p') else None
            if not (isinstance(v, tuple) and v[0] == '&'):
                return None
            vs.append(v[1:])
        a, b = vs
        if a[1] != b[1]:
            return None
        adt = norm(a[1])
        if not _PS_ENUM.match(adt):
            eqs = self.crate.find(trait='core::cmp::PartialEq', self_adt=adt, name='eq')
            if len(eqs) != 1 or not eqs[0].assoc.get('derived'):
                return None
        if a[2] != b[2]:
            same = False
        elif len(a) > 3 and len(b) > 3:
            same = True
        else:
            return None
        ne = last_seg(norm((t.get('callee') or ''))) == 'ne'
        return (not same) if ne else same

    def reachable_after(self, b, removed_blocks=(), removed_edges=()):
        """blocks reachable strictly after block b's terminator"""
        removed_blocks = set(removed_blocks)
        removed_edges = set(removed_edges)
        starts = [s for s in self.succ(b) if (b, s) not in removed_edges]
        return self.reachable(starts, removed_blocks, removed_edges)

    def return_blocks(self):
        return [b['i'] for b in self.blocks if b['t']['k'] == 'return' and not b['cleanup']]

    def dominates(self, a, b):
        """every path entry -> b passes through block a"""
        if a == b:
            return True
        return b not in self.reachable([0], removed_blocks=[a])

    def edge_dominates(self, edge, b):
        """every path entry -> b passes along edge (u, v)"""
        return b not in self.reachable([0], removed_edges=[edge]) or False

    def all_paths_pass(self, frm_after, to_blocks, via_blocks=(), via_edges=()):
        """every path that leaves block `frm_after` and reaches one of `to_blocks` passes
        through a block in via_blocks or an edge in via_edges"""
        r = self.reachable_after(frm_after, removed_blocks=via_blocks, removed_edges=via_edges)
        return not (set(to_blocks) & r)

    def sccs(self):
        """strongly connected components of the normal CFG (Tarjan, iterative)"""
        index = {}
        low = {}
        onstack = set()
        stack = []
        out = []
        counter = [0]
        for root in self.normal_blocks():
            if root in index:
                continue
            work = [(root, iter(self.succ(root)))]
            index[root] = low[root] = counter[0]
            counter[0] += 1
            stack.append(root)
            onstack.add(root)
            while work:
                v, it = work[-1]
                advanced = False
                for w in it:
                    if w not in index:
                        index[w] = low[w] = counter[0]
                        counter[0] += 1
                        stack.append(w)
                        onstack.add(w)
                        work.append((w, iter(self.succ(w))))
                        advanced = True
                        break
                    elif w in onstack:
                        low[v] = min(low[v], index[w])
                if advanced:
                    continue
                work.pop()
                if work:
                    u = work[-1][0]
                    low[u] = min(low[u], low[v])
                if low[v] == index[v]:
                    comp = []
                    while True:
                        w = stack.pop()
                        onstack.discard(w)
                        comp.append(w)
                        if w == v:
                            break
                    out.append(comp)
        return out

    def loops(self):
        """natural loops: list of (header, set(body blocks)) from back edges u->h with h dom u"""
        res = {}
        reach0 = self.reachable([0])
        for u in reach0:
            for h in self.succ(u):
                if h in reach0 and self.dominates(h, u):
                    body = res.setdefault(h, {h})
                    work = [u]
                    while work:
                        x = work.pop()
                        if x in body:
                            continue
                        body.add(x)
                        work.extend(self.pred(x))
        return list(res.items())

    def in_cycle(self, b):
        """block b lies on a CFG cycle"""
        return b in self.reachable_after(b)

    # ---- sites
    def terms(self, kind=None):
        for blk in self.blocks:
            if blk['cleanup']:
                continue
            if kind is None or blk['t']['k'] == kind:
                yield blk['i'], blk['t']

    def calls(self, *patterns, include_cleanup=False):
        """(bb, terminator) of calls whose callee (declared or resolved) matches a pattern"""
        for blk in self.blocks:
            if blk['cleanup'] and not include_cleanup:
                continue
            t = blk['t']
            if t['k'] != 'call':
                continue
            if not patterns or call_matches(t, patterns):
                yield blk['i'], t

    def stmts(self, kind=None):
        for blk in self.blocks:
            if blk['cleanup']:
                continue
            for idx, s in enumerate(blk['st']):
                if kind is None or s['k'] == kind:
                    yield blk['i'], idx, s

    # ---- def/use
    def defs(self, local):
        """definition sites of a local: ('stmt', bb, idx, stmt) | ('call', bb, term) |
        ('yield', bb, term); only whole-local or projected assignments"""
        if self._defs is None:
            d = defaultdict(list)
            for blk in self.blocks:
                for idx, s in enumerate(blk['st']):
                    if s['k'] == 'assign':
                        d[s['d']['l']].append(('stmt', blk['i'], idx, s))
                t = blk['t']
                if t['k'] == 'call':
                    d[t['d']['l']].append(('call', blk['i'], t))
            self._defs = d
        return self._defs.get(local, [])

    def is_arg(self, local):
        return 1 <= local <= self.argc

    def uses(self, local):
        """sites where a local is read as an operand:
        ('stmt', bb, idx, stmt, role) | ('callarg', bb, term, k) | ('switch', bb, term) |
        ('drop', bb, term) | ('callfn', bb, term) | ('yield', bb, term)"""
        if self._uses is None:
            u = defaultdict(list)

            def op_local(o):
                if isinstance(o, dict) and 'l' in o:
                    return o['l']
                return None

            def op_proj(o):
                return o.get('p', []) if isinstance(o, dict) else []
            for blk in self.blocks:
                for idx, s in enumerate(blk['st']):
                    if s['k'] != 'assign':
                        continue
                    rv = s['rv']
                    for key in ('a', 'b'):
                        if key in rv:
                            l = op_local(rv[key])
                            if l is not None:
                                u[l].append(('stmt', blk['i'], idx, s, key, op_proj(rv[key])))
                    for k, o in enumerate(rv.get('ops', [])):
                        l = op_local(o)
                        if l is not None:
                            u[l].append(('stmt', blk['i'], idx, s, 'op%d' % k, op_proj(o)))
                t = blk['t']
                if t['k'] == 'call':
                    for k, a in enumerate(t['args']):
                        l = op_local(a)
                        if l is not None:
                            u[l].append(('callarg', blk['i'], t, k, op_proj(a)))
                    if t.get('f'):
                        l = op_local(t['f'])
                        if l is not None:
                            u[l].append(('callfn', blk['i'], t))
                elif t['k'] == 'switch':
                    l = op_local(t['a'])
                    if l is not None:
                        u[l].append(('switch', blk['i'], t))
                elif t['k'] == 'drop':
                    u[t['d']['l']].append(('drop', blk['i'], t))
                elif t['k'] == 'yield':
                    l = op_local(t['a'])
                    if l is not None:
                        u[l].append(('yield', blk['i'], t))
                elif t['k'] == 'assert':
                    l = op_local(t['a'])
                    if l is not None:
                        u[l].append(('assert', blk['i'], t))
            self._uses = u
        return self._uses.get(local, [])


def call_names(term):
    """candidate names of a call's callee: declared path, resolved path, and `SelfType::method` for methods of
    inherent impls (whose def-path names the module of the impl block, not of the type)"""
    out = []
    for key, selfkey in (('callee', 'cself'), ('resolved', 'rself')):
        p = term.get(key)
        if p is None:
            continue
        out.append(norm(p))
        st = term.get(selfkey)
        if st:
            out.append(norm(st) + '::' + last_seg(p))
    return out


def call_matches(term, patterns):
    for p in call_names(term):
        for pat in patterns:
            if p == pat or p.endswith('::' + pat):
                return True
    return False


# identity-like calls the provenance walkers may step through: (pattern, argument index)
IDENTITY_CALLS = [
    ('core::ops::deref::Deref::deref', 0),
    ('core::ops::deref::DerefMut::deref_mut', 0),
    ('core::convert::AsRef::as_ref', 0),
    ('core::convert::AsMut::as_mut', 0),
    ('core::borrow::Borrow::borrow', 0),
    ('core::borrow::BorrowMut::borrow_mut', 0),
    ('core::pin::Pin::new', 0),
    ('core::pin::Pin::as_mut', 0),
    ('core::pin::Pin::get_mut', 0),
    ('core::pin::Pin::new_unchecked', 0),
    ('core::iter::traits::collect::IntoIterator::into_iter', 0),
    ('core::future::into_future::IntoFuture::into_future', 0),
    ('alloc::boxed::Box::new', 0),
    ('alloc::boxed::Box::pin', 0),
]


def is_identity_call(term, extra=()):
    for pat, k in list(IDENTITY_CALLS) + list(extra):
        if call_matches(term, [pat]):
            return k
    # From/Into between identical types
    if call_matches(term, ['core::convert::Into::into', 'core::convert::From::from']):
        ta = term.get('targs') or []
        if len(ta) >= 2 and ta[0] == ta[1]:
            return 0
    return None


class Origin:
    """terminal of a backwards provenance walk"""

    def __init__(self, kind, **kw):
        self.kind = kind
        self.__dict__.update(kw)

    def __repr__(self):
        d = {k: v for k, v in self.__dict__.items() if k not in ('term', 'stmt', 'kind')}
        return 'Origin(%s %s)' % (self.kind, d)


def origins(fn, operand, extra_identity=(), through_clone=False, through_casts=False, _seen=None, _suffix=None,
            _steps=None):
    """Backwards def-use walk from an operand/place (dict with 'l' and 'p', or a constant).
    Returns a list of Origin:
      arg(n, suffix) | const(s) | call(bb, term, suffix) | agg(bb, stmt, suffix) |
      rvalue(bb, stmt, suffix) | undefined(local)
    `suffix` is the projection still to be applied to the terminal.  Flow-insensitive: a
    local with several assignments contributes all of them."""
    if _seen is None:
        _seen = set()
    if _steps is None:
        _steps = []
    if operand.get('o') == 'const' or 'l' not in operand:
        return [Origin('const', s=operand.get('s') or operand.get('fn'), v=operand.get('v'), fn=operand.get('fn'),
                       static=operand.get('static'), suffix=list(operand.get('p', [])) + list(_suffix or []), steps=list(_steps))]
    local = operand['l']
    suffix = list(operand.get('p', [])) + list(_suffix or [])
    if len(suffix) > 14:
        # a place defined in terms of itself (`self.remaining = &self.remaining[1..]`): the projection grows with every round
        return []
    key = (local, tuple(suffix))
    if key in _seen:
        return []
    _seen.add(key)
    out = []
    if fn.is_arg(local):
        out.append(Origin('arg', n=local, suffix=suffix, steps=list(_steps)))
        # arguments may also be re-assigned; fall through to defs
    ds = fn.defs(local)
    if not ds and not fn.is_arg(local):
        out.append(Origin('undefined', local=local, suffix=suffix, steps=list(_steps)))
    for d in ds:
        if d[0] == 'call':
            _, bb, t = d
            if t['d']['p']:
                # call result stored into a projection of the local
                dp = t['d']['p']
                if suffix[:len(dp)] == dp:
                    out.append(Origin('call', bb=bb, term=t, suffix=suffix[len(dp):], steps=list(_steps)))
                continue
            # the early return of `?` builds an Err / None: it can never be the source of an Ok / Some payload
            if suffix[:1] in (['as Ok'], ['as Some']) and call_matches(t, ['core::ops::try_trait::FromResidual::from_residual']):
                continue
            # `expr?`: the Continue payload is the Ok/Some payload of the operand
            if suffix[:2] == ['as Continue', '.0'] and call_matches(t, ['core::ops::try_trait::Try::branch']):
                # (`Some` when the operand is an Option)
                opt_ = ((t.get('targs') or [''])[0] or t['args'][0].get('t') or '').startswith('core::option::Option<')
                out += origins(fn, t['args'][0], extra_identity, through_clone, through_casts, _seen,
                               ['as Some' if opt_ else 'as Ok', '.0'] + suffix[2:], _steps + [('try', bb)])
                continue
            # ... and the Break payload is its residual: for a Result, Break(Err(e)) where e is the operand's Err payload
            if suffix[:4] == ['as Break', '.0', 'as Err', '.0'] and call_matches(t, ['core::ops::try_trait::Try::branch']):
                out += origins(fn, t['args'][0], extra_identity, through_clone, through_casts, _seen,
                               ['as Err', '.0'] + suffix[4:], _steps + [('try-residual', bb)])
                continue
            # the early return of `?` on a Result whose error type is the function's own: Err(e) with e the residual's payload
            if suffix[:2] == ['as Err', '.0'] and call_matches(t, ['core::ops::try_trait::FromResidual::from_residual']) and _same_error_type(t):
                out += origins(fn, t['args'][0], extra_identity, through_clone, through_casts, _seen,
                               ['as Err', '.0'] + suffix[2:], _steps + [('from-residual', bb)])
                continue
            # `fut.await`: the Ready payload is the output of the awaited future
            if suffix[:2] == ['as Ready', '.0'] and call_matches(t, ['core::future::future::Future::poll']):
                out += origins(fn, t['args'][0], extra_identity, through_clone, through_casts, _seen,
                               suffix[2:], _steps + [('await', bb)])
                continue
            k = is_identity_call(t, extra_identity)
            if k is None and through_clone and call_matches(t, ['core::clone::Clone::clone']):
                k = 0
            if k is not None and k < len(t['args']):
                out += origins(fn, t['args'][k], extra_identity, through_clone, through_casts, _seen, _strip_ref(suffix),
                               _steps + [('idcall', bb, last_seg(t.get('callee') or ''))])
            else:
                out.append(Origin('call', bb=bb, term=t, suffix=suffix, steps=list(_steps)))
            continue
        _, bb, idx, s = d
        dp = s['d']['p']
        if dp:
            # assignment to a projection of the local: relevant only if it covers our suffix
            if suffix[:len(dp)] != dp:
                continue
            rest = suffix[len(dp):]
        else:
            rest = suffix
        rv = s['rv']
        k = rv['k']
        if k == 'use':
            out += origins(fn, rv['a'], extra_identity, through_clone, through_casts, _seen, rest, _steps)
        elif k == 'ref' or k == 'rawptr':
            # &P followed by a deref cancels
            if rest and rest[0] == '*':
                out += origins(fn, rv['a'], extra_identity, through_clone, through_casts, _seen, rest[1:], _steps)
            else:
                out += origins(fn, rv['a'], extra_identity, through_clone, through_casts, _seen, rest,
                               _steps + [('ref', bb)])
        elif k == 'cast' and (through_casts or rv['ck'] in ('PointerCoercion',) or rv['from'] == rv['to']):
            out += origins(fn, rv['a'], extra_identity, through_clone, through_casts, _seen, rest,
                           _steps + [('cast', bb, rv['from'], rv['to'])])
        elif k == 'agg':
            # select the field named by the suffix, if any
            sel = None
            r2 = list(rest)
            if r2 and r2[0].startswith('as '):
                # a downcast to variant V can only read an aggregate built as V
                want_v = r2[0][3:]
                if rv.get('ak') == 'adt' and rv.get('variant') is not None:
                    if (want_v.startswith('#') and str(rv.get('vidx')) != want_v[1:]) or (not want_v.startswith('#') and rv['variant'] != want_v):
                        continue
                r2 = r2[1:]
            if r2 and r2[0].startswith('.'):
                fname = r2[0][1:].lstrip('^')
                names = rv.get('fields')
                if names is not None and fname in names:
                    sel = names.index(fname)
                elif fname.isdigit() and int(fname) < len(rv['ops']):
                    sel = int(fname)
            if sel is not None and sel < len(rv['ops']):
                out += origins(fn, rv['ops'][sel], extra_identity, through_clone, through_casts, _seen, r2[1:], _steps)
            else:
                out.append(Origin('agg', bb=bb, stmt=s, suffix=rest, steps=list(_steps)))
        else:
            out.append(Origin('rvalue', bb=bb, stmt=s, suffix=rest, steps=list(_steps)))
    return out


def _same_error_type(t):
    """from_residual::<Result<T, E>, Result<Infallible, E2>>: is E == E2 (so that From::from on the error is the identity)?"""
    ta = t.get('targs') or []
    if len(ta) < 2 or not ta[0].startswith('core::result::Result<') or not ta[1].startswith('core::result::Result<'):
        return False

    def last_arg(x):
        depth = 0
        inner = x[len('core::result::Result<'):-1]
        for i in range(len(inner) - 1, -1, -1):
            ch = inner[i]
            if ch in '>)]':
                depth += 1
            elif ch in '<([':
                depth -= 1
            elif ch == ',' and depth == 0:
                return inner[i + 1:].strip()
        return inner.strip()
    return last_arg(ta[0]) == last_arg(ta[1])


def _strip_ref(suffix):
    # a deref applied to the result of an identity call stays applied to its argument
    return suffix


def flows_to(fn, local, extra_identity=(), through_clone=False, _seen=None, whole_only=False):
    """Forward closure of a local through moves/copies/refs/casts/identity calls/aggregates.
    Yields sink tuples:
      ('callarg', bb, term, k, via)  ('return',)  ('drop', bb)  ('switch', bb)
      ('field', bb, stmt)   (stored into a projection of another local)
      ('yield', bb)
    `via` is the list of locals the value passed through.  With whole_only, uses that read only a
    projection of the value (a payload taken out after a discriminant test) are not followed."""
    if _seen is None:
        _seen = set()
    sinks = []
    # (local, via, fp): the value sits in `local` at field path fp — non-empty once it was put into a tuple, whose other fields are
    # somebody else's (`(entry.resolve(body), entry.is_spent())`, destructured further on)
    work = [(local, [local], [])]
    while work:
        l, via, fp = work.pop()
        if (l, tuple(fp)) in _seen:
            continue
        _seen.add((l, tuple(fp)))
        if l == 0 and not fp:
            sinks.append(('return', via))
        for u in fn.uses(l):
            kind = u[0]
            proj = u[5] if kind == 'stmt' else (u[4] if kind == 'callarg' else [])
            nfp = []
            if fp:
                if kind in ('drop', 'switch', 'yield', 'callfn', 'assert'):
                    if kind == 'drop':
                        sinks.append(('drop', u[1], via))
                    elif kind == 'yield':
                        sinks.append(('yield', u[1], via))
                    continue
                if proj[:len(fp)] == fp:
                    proj = proj[len(fp):]        # reads our field (or a part of it)
                elif fp[:len(proj)] == proj:
                    nfp = fp[len(proj):]         # moves the tuple (or an outer part of it) on, our value still inside
                    proj = []
                else:
                    continue                     # another field
            if kind == 'stmt':
                _, bb, idx, s, role, _p = u
                if whole_only and any(tok != '*' for tok in proj):
                    continue
                d = s['d']
                rv = s['rv']
                if rv['k'] in ('use', 'ref', 'rawptr', 'cast', 'agg', 'discr', 'unop', 'binop'):
                    if nfp and rv['k'] not in ('use', 'ref', 'rawptr'):
                        nfp = []   # wrapped into something else: from here on the whole value is followed, as before
                    if rv['k'] in ('discr',):
                        sinks.append(('discr', bb, s, via))
                        continue
                    if rv['k'] in ('binop', 'unop'):
                        sinks.append(('op', bb, s, via))
                    if d['p'] and d['l'] != l:
                        sinks.append(('field', bb, s, via))
                    if rv['k'] == 'agg' and rv.get('ak') == 'tuple' and role.startswith('op') and not d['p']:
                        work.append((d['l'], via + [d['l']], ['.' + role[2:]]))
                    else:
                        work.append((d['l'], via + [d['l']], nfp))
            elif kind == 'callarg':
                _, bb, t, k, _p = u
                if whole_only and any(tok != '*' for tok in proj):
                    continue
                if nfp:
                    # handed to a call inside its tuple (the argument tuple of a closure call)
                    sinks.append(('callarg', bb, t, k, via))
                    continue
                idk = is_identity_call(t, extra_identity)
                if idk is None and through_clone and call_matches(t, ['core::clone::Clone::clone']):
                    idk = 0
                if idk is not None and idk == k:
                    work.append((t['d']['l'], via + [t['d']['l']], []))
                else:
                    sinks.append(('callarg', bb, t, k, via))
            elif kind == 'drop':
                sinks.append(('drop', u[1], via))
            elif kind == 'switch':
                sinks.append(('switch', u[1], via))
            elif kind == 'yield':
                sinks.append(('yield', u[1], via))
            elif kind == 'callfn':
                sinks.append(('callfn', u[1], u[2], via))
            elif kind == 'assert':
                sinks.append(('assert', u[1], via))
    return sinks


# --------------------------------------------------------------------------------------

class Crate:
    def __init__(self, j):
        self.j = j
        self.name = j['crate']
        self.config = j['config']
        # helper functions that did not exist when the rules were confirmed are spliced into their callers (rules/inline.py)
        if not os.environ.get('VERIF_NO_INLINE'):
            from rules import inline
            self.inlined_helpers = inline.apply(j)
        else:
            self.inlined_helpers = {}
        self.built = [Fn(self, f, 'built') for f in j['built']]
        self.elab = [Fn(self, f, 'elab') for f in j['elab']]
        # calls through a function pointer whose only possible value is one function item (`unwrap(x)` where the spliced helper's
        # parameter `unwrap` was given `KeyValueResult::unwrap_get`) are calls of that function
        for f in self.built + self.elab:
            for blk in f.blocks:
                t = blk['t']
                if t['k'] == 'call' and not t.get('callee') and isinstance(t.get('f'), dict) and 'l' in t['f']:
                    try:
                        os_ = origins(f, t['f'], through_casts=True)
                    except RecursionError:
                        continue
                    items = set(o.fn for o in os_ if o.kind == 'const' and getattr(o, 'fn', None))
                    if len(items) == 1 and all(o.kind == 'const' and getattr(o, 'fn', None) for o in os_):
                        t['callee'] = next(iter(items))
                        t['resolved'] = t['callee']
                        t['devirt'] = True
        # initialisers of named consts / statics (MIR bodies, not part of `built`)
        self.consts = {norm(f['path']): Fn(self, f, 'built') for f in (j.get('consts') or [])}
        self.items = j['items']
        self.ast = j['ast']
        self.adts = {norm(a['path']): a for a in self.items['adts']}
        self.impls = self.items['impls']
        self.statics = self.items['statics']
        self._by_path = {}
        for f in self.built:
            self._by_path.setdefault(('built', f.npath), []).append(f)
        for f in self.elab:
            self._by_path.setdefault(('elab', f.npath), []).append(f)

    def fns(self, view='built'):
        return self.built if view == 'built' else self.elab

    def find(self, pattern=None, view='built', trait=None, self_adt=None, name=None, kind=None):
        """functions whose normalised path matches `pattern` (suffix on `::`), and/or that are
        the method `name` of an impl of `trait` for `self_adt`"""
        out = []
        for f in self.fns(view):
            if pattern is not None and not path_matches(f.path, pattern):
                # `Type::method` also names a method of an inherent impl written in another module
                sa = f.assoc.get('self_adt')
                alt = (norm(sa) + '::' + f.name) if sa and f.kind != 'Closure' else None
                if alt is None or not (alt == pattern or alt.endswith('::' + pattern)):
                    continue
            if name is not None and f.name != name:
                continue
            if trait is not None and not path_matches(f.assoc.get('trait'), trait):
                continue
            if self_adt is not None and not path_matches(f.assoc.get('self_adt'), self_adt):
                continue
            if kind is not None and f.kind != kind:
                continue
            out.append(f)
        return out

    def closures_of(self, fn, view=None):
        """closures (and coroutine bodies) nested directly or transitively in fn"""
        view = view or fn.view
        out = [g for g in self.fns(view) if g.kind == 'Closure' and g.root == fn.root and g.path != fn.path
               and g.path.startswith(fn.path)]
        # closures that live in helpers inlined into fn (or into one of its closures) belong to fn as well
        hosts = [fn] + out
        seen = set(g.path for g in out)
        for _ in range(3):
            helpers = set(p for h in hosts for p in (h.j.get('inlined') or []))
            more = [g for g in self.fns(view) if g.kind == 'Closure' and g.path not in seen and any(g.path.startswith(p + '::') for p in helpers)]
            if not more:
                break
            for g in more:
                seen.add(g.path)
            out += more
            hosts = more
        return out

    def host_root(self, fn, view=None, _depth=0):
        """key path of the hand-written function a body belongs to: the non-closure function it is nested in, or — when that function is a
        helper that was spliced into exactly one function — that function's own host.  Lets a finding keep its site when the code
        around it is wrapped into a new helper (plain or async) or a closure."""
        view = view or fn.view
        root = fn.root or fn.path
        if _depth < 4:
            hosts = [h for h in self.fns(view) if root in (h.j.get('inlined') or []) and (h.root or h.path) != root]
            host_roots = set(self.host_root(h, view, _depth + 1) for h in hosts)
            if len(host_roots) == 1:
                return next(iter(host_roots))
        return keypath(root)

    def by_exact(self, path, view='built'):
        for f in self.fns(view):
            if f.path == path:
                return f
        return None

    def ast_adt(self, name, mod=None):
        for a in self.ast:
            if a['kind'] in ('struct', 'enum') and a['name'] == name and (mod is None or a['mod'] == mod):
                return a
        return None


class Facts:
    def __init__(self, directory):
        self.dir = directory
        self.crates = {}
        self._loaded = {}

    def available(self):
        names = set()
        for f in glob.glob(os.path.join(self.dir, '*.json')):
            names.add(os.path.basename(f).split('.')[0])
        return sorted(names)

    def crate(self, name):
        if name in self.crates:
            return self.crates[name]
        files = sorted(glob.glob(os.path.join(self.dir, name + '.*.json')))
        if not files:
            return None
        # a crate compiled twice (proc-macro host + check) yields identical files; take one
        with open(files[0]) as fh:
            text = fh.read()
        if not os.environ.get('VERIF_NO_INLINE'):
            # items moved to another module since the rules were confirmed keep their old path (rules/renames.py)
            from rules import renames
            if not hasattr(self, '_renames'):
                self._renames = renames.for_directory(self.dir)
            if self._renames:
                text = renames.apply(text, self._renames)
        c = Crate(json.loads(text))
        self.crates[name] = c
        return c
