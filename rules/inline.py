"""Virtual inlining of helper functions that did not exist when the rules were confirmed.

The rules are anchored in named functions of the pinned tree (Core::process, Command::run_until_settled, Redirect::handle, ...).
A behaviour-preserving refactoring that splits such a function into new private helpers moves the code the rules look at
out of the anchor.  Every plain function (free fn or inherent method) of an analysed crate whose path is NOT in the committed
inventory of today's functions (rules/inventory.json) is therefore spliced into the MIR of each of its callers before any rule
runs: its blocks and locals are appended (renumbered), the call becomes assignments of the arguments to its parameters and a
jump to its entry, each of its returns becomes an assignment of its return place to the call's destination and a jump to the
call's target.  Intra-procedural rules then see the same control and data flow as before the extraction.  Inlining bound:
depth 4, no recursion; a helper that is still referenced as a value (fn pointer) stays as a function as well.

This changes no verdict on the unchanged tree (nothing is unknown there) and cannot hide a violation: the inlined code is
analysed in the context of its caller, where the rule applies.
"""
import copy
import json
import os
import re

HERE = os.path.dirname(os.path.abspath(__file__))
INVENTORY = os.path.join(HERE, 'inventory.json')
MAX_DEPTH = 4
_inv = None


def norm(p):
    from rules.facts import norm as n
    return n(p)


def inventory():
    global _inv
    if _inv is None:
        try:
            _inv = {k: set(v) for k, v in json.load(open(INVENTORY)).items()}
        except Exception:
            _inv = {}
    return _inv


_IDX = re.compile(r'^\[_(\d+)\]$')


def _shift(x, loff, boff):
    """deep copy of a piece of fact JSON with locals shifted by loff and block ids by boff"""
    if isinstance(x, list):
        return [_shift(y, loff, boff) for y in x]
    if not isinstance(x, dict):
        return x
    out = {}
    for k, v in x.items():
        if k == 'l' and isinstance(v, int):
            out[k] = v + loff
        elif k == 'p' and isinstance(v, list):
            out[k] = [('[_%d]' % (int(_IDX.match(t).group(1)) + loff)) if isinstance(t, str) and _IDX.match(t) else t for t in v]
        elif k in ('tg', 'uw', 'otherwise', 'dropbb', 'imag') and isinstance(v, int):
            out[k] = v + boff
        elif k == 'arms' and isinstance(v, list):
            out[k] = [[a[0], a[1] + boff] for a in v]
        elif k == 'i' and isinstance(v, int) and 't' in x and 'st' in x:
            out[k] = v + boff
        else:
            out[k] = _shift(v, loff, boff)
    return out


def _callee_np(t):
    for key in ('resolved', 'callee'):
        p = t.get(key)
        if p:
            np = norm(p)
            # `x.into()` goes through core's blanket impl to the crate's own `impl From<T> for U`
            if np.endswith('core::convert::Into>::into') or np == 'core::convert::Into::into':
                ta = t.get('targs') or []
                if len(ta) == 2:
                    return norm('<%s as core::convert::From<%s>>::from' % (ta[1], ta[0]))
            return np
    return None


def _splice(f, bb, g):
    """inline g at the call terminating block bb of f (both fact JSON dicts); f is modified in place"""
    blk = f['blocks'][bb]
    t = blk['t']
    loff = len(f['locals'])
    boff = len(f['blocks'])
    f['locals'] = f['locals'] + list(g['locals'])
    ln = t.get('ln')
    # arguments -> parameters
    for i, a in enumerate(t.get('args') or []):
        if i + 1 > g['argc']:
            break
        blk['st'].append({'k': 'assign', 'd': {'l': loff + i + 1, 'p': [], 't': g['locals'][i + 1]}, 'rv': {'k': 'use', 'a': copy.deepcopy(a)},
                          'ln': ln, 'inl': g['path']})
    dest = t['d']
    target = t.get('tg')
    blk['t'] = {'k': 'goto', 'tg': boff, 'ln': ln, 'inl_call': {'callee': t.get('callee'), 'resolved': t.get('resolved')}}
    for gb in g['blocks']:
        nb = _shift(gb, loff, boff)
        nb['inl'] = g['path']
        if nb['t']['k'] == 'return':
            nb['st'].append({'k': 'assign', 'd': copy.deepcopy(dest), 'rv': {'k': 'use', 'a': {'l': loff, 'p': [], 't': g['locals'][0], 'o': 'move'}},
                             'ln': nb['t'].get('ln'), 'inl': g['path']})
            if target is None:
                nb['t'] = {'k': 'unreachable', 'ln': nb['t'].get('ln')}
            else:
                nb['t'] = {'k': 'goto', 'tg': target, 'ln': nb['t'].get('ln')}
        f['blocks'].append(nb)
    for d in g.get('debug') or []:
        f.setdefault('debug', []).append({'name': d['name'], 'place': _shift(d['place'], loff, boff), 'inl': g['path']})
    if g.get('user_locals'):
        f['user_locals'] = list(f.get('user_locals') or []) + [x + loff for x in g['user_locals']]
    f.setdefault('inlined', [])
    if g['path'] not in f['inlined']:
        f['inlined'].append(g['path'])
    for p in g.get('inlined') or []:
        if p not in f['inlined']:
            f['inlined'].append(p)


def _rewrite_upvars(x, self_local, upvar_locals):
    """places `_self.^name<proj>` of a spliced coroutine body become `_U_name<proj>`"""
    if isinstance(x, list):
        return [_rewrite_upvars(y, self_local, upvar_locals) for y in x]
    if not isinstance(x, dict):
        return x
    out = {k: _rewrite_upvars(v, self_local, upvar_locals) for k, v in x.items()}
    if out.get('l') == self_local and isinstance(out.get('p'), list) and out['p'] and isinstance(out['p'][0], str) and out['p'][0].startswith('.^'):
        name = out['p'][0][2:]
        if name in upvar_locals:
            out['l'] = upvar_locals[name]
            out['p'] = out['p'][1:]
    return out


def _splice_await(f, call_bb, poll_bb, g, c):
    """`g(args).await` inside f, where g is an async helper and c its coroutine body: the body is spliced in at the poll.  An await is
    treated as sequential composition: c's own yields fall through to their resume points, its return makes the poll Ready."""
    call_t = f['blocks'][call_bb]['t']
    poll_blk = f['blocks'][poll_bb]
    poll_t = poll_blk['t']
    loff = len(f['locals'])
    boff = len(f['blocks'])
    f['locals'] = f['locals'] + list(c['locals'])
    ln = poll_t.get('ln')
    # captured parameters: one fresh local each, assigned where the future is created
    names = [d['name'] for d in sorted((d for d in (g.get('debug') or []) if 'l' in d['place'] and not d['place']['p'] and 1 <= d['place']['l'] <= g['argc']),
                                       key=lambda d: d['place']['l'])]
    upvar_locals = {}
    for i, a in enumerate(call_t.get('args') or []):
        if i >= len(names):
            break
        ul = len(f['locals'])
        f['locals'] = f['locals'] + [g['locals'][i + 1]]
        upvar_locals[names[i]] = ul
        f['blocks'][call_bb]['st'].append({'k': 'assign', 'd': {'l': ul, 'p': [], 't': g['locals'][i + 1]}, 'rv': {'k': 'use', 'a': copy.deepcopy(a)},
                                           'ln': call_t.get('ln'), 'inl': c['path']})
    dest = poll_t['d']
    target = poll_t.get('tg')
    poll_blk['t'] = {'k': 'goto', 'tg': boff, 'ln': ln, 'inl_call': {'callee': poll_t.get('callee'), 'resolved': poll_t.get('resolved')}}
    for cb in c['blocks']:
        nb = _shift(cb, loff, boff)
        nb = _rewrite_upvars(nb, 1 + loff, upvar_locals)
        nb['inl'] = c['path']
        tk = nb['t']['k']
        if tk == 'return':
            nb['st'].append({'k': 'assign', 'd': copy.deepcopy(dest),
                             'rv': {'k': 'agg', 'ak': 'adt', 'adt': 'core::task::poll::Poll', 'variant': 'Ready', 'vidx': 0, 'targs': [], 'fields': ['0'],
                                    'ops': [{'l': loff, 'p': [], 't': c['locals'][0], 'o': 'move'}]},
                             'ln': nb['t'].get('ln'), 'inl': c['path']})
            nb['t'] = {'k': 'goto', 'tg': target, 'ln': nb['t'].get('ln')} if target is not None else {'k': 'unreachable', 'ln': nb['t'].get('ln')}
        elif tk == 'yield':
            nb['t'] = {'k': 'goto', 'tg': nb['t']['tg'], 'ln': nb['t'].get('ln'), 'was_yield': True}
        f['blocks'].append(nb)
    for d in c.get('debug') or []:
        f.setdefault('debug', []).append({'name': d['name'], 'place': _rewrite_upvars(_shift(d['place'], loff, boff), 1 + loff, upvar_locals), 'inl': c['path']})
    f.setdefault('inlined', [])
    for p_ in [g['path'], c['path']] + list(c.get('inlined') or []):
        if p_ not in f['inlined']:
            f['inlined'].append(p_)


def _references_as_value(fns, path):
    """is the function mentioned as a value (fn pointer / fn item passed along) anywhere?"""
    needle = json.dumps(path)

    def walk(x):
        if isinstance(x, dict):
            if x.get('o') == 'const' and x.get('fn') == path:
                return True
            return any(walk(v) for v in x.values())
        if isinstance(x, list):
            return any(walk(v) for v in x)
        return False
    for f in fns:
        for blk in f['blocks']:
            for s in blk['st']:
                if walk(s):
                    return True
            t = blk['t']
            if walk(t.get('args')) or walk(t.get('f')) or walk(t.get('a')):
                return True
    return False


def inline_view(fns, known):
    """fns: list of function fact dicts of one crate and one MIR stage.  Returns (new list, report)."""
    plain = {}
    for f in fns:
        # (a method of a trait impl counts when a call resolves to it statically: `impl From<EffectId> for Slot`)
        # ... but not a derived one: a derived eq / clone / default is a primitive the rules know by its trait method)
        if f['kind'] in ('Fn', 'AssocFn') and not f.get('coroutine') and not (f.get('assoc') or {}).get('derived') and \
                ((f.get('assoc') or {}).get('impl') or not (f.get('assoc') or {}).get('trait')):
            plain.setdefault(norm(f['path']), []).append(f)
    unknown = {np: gs[0] for np, gs in plain.items() if np not in known and len(gs) == 1}
    if not unknown:
        return fns, {}
    done = {}

    def expand(f, stack, depth):
        """inline unknown helpers into f (recursively expanded first)"""
        changed = True
        rounds = 0
        while changed and rounds < 50:
            changed = False
            rounds += 1
            for blk in list(f['blocks']):
                t = blk['t']
                if t['k'] != 'call':
                    continue
                np = _callee_np(t)
                g = unknown.get(np)
                if g is None or g is f or g['path'] in stack or depth >= MAX_DEPTH:
                    continue
                if len(t.get('args') or []) != g['argc']:
                    continue
                if g['path'] not in done:
                    gg = copy.deepcopy(g)
                    expand(gg, stack + (f['path'],), depth + 1)
                    done[g['path']] = gg
                _splice(f, blk['i'], done[g['path']])
                changed = True
                break
    # async helpers: an unknown plain fn whose body only builds its coroutine; the coroutine body is spliced in where it is awaited
    by_path = {f['path']: f for f in fns}
    async_helpers = {}
    for np, g in unknown.items():
        c = by_path.get(g['path'] + '::{closure#0}')
        # (the body of an `async fn` — `Desugared(Async, Fn)` — not an `async move { .. }` block a plain helper hands to spawn)
        if c is not None and c.get('coroutine') and 'Async' in str(c.get('coroutine')) and 'Block' not in str(c.get('coroutine')):
            async_helpers[c['path']] = (g, c)
    done_c = {}

    def expand_awaits(f, stack, depth):
        changed = True
        rounds = 0
        while changed and rounds < 50:
            changed = False
            rounds += 1
            polls = [blk for blk in f['blocks'] if blk['t']['k'] == 'call' and blk['t'].get('resolved') in async_helpers and
                     norm(blk['t'].get('callee') or '') == 'core::future::future::Future::poll']
            for blk in polls:
                g, c = async_helpers[blk['t']['resolved']]
                if c['path'] in stack or c is f or depth >= MAX_DEPTH:
                    continue
                gnp = norm(g['path'])
                calls = [b2 for b2 in f['blocks'] if b2['t']['k'] == 'call' and _callee_np(b2['t']) == gnp and not b2.get('await_spliced')]
                if not calls:
                    continue
                cb = calls[0]
                if c['path'] not in done_c:
                    cc = copy.deepcopy(c)
                    expand(cc, stack + (f['path'],), depth + 1)
                    expand_awaits(cc, stack + (f['path'],), depth + 1)
                    done_c[c['path']] = cc
                cb['await_spliced'] = True
                _splice_await(f, cb['i'], blk['i'], g, done_c[c['path']])
                changed = True
                break
    report = {}
    for f in fns:
        if norm(f['path']) in unknown and f['kind'] in ('Fn', 'AssocFn'):
            continue
        if f['path'] in async_helpers:
            continue
        before = len(f['blocks'])
        expand_awaits(f, (f['path'],), 0)
        expand(f, (f['path'],), 0)
        if len(f['blocks']) != before:
            report[f['path']] = list(f.get('inlined') or [])
    inlined_somewhere = set(p for ps in report.values() for p in ps)
    # a coroutine body is fully represented inside its awaiters when nothing polls it any more
    still_polled = set(blk['t'].get('resolved') for f in fns if f['path'] not in async_helpers for blk in f['blocks'] if blk['t']['k'] == 'call')
    out = []
    for f in fns:
        if f['kind'] in ('Fn', 'AssocFn') and f['path'] in inlined_somewhere and norm(f['path']) in unknown and not _references_as_value(fns, f['path']):
            continue  # fully represented inside its callers
        if f['path'] in async_helpers and f['path'] in inlined_somewhere and f['path'] not in still_polled:
            continue
        out.append(f)
    return out, report


def apply(j):
    """inline unknown helpers in both MIR stages of a crate's fact document (in place); returns the report"""
    known = inventory().get(j.get('crate'))
    if known is None:
        return {}
    rep = {}
    for stage in ('built', 'elab'):
        if isinstance(j.get(stage), list):
            j[stage], r = inline_view(j[stage], known)
            if r:
                rep[stage] = r
    j['inlined_helpers'] = rep
    return rep
