"""Items that were MOVED to another module since the rules were confirmed keep their old path.

The rules name functions and types by path.  Moving a private type, a group of private functions or an impl block into a new
submodule (re-exported, so nothing changes for any user) changes every one of those paths.  An item is taken to be moved when its
path is not in the inventory (rules/inventory.json, written on the pinned tree), exactly one inventory item of the same crate with the
same name (same `<impl ..>::name` tail for methods) is missing from the current tree, and no other new item competes for it.  The
item's new module prefix is then rewritten to the old one in the text of every fact file of the configuration before it is parsed, so
callers in other crates, closure paths, type names in signatures and site keys all follow.  The body is analysed as it is now: a
function that was moved AND changed is still judged on what it does."""
import glob
import hashlib
import json
import os
import re

from rules import inline


def _norm(p):
    from rules.facts import norm
    return norm(p)


def _segments(path):
    """split on top-level `::`"""
    out, depth, cur, i = [], 0, '', 0
    while i < len(path):
        c = path[i]
        if c == '<':
            depth += 1
        elif c == '>' and not (i > 0 and path[i - 1] == '-'):
            depth -= 1
        if depth == 0 and path.startswith('::', i):
            out.append(cur)
            cur = ''
            i += 2
            continue
        cur += c
        i += 1
    out.append(cur)
    return out


def _tail(path):
    """what identifies an item apart from the module it lives in: the name of a free function / type, `<impl X>::name` for a method
    of an impl block written in another module than its type; None for paths with no module prefix (`<X as T>::m`)"""
    segs = _segments(path)
    for i, s in enumerate(segs):
        if s.startswith('<'):
            return '::'.join(segs[i:]) if i > 0 else None
    return segs[-1] if len(segs) > 1 else None


def _match(new, missing, tail):
    out = {}
    for n in new:
        tn = tail(n)
        if tn is None:
            continue
        cands = [m for m in missing if tail(m) == tn]
        rivals = [x for x in new if tail(x) == tn]
        if len(cands) == 1 and len(rivals) == 1:
            out[n] = cands[0]
    return out


def compute(directory):
    inv = inline.inventory()
    subs = []
    seen = set()
    for f in sorted(glob.glob(os.path.join(directory, '*.json'))):
        name = os.path.basename(f).split('.')[0]
        if name in seen:
            continue
        seen.add(name)
        known_f, known_a = inv.get(name), inv.get('adts:' + name)
        if not known_f or not known_a:
            continue
        with open(f) as fh:
            j = json.load(fh)
        # only what existed in this very configuration when the inventory was taken can be missing from it now
        present = inv.get('present:%s:%s' % (j.get('config'), name))
        if present is None:
            continue
        known_f_here = set(p for p in known_f if p in present)
        known_a_here = set(p for p in known_a if p in present)
        cur_a = set(_norm(a['path']) for a in j['items']['adts'])
        amap = _match([p for p in cur_a if p not in known_a], [p for p in known_a_here if p not in cur_a], lambda p: _segments(p)[-1] if '::' in p else None)
        # local traits (named by the impls and the associated functions of the crate)
        known_t = inv.get('traits:' + name) or set()
        cur_t = set(_norm(i['trait']) for i in j['items']['impls'] if i.get('trait'))
        cur_t |= set(_norm((fn.get('assoc') or {}).get('trait')) for fn in j['built'] if (fn.get('assoc') or {}).get('trait'))
        cur_t = set(t for t in cur_t if t.startswith(name + '::'))
        if known_t:
            amap.update(_match([p for p in cur_t if p not in known_t], [p for p in known_t if p not in cur_t and p in present],
                               lambda p: _segments(p)[-1] if '::' in p else None))
        # statics
        known_s = inv.get('statics:' + name) or set()
        cur_s = set(_norm(x['path']) for x in j['items'].get('statics') or [])
        if known_s:
            amap.update(_match([p for p in cur_s if p not in known_s], [p for p in known_s if p not in cur_s and p in present],
                               lambda p: _segments(p)[-1] if '::' in p else None))
        subs += sorted(amap.items())

        def canon(p):
            for n, m in amap.items():
                p = re.sub(re.escape(n) + r'(?![A-Za-z0-9_])', m, p)
            return p
        cur_f = {}
        for view in ('built', 'elab'):
            for fn in j[view]:
                if fn['kind'] in ('Fn', 'AssocFn'):
                    cur_f[canon(_norm(fn['path']))] = canon(fn['path'])
        all_adts = cur_a | set(known_a)

        def ftail(p):
            # an inherent method written as `Type::name` moves with its type (handled above), never on its own
            segs = _segments(p)
            if not any(x.startswith('<') for x in segs) and '::'.join(segs[:-1]) in all_adts:
                return None
            return _tail(p)
        fmap = _match([p for p in cur_f if p not in known_f], [p for p in known_f_here if p not in cur_f], ftail)
        # an inherent method is the same item whether its impl block is written next to the type (`T::m`) or in another module
        # (`other::<impl T>::m`): moving the impl block changes the form of the path
        def mkey(p):
            segs = _segments(p)
            if len(segs) >= 2 and segs[-2].startswith('<impl ') and ' for ' not in segs[-2]:
                return _norm(segs[-2][len('<impl '):-1]) + '::' + segs[-1]
            if not any(x.startswith('<') for x in segs) and '::'.join(segs[:-1]) in all_adts:
                return p
            return None
        new_m = [p for p in cur_f if p not in known_f and p not in fmap and mkey(p)]
        miss_m = [p for p in known_f_here if p not in cur_f and p not in fmap.values() and mkey(p)]
        for n, m in sorted(_match(new_m, miss_m, mkey).items()):
            raw = cur_f[n]
            segs = _segments(raw)
            if len(segs) > 1 and segs[-1].startswith('<') and not segs[-2].startswith('<'):
                raw = '::'.join(segs[:-1])
            subs.append((raw, m))
        for n, m in sorted(fmap.items()):
            t = ftail(n)
            pn, po = n[:len(n) - len(t)], m[:len(m) - len(t)]
            raw = cur_f[n]
            segs = _segments(raw)
            if len(segs) > 1 and segs[-1].startswith('<') and not segs[-2].startswith('<'):
                raw = '::'.join(segs[:-1])   # drop the turbofish: call sites carry other generic arguments
            if pn != po and raw.startswith(pn):
                subs.append((raw, po + raw[len(pn):]))
    # longest first, so that an item inside a moved module is rewritten before a shorter prefix could match
    return sorted(set(subs), key=lambda s: -len(s[0]))


def for_directory(directory):
    """[(new text, old text)] for the fact files of one configuration; cached next to them"""
    try:
        with open(inline.INVENTORY, 'rb') as fh:
            tag = hashlib.sha1(fh.read()).hexdigest()[:10]
    except OSError:
        return []
    cache = os.path.join(directory, '.renames.%s.json' % tag)
    if os.path.exists(cache):
        try:
            with open(cache) as fh:
                return [tuple(x) for x in json.load(fh)]
        except (OSError, ValueError):
            pass
    subs = compute(directory)
    tmp = cache + '.%d.tmp' % os.getpid()
    try:
        with open(tmp, 'w') as fh:
            json.dump(subs, fh)
        os.replace(tmp, cache)
    except OSError:
        pass
    return subs


def apply(text, subs):
    for new, old in subs:
        if new in text:
            text = re.sub(re.escape(new) + r'(?![A-Za-z0-9_])', lambda _m, _o=old: _o, text)
    return text
