"""Source of truth for MANIFEST.json (written by bin/gen_manifest)."""

NOTE_COMMON = ('Decides the named structural clauses (necessary conditions) on every path of the functions '
               'inspected; does not decide the runtime-quantified behaviour. Trusted base: rustc MIR construction '
               'and callee resolution (nightly 1.97), the contracts of std and the third-party crates named in the '
               'evidence file, and the frozen exception tables in /verif/rules.')

CHECKS = {
    'C19': {
        'technique': 'static analysis: MIR value-range shape rules (lossy casts, unchecked arithmetic, validating-constructor bypass, error-edge discipline) + compile-fail witness',
        'text': 'Static rule instances over the MIR of crux_time::protocol in the default and chrono configurations: no lossy numeric cast, no unchecked arithmetic, every Instant construction guarded, every fallible intermediate of a TryFrom reaches Err. These are necessary conditions for exact-or-rejected conversion on all inputs; arithmetic exactness of std/chrono is trusted.',
        'design_ref': 'DESIGN.md §4 C19',
    },
}

PENDING_REASON = 'check not yet armed in this framework (static rules designed in DESIGN.md §4; implementation in progress)'
