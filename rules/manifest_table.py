"""Source of truth for MANIFEST.json (written by bin/gen_manifest)."""

NOTE_COMMON = ('Decides the named structural clauses (necessary conditions) on every path of the functions '
               'inspected; does not decide the runtime-quantified behaviour. Trusted base: rustc MIR construction '
               'and callee resolution (nightly 1.97), the contracts of std and the third-party crates named in the '
               'evidence file, and the frozen exception tables in /verif/rules.')

CHECKS = {
    'C19': {
        'technique': 'static analysis: MIR value-range shape rules (lossy casts, unchecked arithmetic, validating-constructor bypass, error-edge discipline) + compile-fail witness',
        'text': 'Static rule instances over the MIR of crux_time::protocol in the default and chrono configurations: no lossy numeric cast, no unchecked arithmetic, every Instant construction guarded, every fallible intermediate of a TryFrom reaches Err. These are necessary conditions for exact-or-rejected conversion on all inputs; arithmetic exactness of std/chrono is trusted.',
        'design_ref': 'DESIGN.md §4 C19',
    },
}

CHECKS['C10'] = {
    'technique': 'static analysis: wire-type closure from Operation impls, serde-attribute neutrality table over the expanded AST, serializer/deserializer variant-numbering rule, single-codec dataflow rule, register_types completeness, tracer entry-point table',
    'text': 'Static rule instances over the expanded AST, HIR tables and MIR of the runtime crates (default + all-features) and of two probe apps that instantiate crux\'s proc-macros from the current tree: every serde attribute on a wire type is wire-neutral, Serialize and Deserialize number variants alike, one fixint bincode configuration is used in both directions, type registration is complete, and each TypeGen register method uses exactly its tabled Tracer entry points (a type without samples of its own is traced exhaustively). Necessary conditions for schema/bytes agreement on all values; per-value agreement and the generated foreign code are not decided.',
    'design_ref': 'DESIGN.md §4 C10',
}
CHECKS['C11'] = {
    'technique': 'static analysis: source-to-sink dataflow from hash-ordered iteration to order-sensitive consumers, ambient-nondeterminism who-may-call scan, field coverage of hand-written equality, interior-mutable statics table',
    'text': 'Static rule instances over the MIR of all runtime crates: every iteration over a HashMap/HashSet/http_types Headers is followed to its consumer and must be order-insensitive or merely forwarded; no library function consults clocks, rand, thread identity, env or addresses; hand-written equality reads every field; process-wide mutable state is exactly the tabled statics. Necessary conditions for replay determinism over all histories; byte-identical replay itself and third-party determinism are not decided.',
    'design_ref': 'DESIGN.md §4 C11',
}

CHECKS['C15'] = {
    'technique': 'static analysis: who-may-call rule from the shell-input call-graph closure into a table of panicking http_types entry points, edge-dominance rule for status classification, provenance of pass-through errors, error-edge discipline of decoders, header-write ordering rule',
    'text': 'Static rule instances over the MIR of crux_http (default + all-features): the call-graph closure of the shell-input path contains no tabled panicking constructor or unwrap, Response::new classifies exactly on the client/server error edges and copies status/headers/body, shell errors pass through unmodified in both APIs, decoders return every failure as an error, and only the shell\'s headers are written, each appended (never inserted over an earlier value), and a repeated header is read by its last value or whole, never through Deref to the first. Two genuine panics on unusual statuses/headers are recorded as known findings. Decoder conformance is trusted.',
    'design_ref': 'DESIGN.md §4 C15',
}
CHECKS['C16'] = {
    'technique': 'static analysis: dominance/ordering rules on Client::send and Next::run, who-may-call rule for HTTP effect emission, loop-bound and provenance rules on Redirect::handle, one-emission rule on the chain endpoints',
    'text': 'Static rule instances over the MIR of crux_http: middleware stacking order, one-middleware-per-Next::run, every HTTP effect emitted under the Next endpoint (the command API bypass is a recorded known finding), the redirect loop bounded by self.attempts with cloned probes and the original request sent last, an empty stack for the inner Client, exactly one effect per endpoint of the chain outside any loop, and the join base updated with every URL rewrite. Necessary conditions over all stacks and redirect graphs; URL resolution inside the url crate is trusted.',
    'design_ref': 'DESIGN.md §4 C16',
}

CHECKS['C14'] = {
    'technique': 'static analysis: field-provenance table for the HttpRequest conversion with a three-valued guard evaluation, single-conversion who-may-construct rule, one-emission-per-endpoint path rule, sibling diff of the two request builders',
    'text': 'Static rule instances over the MIR of crux_http: each field of the emitted HttpRequest has its tabled source (all names, all values, body read unless known empty), one conversion serves both APIs, each endpoint emits one effect outside any loop, and the builder methods of both APIs resolve to the same callees. Necessary conditions over all requests; URL/query/body encoding inside url and http_types is trusted. Every mutating method of crux_http::Request forwards to its same-named http_types method on every non-error path.',
    'design_ref': 'DESIGN.md §4 C14',
}

CHECKS['C01'] = {
    'technique': 'static analysis: dominance / must-pass-through rules on Core::process and the two executor loops, provenance of forwarded outputs, linear-resource rule over drop-elaborated MIR with a frozen exception table',
    'text': 'Static rule instances over built and drop-elaborated MIR of crux_core: the process loop shape (run before look, re-run after every update/spawn, return only on an empty event channel, return the plain drain of the effect channel), every entry point settling through Core::process, no effect/event/request/command/response value dropped on a normal path outside a frozen exception table, every match on CommandOutput forwarding both kinds to the right channel, and both executor loops exiting only after an idle pass. Necessary conditions on all paths; reaching the fixpoint for every program and schedule is not decided.',
    'design_ref': 'DESIGN.md §4 C01',
}

CHECKS['C02'] = {
    'technique': 'static analysis: per-variant summaries of the typed and serialised resolvers compared as sibling tables, provenance rules on private response channels and resolve closures, compile-fail witnesses (thorough)',
    'text': 'Static rule instances over the MIR of crux_core: the Never/Once/Many tables of Resolve::resolve and ResolveSerialized::resolve (Once writes Never before calling the taken closure, Many never consumes, Never calls nothing) agree with each other and with the specification; arity and payload are preserved across Resolve::deserializing; each request owns a private channel or shared state whose sending half lives only in its resolve closure; resolved values are delivered unchanged; stream closures report a closed consumer. The thorough tier adds rustc compile-fail witnesses (wrong output type, private resolve field, no Clone). Cross-delivery freedom under every interleaving follows from ownership and is not decided separately.',
    'design_ref': 'DESIGN.md §4 C02',
}
WITNESS_PROPS = ['C01', 'C02', 'C18', 'C19']

CHECKS['C03'] = {
    'technique': 'static analysis: lock-region rules around App::update/view, type walk over every carrier of the Event parameter, direct-move provenance, unsafe-code scan, shared linear-resource rule',
    'text': 'Static rule instances over HIR tables and MIR of the runtime crates: App::update only ever receives the model through a write guard of the core\'s model lock, with nothing else called and no re-entry into the core while the lock is held; every struct field carrying the Event parameter is a FIFO channel endpoint (or tabled) and events move from receive to update directly; no hand-written unsafe code exists beyond one tabled block; no event is dropped on a normal path. Necessary conditions on all paths; order between events of different tasks is not decided.',
    'design_ref': 'DESIGN.md §4 C03',
}
CHECKS['C04'] = {
    'technique': 'static analysis: exact-mapping rule on the CommandOutput matches of map_effect/map_event, await-dominance rule for then, every-sub-command-is-hosted rule with the shared linear-resource rule',
    'text': 'Decides only the three clauses of C04 that are visible in the shape of the code: map_effect/map_event call the user function exactly once on their own kind and pass the other kind through untouched; then starts hosting its second command only on the Ready edge of awaiting the first; and/all/then/from_iter host every sub-command on the parent\'s own channels and drop none. Equivalence with the reference semantics, the algebraic laws and then_request/then_stream chaining under all resolution orders quantify over expressions x schedules and are explicitly NOT decided by this check.',
    'design_ref': 'DESIGN.md §4 C04',
}
CHECKS['C05'] = {
    'technique': 'static analysis: register-before-look and publish-before-wake dominance rules, a path-sensitive Pending-needs-a-waker rule over every hand-written poll function, lock-region rules on the legacy shell futures',
    'text': 'Static rule instances over the MIR of crux_core and crux_time: Command::poll_next registers the host waker before running tasks or reading channels; every Wake impl enqueues the task (and stores woken) before waking the parent and does both on every path; in all 7 hand-written poll functions every path that returns Pending has kept the waker or follows a delegated Pending (one tabled, deliberate exception); the legacy futures check-and-register and deliver-and-wake under one lock. These are the necessary conditions for no wake-up being lost between layers; output equivalence across hosts is not decided.',
    'design_ref': 'DESIGN.md §4 C05',
}

CHECKS['C06'] = {
    'technique': 'static analysis: edge-dominance rules on the command executor (aborted tasks never polled, abort observed on every cycle that runs a task), who-may-panic rule on resolve closures, abort-handle store/load table',
    'text': 'Static rule instances over the MIR of crux_core: a task\'s future is polled only on the not-aborted edge; an aborted command clears its tasks and returns first; every CFG cycle that runs a task re-tests the command\'s aborted flag; resolve closures contain no unwrap/expect/panic/indexing other than lock poisoning; both abort handles store true (>= Release) into the flag the executor loads (>= Acquire). Necessary conditions on all paths; containment and finality at every injection point are not decided.',
    'design_ref': 'DESIGN.md §4 C06',
}
CHECKS['C07'] = {
    'technique': 'static analysis: dependence rule on is_done, who-may-remove rule on the command task slab with ordering of finish/notify, input-presence rule on the eviction test',
    'text': 'Static rule instances over the MIR of crux_core: is_done settles and then depends on effects, events and the task slab; tasks leave the slab only on Completed|Cancelled (or abort), with finished published before join handles are woken; Completed arises only from Ready or abort; the eviction test depends on the Pending result, the woken flag and the count of the per-poll waker read after the executor\'s own copy was dropped. NOT decided: exactness of the waker-count heuristic for arbitrary user futures (runtime behaviour of user code).',
    'design_ref': 'DESIGN.md §4 C07',
}
CHECKS['C08'] = {
    'technique': 'static analysis: lock-region rule, lock-order graph over the call graph with signature-matched candidates for dynamic dispatch, atomic-ordering table, reader/writer ordering rule on the eviction test',
    'text': 'Static rule instances over the MIR of all runtime crates: no poll or waker call under the executor task lock and the slot is taken in the region that looked it up; the acquired-while-holding graph over the five lock classes (computed through the call graph, dyn calls resolved to signature-matching closures and trait impls) has no cycle or self edge (today: registry -> legacy SharedState only); flag loads/stores are Acquire/Release or stronger and the timer counter is RMW-only; the eviction test reads count, fence(Acquire), woken in the reverse of the publishing order. Necessary conditions; linearizability of concurrent calls is not decided.',
    'design_ref': 'DESIGN.md §4 C08',
}

CHECKS['C09'] = {
    'technique': 'static analysis: provenance rules on ResolveRegistry (id is the slab key; lookup/removal use the id parameter), edge-dominance rule on removal, exactly-once pipeline rule in the bridge, variant-pairing rule on macro-generated Effect::serialize of two probe apps',
    'text': 'Static rule instances over the MIR of crux_core and of two probe apps that expand crux\'s proc-macros from the current tree: the effect id is the slab key of that effect\'s resolver through a checked conversion, resume looks up, resolves and removes only under the id parameter, removal happens only for unresolvable entries, the bridge registers each core effect exactly once with no adaptor and drops none, and generated Effect::serialize / From<Request<Op>> pair every variant with its same-named Ffi constructor. Necessary conditions over all histories; byte-level equality with the typed core is not decided.',
    'design_ref': 'DESIGN.md §4 C09',
}
CHECKS['C12'] = {
    'technique': 'static analysis: error-discipline rule over every fallible call of the boundary modules, edge-dominance rule (rejected before the core is touched), frozen table of explicit panics, bounded-slice reader rule, wire-type neutrality table shared with C10',
    'text': 'Static rule instances over the MIR of crux_core::bridge: every BridgeError/erased_serde/ResolveError/bincode result is propagated to the error return (never unwrapped, asserted or discarded); the core is entered only with the Ok payload of the deserialisation and only after resume returned Ok; every explicit panic in the boundary modules is a row of a frozen table (poisoning, id overflow, a proven unreachable, and the documented out-of-domain id panic); deserialisers read from a bounded slice. Necessary conditions for every byte string; user Deserialize impls and serde_json are outside the rules. Every type decoded from shell input derives its serde impls and carries only wire-neutral attributes, so no conversion code of crux\'s own runs (and can panic) while decoding.',
    'design_ref': 'DESIGN.md §4 C12',
}
CHECKS['C13'] = {
    'technique': 'static analysis: insert/release pairing table over the long-lived containers (path rules, a typestate rule for the bridge registry, an unconditional-insert rule), field-order rule on Core, container inventory, queue-implementation table over the channel-typed fields',
    'text': 'Static rule instances over MIR and HIR tables of the runtime crates: the executor frees a finished task\'s slot on every path and re-stores a pending future; the command slab releases Completed/Cancelled tasks (shared with C07); the bridge registry is analysed as a typestate and two of its three states (Never, Many) have no guaranteed release — recorded known findings, as is the unconditional insert into the cleared-timer set; Core drops user types before the executor; no long-lived container exists outside the pairing table; Command::then consumes each operand in the call that hosts it; every queue endpoint held by a runtime type is a tabled channel implementation whose backlog is dropped with the receiving side. Timely release for every program is not decided.',
    'design_ref': 'DESIGN.md §4 C13',
}

CHECKS['C17'] = {
    'technique': 'static analysis: sibling table over the five operations x {capability API, command API} x un-wrapper, pass-through provenance of every field and of the awaited answer through the public capability methods, shape rule for the Value <-> Option conversions',
    'text': 'Static rule instances over the MIR of crux_kv: each of the 10 API functions builds exactly its own operation from its like-named parameters (through at most into()), issues one request outside any loop and hands the result to its own un-wrapper; each un-wrapper builds its Ok value only from the fields of its own response kind and returns the shell\'s error; each of the 10 public capability methods asks the shell exactly once on every path with its like-named arguments and hands back exactly the awaited answer, and each API function returns the result of its un-wrapper as it is; the Value conversions are pure re-taggings with the bytes moved. These shape rules cover every input because no field is computed; encoding across the bridge is C10.',
    'design_ref': 'DESIGN.md §4 C17',
}
CHECKS['C18'] = {
    'technique': 'static analysis: single-counter and one-id-per-timer provenance rule, dominance rule for the early-clear check over every poll, provenance rule for the Clear request, sibling diff of notify_at / notify_after, same-static rule for the legacy cleared set, compile-fail witnesses (thorough)',
    'text': 'Static rule instances over the MIR of crux_time: the id counter is a static touched only by one fetch_add; each of the four timer-starting functions takes exactly one id, which is the id of the request, the handle / TimerFuture and the response comparisons; no future is polled (so nothing is sent) before the early-clear check; the Clear request carries the id received on the clear channel and is awaited before Cleared is reported; the two task bodies agree up to the variant; legacy clear() and TimerFuture::poll use one process-wide cleared set; TimerHandle::clear cannot panic (a late clear is a no-op). The thorough tier adds rustc witnesses that clear() consumes the handle and the handle is not Clone. Interleavings of fire / clear / drop / late answers are not decided.',
    'design_ref': 'DESIGN.md §4 C18',
}

CHECKS['C20'] = {
    'technique': 'static analysis: ids-are-only-compared dataflow rule with a no-ordering impl table, position-provenance rule for every Indexed, sort-before-use rule on aggregated tuples, ordered-output type rule, full-scan rule for the synthetic Range container, vendored-table agreement (thorough)',
    'text': 'Static rule instances over the MIR and HIR tables of crux_cli::codegen: rustdoc ids are only compared for equality or hashed and the node types have no ordering (invariance under renumbering for code of this shape); every Indexed index is the position in the declared, non-skipped member list; every helper sorts its aggregated tuples or keys them by index; outputs are BTreeMaps; the synthetic Range container is derived from a full scan of the field relation and the crate worklist is re-read after every processed crate (two structural parts of closedness); the thorough tier compares the vendored rename-rule table and Format declarations with the pinned serde_derive / serde-reflection sources as parsed tables. NOT decided: closedness in general (input dependent), agreement with serde-reflection\'s tracing, invariance under crate loading order, and name clashes.',
    'design_ref': 'DESIGN.md §4 C20',
}

PENDING_REASON = 'check not yet armed in this framework (static rules designed in DESIGN.md §4; implementation in progress)'
