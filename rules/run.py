"""bin/check entry point:  run.py <Cxx> [--tier quick|thorough]"""
import argparse
import importlib
import json
import os
import sys
import traceback

sys.path.insert(0, os.path.dirname(os.path.dirname(os.path.abspath(__file__))))

from rules import extract, facts as factsmod, report  # noqa: E402

VERIF = extract.VERIF


class Ctx:
    def __init__(self, dirs, tier, tree):
        self.dirs = dirs
        self.tier = tier
        self.tree = tree
        self._facts = {}

    def facts(self, config):
        if config not in self._facts:
            self._facts[config] = factsmod.Facts(self.dirs[config])
        return self._facts[config]

    def crate(self, config, name):
        return self.facts(config).crate(name)

    def has(self, config):
        return config in self.dirs


def selftest(prop):
    """Checker self-test (informational, never changes the exit code): every mutants/<cxx>_*.diff is applied to a
    scratch worktree and must make this property's quick check report a violation; every refactor_<cxx>_*.diff
    (behaviour-preserving) must leave it quiet."""
    import glob
    import subprocess
    out = {'mutants': [], 'refactors': [], 'applied': 0, 'detected': 0, 'skipped': 0, 'refactors_quiet': 0}
    pats = [('mutants', os.path.join(VERIF, 'mutants', '%s_*.diff' % prop.lower())),
            # breaking changes written by independent sub-agents for this property (confirmed by hand, see seeded/<id>/meta.json)
            ('mutants', os.path.join(VERIF, 'seeded', '%s-*' % prop, 'patch.diff')),
            ('refactors', os.path.join(VERIF, 'mutants', 'refactor_%s_*.diff' % prop.lower()))]
    for kind, pat in pats:
        for f in sorted(glob.glob(pat)):
            env = dict(os.environ, VERIF_NO_SELFTEST='1', MUTANT_TIER='quick')
            r = subprocess.run([os.path.join(VERIF, 'bin', 'mutant'), f, prop], stdout=subprocess.PIPE, stderr=subprocess.STDOUT, text=True, env=env)
            name = os.path.basename(f) if os.path.basename(f) != 'patch.diff' else 'seeded/' + os.path.basename(os.path.dirname(f))
            if 'PATCH-DOES-NOT-APPLY' in r.stdout or 'EXTRACTION FAILED' in r.stdout:
                out['skipped'] += 1
                out[kind].append({'patch': name, 'result': 'skipped (does not apply / build)'})
                continue
            fired = [l.strip()[:200] for l in r.stdout.splitlines() if l.strip().startswith('violation ')]
            if kind == 'mutants':
                out['applied'] += 1
                out['detected'] += 1 if fired else 0
                out[kind].append({'patch': name, 'result': 'detected' if fired else 'MISSED', 'by': [x.split(':')[0].replace('violation ', '') for x in fired][:4]})
            else:
                out['refactors_quiet'] += 0 if fired else 1
                out[kind].append({'patch': name, 'result': 'FALSE ALARM' if fired else 'quiet', 'by': fired[:2]})
    return out


def main():
    ap = argparse.ArgumentParser()
    ap.add_argument('prop')
    ap.add_argument('--tier', default=os.environ.get('VERIF_TIER', 'quick'), choices=['quick', 'thorough'])
    args = ap.parse_args()
    prop = args.prop.upper()
    seed = int(os.environ.get('VERIF_SEED', '0') or 0)
    mod = importlib.import_module('rules.props.%s' % prop.lower())
    configs = list(mod.CONFIGS['quick'])
    if args.tier == 'thorough':
        for c in mod.CONFIGS.get('thorough', []):
            if c not in configs:
                configs.append(c)
    log = []
    dirs, tree = extract.facts_for(configs, log)
    ctx = Ctx(dirs, args.tier, tree)
    rep = report.Report(prop, args.tier, seed)
    rep.notes.append('tree hash %s; configurations %s' % (tree, configs))
    rep.notes += log
    try:
        mod.check(ctx, rep)
    except Exception:  # fail closed: an engine error is never a pass
        tb = traceback.format_exc()
        sys.stderr.write(tb)
        rep.rule('engine', 'every rule evaluates without an internal error')
        rep.bad('engine', 'engine-error', 'rule evaluation crashed (failing closed): ' + tb.strip().split('\n')[-1])
    for cfg in configs:
        f = ctx.facts(cfg)
        for name, c in sorted(f.crates.items()):
            rep.unit(cfg, name, len(c.built))
            # fail closed: a body the extractor could not read is a blind spot for every rule
            if c.j.get('built_stolen') or c.j.get('elab_stolen'):
                rep.rule('engine', 'every rule evaluates without an internal error')
                rep.bad('engine', 'facts-incomplete|%s@%s' % (name, cfg), 'MIR of %s (built) / %s bodies (elaborated) of crate %s could not be read'
                        % (c.j.get('built_stolen'), c.j.get('elab_stolen'), name))
    if args.tier == 'thorough' and hasattr(mod, 'thorough_extra'):
        try:
            mod.thorough_extra(ctx, rep)
        except Exception:
            tb = traceback.format_exc()
            sys.stderr.write(tb)
            rep.rule('engine', 'every rule evaluates without an internal error')
            rep.bad('engine', 'engine-error-thorough', 'thorough step crashed (failing closed): ' + tb.strip().split('\n')[-1])
    if args.tier == 'thorough' and not os.environ.get('VERIF_NO_SELFTEST') and not os.environ.get('CRUX_REPO'):
        try:
            rep.selftest = selftest(prop)
        except Exception as e:  # informational only
            rep.selftest = {'error': str(e)}
    with open(os.path.join(VERIF, 'known_findings.json')) as fh:
        known = json.load(fh)
    rc = rep.finish(known, mod.EXPLANATION, mod.TECHNIQUE)
    sys.exit(rc)


if __name__ == '__main__':
    main()
