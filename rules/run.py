"""bin/check entry point:  run.py <Cxx> [--tier quick|thorough]"""
import argparse
import importlib
import json
import os
import sys
import traceback

sys.path.insert(0, os.path.dirname(os.path.dirname(os.path.abspath(__file__))))

from rules import extract, facts as factsmod, report  # noqa: E402

VERIF = extract.VERIF


class Ctx:
    def __init__(self, dirs, tier, tree):
        self.dirs = dirs
        self.tier = tier
        self.tree = tree
        self._facts = {}

    def facts(self, config):
        if config not in self._facts:
            self._facts[config] = factsmod.Facts(self.dirs[config])
        return self._facts[config]

    def crate(self, config, name):
        return self.facts(config).crate(name)

    def has(self, config):
        return config in self.dirs


def main():
    ap = argparse.ArgumentParser()
    ap.add_argument('prop')
    ap.add_argument('--tier', default=os.environ.get('VERIF_TIER', 'quick'), choices=['quick', 'thorough'])
    args = ap.parse_args()
    prop = args.prop.upper()
    seed = int(os.environ.get('VERIF_SEED', '0') or 0)
    mod = importlib.import_module('rules.props.%s' % prop.lower())
    configs = list(mod.CONFIGS['quick'])
    if args.tier == 'thorough':
        for c in mod.CONFIGS.get('thorough', []):
            if c not in configs:
                configs.append(c)
    log = []
    dirs, tree = extract.facts_for(configs, log)
    ctx = Ctx(dirs, args.tier, tree)
    rep = report.Report(prop, args.tier, seed)
    rep.notes.append('tree hash %s; configurations %s' % (tree, configs))
    rep.notes += log
    try:
        mod.check(ctx, rep)
    except Exception:  # fail closed: an engine error is never a pass
        tb = traceback.format_exc()
        sys.stderr.write(tb)
        rep.rule('engine', 'every rule evaluates without an internal error')
        rep.bad('engine', 'engine-error', 'rule evaluation crashed (failing closed): ' + tb.strip().split('\n')[-1])
    for cfg in configs:
        f = ctx.facts(cfg)
        for name, c in sorted(f.crates.items()):
            rep.unit(cfg, name, len(c.built))
            # fail closed: a body the extractor could not read is a blind spot for every rule
            if c.j.get('built_stolen') or c.j.get('elab_stolen'):
                rep.rule('engine', 'every rule evaluates without an internal error')
                rep.bad('engine', 'facts-incomplete|%s@%s' % (name, cfg), 'MIR of %s (built) / %s bodies (elaborated) of crate %s could not be read'
                        % (c.j.get('built_stolen'), c.j.get('elab_stolen'), name))
    if args.tier == 'thorough' and hasattr(mod, 'thorough_extra'):
        try:
            mod.thorough_extra(ctx, rep)
        except Exception:
            tb = traceback.format_exc()
            sys.stderr.write(tb)
            rep.rule('engine', 'every rule evaluates without an internal error')
            rep.bad('engine', 'engine-error-thorough', 'thorough step crashed (failing closed): ' + tb.strip().split('\n')[-1])
    with open(os.path.join(VERIF, 'known_findings.json')) as fh:
        known = json.load(fh)
    rc = rep.finish(known, mod.EXPLANATION, mod.TECHNIQUE)
    sys.exit(rc)


if __name__ == '__main__':
    main()
