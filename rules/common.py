import re
"""Helpers shared by several property modules."""
from rules.facts import norm, path_matches, origins, flows_to, call_matches, last_seg


def in_expansion(site):
    """the statement/terminator comes from a macro expansion (compiler desugarings do not count)"""
    return bool(site.get('x')) and not all(e.startswith('desugar:') for e in site['x'])


# sinks through which a fallible result may legitimately travel
CHAIN_OK = ['core::option::Option::ok_or', 'core::option::Option::ok_or_else', 'core::result::Result::map_err',
            'core::result::Result::map', 'core::option::Option::map', 'core::result::Result::and_then',
            'core::option::Option::and_then', 'core::ops::try_trait::Try::branch',
            'core::ops::try_trait::FromResidual::from_residual', 'core::result::Result::ok',
            'core::option::Option::filter']
INSPECT_OK = ['core::result::Result::is_ok', 'core::result::Result::is_err', 'core::option::Option::is_some', 'core::option::Option::is_none',
              'core::result::Result::as_ref', 'core::option::Option::as_ref']
TERMINAL_OK = ['core::option::Option::expect', 'core::option::Option::unwrap', 'core::result::Result::expect',
               'core::result::Result::unwrap']


def failure_reaches_error(fn, local, allow_panic, depth=0):
    """every use of a fallible value leads to ?/ok_or/map_err/return/match (or a panic when allowed);
    returns (ok, reason)"""
    if depth > 8:
        return False, 'chain too deep'
    sinks = flows_to(fn, local, whole_only=True)
    if not sinks:
        return False, 'result is not used'
    if all(s[0] == 'drop' or (s[0] == 'callarg' and call_matches(s[2], INSPECT_OK)) for s in sinks):
        return False, 'result is only inspected, never propagated'
    for s in sinks:
        kind = s[0]
        if kind == 'return':
            continue
        if kind in ('discr', 'switch'):
            continue  # matched on: both variants are handled by the code that follows
        if kind == 'field' or kind == 'op':
            continue
        if kind == 'callarg':
            _, bb, t, k, via = s
            if call_matches(t, ['core::ops::try_trait::Try::branch']) and k == 0:
                continue  # `?`: the residual is returned by the desugaring
            if call_matches(t, CHAIN_OK) and k == 0:
                ok, why = failure_reaches_error(fn, t['d']['l'], allow_panic, depth + 1)
                if not ok:
                    return False, why
                continue
            if call_matches(t, INSPECT_OK) and k == 0:
                continue  # looked at by reference; the value itself still has to be propagated by another use
            if call_matches(t, TERMINAL_OK) and k == 0:
                if allow_panic:
                    continue
                return False, 'failure turned into a panic by %s' % last_seg(t['callee'])
            return False, 'fallible result passed to %s (failure not propagated)' % norm(t.get('callee') or '?')
        if kind == 'drop':
            # dropping the moved-from temp after a by-value call is normal; a drop with no other use is not
            others = [x for x in sinks if x[0] != 'drop']
            if others:
                continue
            return False, 'fallible result is dropped'
        return False, 'fallible result reaches %s' % kind
    return True, ''


def is_fallible_ty(t):
    return t.startswith('core::option::Option<') or t.startswith('core::result::Result<')




# --------------------------------------------------------------------------------------
# panics

PANIC_CALLS = ['core::option::Option::unwrap', 'core::option::Option::expect', 'core::result::Result::unwrap',
               'core::result::Result::expect', 'core::result::Result::unwrap_err', 'core::result::Result::expect_err',
               'core::option::Option::unwrap_unchecked', 'core::result::Result::unwrap_unchecked']
PANIC_ENTRY = ['core::panicking::panic', 'core::panicking::panic_fmt', 'core::panicking::panic_display',
               'core::panicking::panic_explicit', 'core::panicking::unreachable_display', 'core::panicking::assert_failed',
               'core::panicking::panic_nounwind', 'std::rt::begin_panic', 'core::panicking::panic_str_2015',
               'std::rt::panic_fmt', 'core::panicking::assert_matches_failed']
INDEX_CALLS = ['core::ops::index::Index::index', 'core::ops::index::IndexMut::index_mut']
# std methods that panic for some argument values (the panic is inside std, so no panic terminator shows in the caller's MIR)
STD_PANICKING = re.compile(
    r'^(alloc::string::String::(truncate|split_off|insert|insert_str|remove|drain|replace_range)|'
    r'core::str::<impl str>::(split_at|split_at_mut)|'
    r'alloc::vec::Vec::(remove|swap_remove|insert|split_off|drain|splice)|'
    r'core::slice::<impl \[T\]>::(copy_from_slice|clone_from_slice|split_at|split_at_mut|swap|chunks|chunks_exact|windows|rotate_left|rotate_right|'
    r'select_nth_unstable\w*|copy_within)|'
    r'alloc::collections::vec_deque::VecDeque::(insert|swap|split_off|drain|rotate_left|rotate_right)|'
    r'core::char::methods::<impl char>::(from_digit|to_digit)|core::char::from_digit|'
    r'core::time::Duration::(new|from_secs_f32|from_secs_f64|mul_f32|mul_f64|div_f32|div_f64)|'
    r'core::cell::RefCell::(borrow|borrow_mut)|'
    r'core::iter::traits::iterator::Iterator::step_by)$')


def panic_sites(fn):
    """(bb, kind, detail) for every explicit way this function can panic by itself:
    unwrap/expect, panic!/unreachable!/assert! entry points, Index::index calls, MIR bounds/overflow asserts"""
    out = []
    for bb, t in fn.calls():
        if call_matches(t, PANIC_CALLS):
            recv = t['args'][0]['t'] if t['args'] else '?'
            out.append((bb, last_seg(t['callee']), 'on %s' % norm(recv)[:120], t))
        elif call_matches(t, PANIC_ENTRY):
            macros = [m for m in (t.get('x') or []) if not m.startswith('desugar:')]
            out.append((bb, 'panic', 'via %s' % (macros[-1] if macros else last_seg(t['callee'])), t))
        elif call_matches(t, INDEX_CALLS):
            out.append((bb, 'index', 'on %s' % norm(t.get('self_ty') or '?')[:120], t))
        elif STD_PANICKING.match(norm(t.get('callee') or '')):
            out.append((bb, 'std-panic', 'in %s' % norm(t['callee']), t))
    for bb, t in fn.terms('assert'):
        out.append((bb, 'assert', t.get('msg', ''), t))
    return out


# --------------------------------------------------------------------------------------
# call graph over resolved callees (and constructed closures)

class CallGraph:
    def __init__(self, crates, view='built'):
        self.by_path = {}
        for c in crates:
            for f in c.fns(view):
                self.by_path.setdefault(f.npath, []).append(f)
        self._edges = {}

    def callees(self, fn):
        if fn.path in self._edges:
            return self._edges[fn.path]
        out = []
        for bb, t in fn.calls(include_cleanup=False):
            for key in ('resolved', 'callee'):
                p = t.get(key)
                if p and norm(p) in self.by_path:
                    out += self.by_path[norm(p)]
                    break
        for bb, idx, s in fn.stmts('assign'):
            rv = s['rv']
            if rv['k'] == 'agg' and rv.get('ak') in ('closure', 'coroutine', 'coroutine_closure'):
                out += self.by_path.get(norm(rv['def']), [])
        self._edges[fn.path] = out
        return out

    def callers(self, fn):
        """(caller, bb, terminator) of every call in the analysed crates that resolves to fn"""
        if not hasattr(self, '_callers'):
            self._callers = {}
            for fs in self.by_path.values():
                for g in fs:
                    for bb, t in g.calls():
                        for key in ('resolved', 'callee'):
                            p = t.get(key)
                            if p and norm(p) in self.by_path:
                                for h in self.by_path[norm(p)]:
                                    self._callers.setdefault(h.path, []).append((g, bb, t))
                                break
        return self._callers.get(fn.path, [])

    def reach(self, roots, stop=lambda f: False):
        seen = {}
        work = list(roots)
        while work:
            f = work.pop()
            if f.path in seen or stop(f):
                continue
            seen[f.path] = f
            work += self.callees(f)
        return list(seen.values())


# --------------------------------------------------------------------------------------
# helper-aware call sites: a call to a local function that itself performs X counts as a site of X

_CLOSURE_CALLS = ['core::ops::function::Fn::call', 'core::ops::function::FnMut::call_mut', 'core::ops::function::FnOnce::call_once']


class Summaries:
    """`sites(fn, patterns, mode)`: blocks of fn whose call is one of `patterns`, or a call to a function of the
    same crates that performs such a call on every path to its return (mode 'must') or on some path (mode 'may').
    Lets path rules survive the extraction of a helper function (inlining bound: depth 3)."""

    def __init__(self, crates, depth=3):
        self.cg = CallGraph(crates)
        self.depth = depth
        self._memo = {}

    def performs(self, g, patterns, mode, depth=None, stack=()):
        depth = self.depth if depth is None else depth
        key = (g.path, tuple(patterns), mode)
        if key in self._memo:
            return self._memo[key]
        if depth < 0 or g.path in stack:
            return False
        blocks = self.sites(g, patterns, mode, depth - 1, stack + (g.path,))
        if mode == 'may':
            r = bool(blocks)
        else:
            rets = g.return_blocks()
            r = bool(blocks) and bool(rets) and all(x not in g.reachable([0], removed_blocks=blocks) for x in rets)
        self._memo[key] = r
        return r

    def sites(self, fn, patterns, mode='must', depth=None, stack=()):
        depth = self.depth if depth is None else depth
        out = []
        for bb, t in fn.calls():
            if call_matches(t, patterns):
                out.append(bb)
                continue
            if depth < 0:
                continue
            if call_matches(t, _CLOSURE_CALLS) and t.get('args'):
                # a call of a closure built in this very body (`write(&mut ser)` in a spliced helper that was handed `|ser| self.inner.view(ser)`):
                # a call of that closure's body
                defs = set()
                for o in origins(fn, t['args'][0]):
                    if o.kind == 'agg' and o.stmt['rv'].get('ak') == 'closure':
                        defs.add(o.stmt['rv']['def'])
                    else:
                        defs.add(None)
                if defs and None not in defs:
                    gs = [g for d_ in defs for g in self.cg.by_path.get(norm(d_), []) if g.path == d_]
                    if gs and all(self.performs(g, patterns, mode, depth, stack + (fn.path,)) for g in gs):
                        out.append(bb)
                continue
            for key in ('resolved', 'callee'):
                p = t.get(key)
                if p and norm(p) in self.cg.by_path:
                    gs = [g for g in self.cg.by_path[norm(p)] if g.path != fn.path and g.kind != 'Closure']
                    if gs and all(self.performs(g, patterns, mode, depth, stack + (fn.path,)) for g in gs):
                        out.append(bb)
                    break
        return out


def deep_origins(cg, fn, operand, depth=3, _seen=None, stop_calls=(), **kw):
    """origins() continued across function boundaries of the analysed crates: a parameter is followed into the matching argument of
    every caller, the result of a call to a local function into that function's return value.  Returns [(function, Origin)].
    Lets provenance rules survive the extraction (or inlining) of helper functions."""
    _seen = _seen if _seen is not None else set()
    out = []
    for o in origins(fn, operand, **kw):
        key = (fn.path, o.kind, getattr(o, 'n', None), getattr(o, 'bb', None), tuple(getattr(o, 'suffix', []) or []))
        if key in _seen:
            continue
        _seen.add(key)
        if depth > 0 and o.kind == 'arg' and fn.kind != 'Closure':
            cs = cg.callers(fn)
            if cs:
                for caller, bb, t in cs:
                    k = o.n - 1
                    if k < len(t['args']) and 'l' in t['args'][k]:
                        a = dict(t['args'][k])
                        a['p'] = list(a.get('p', [])) + list(o.suffix or [])
                        out += deep_origins(cg, caller, a, depth - 1, _seen, stop_calls, **kw)
                    else:
                        out.append((caller, Origin_const(t['args'][k] if k < len(t['args']) else {})))
                continue
        if depth > 0 and o.kind == 'call' and not (stop_calls and call_matches(o.term, list(stop_calls))):
            callee = None
            for keyp in ('resolved', 'callee'):
                p = o.term.get(keyp)
                if p and norm(p) in cg.by_path:
                    callee = [g for g in cg.by_path[norm(p)] if g.kind != 'Closure']
                    break
            if callee:
                for g in callee:
                    out += deep_origins(cg, g, {'l': 0, 'p': list(o.suffix or [])}, depth - 1, _seen, stop_calls, **kw)
                continue
        out.append((fn, o))
    return out


def Origin_const(operand):
    from rules.facts import Origin
    return Origin('const', s=operand.get('s') or operand.get('fn'), v=operand.get('v'), fn=operand.get('fn'), static=operand.get('static'), suffix=[], steps=[])
