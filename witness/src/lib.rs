//! Compile-fail witnesses: type-level facts the static rules lean on, each paired with a compiling
//! twin that differs only in the offending line (so a witness whose path is merely wrong cannot pass).
//! Run with `cargo +nightly test --doc` (the error code is only honoured on nightly).
#![allow(dead_code)]

/// Shared prelude of the C02 witnesses (an operation with output `u8`, another with output `String`).
///
/// W02.1 twin — resolving with the operation's own output type compiles:
/// ```no_run
/// use crux_verif_witness::ops::*;
/// let mut cmd: crux_core::Command<Effect, ()> = crux_core::Command::request_from_shell(OpA).then_send(|_| ());
/// let Effect::A(mut req) = cmd.effects().next().unwrap() else { panic!() };
/// let _ = req.resolve(1u8);
/// ```
/// W02.1 — resolving with another operation's output type does not:
/// ```compile_fail,E0308
/// use crux_verif_witness::ops::*;
/// let mut cmd: crux_core::Command<Effect, ()> = crux_core::Command::request_from_shell(OpA).then_send(|_| ());
/// let Effect::A(mut req) = cmd.effects().next().unwrap() else { panic!() };
/// let _ = req.resolve(String::from("for OpB"));
/// ```
/// W02.2 twin — the public field `operation` can be read:
/// ```no_run
/// use crux_verif_witness::ops::*;
/// let mut cmd: crux_core::Command<Effect, ()> = crux_core::Command::request_from_shell(OpA).then_send(|_| ());
/// let Effect::A(req) = cmd.effects().next().unwrap() else { panic!() };
/// let _ = &req.operation;
/// ```
/// W02.2 — the resolve callback cannot be read, replaced or stolen from outside the crate:
/// ```compile_fail,E0616
/// use crux_verif_witness::ops::*;
/// let mut cmd: crux_core::Command<Effect, ()> = crux_core::Command::request_from_shell(OpA).then_send(|_| ());
/// let Effect::A(req) = cmd.effects().next().unwrap() else { panic!() };
/// let _ = &req.resolve;
/// ```
/// W02.3 twin — the operation can be cloned:
/// ```no_run
/// use crux_verif_witness::ops::*;
/// let mut cmd: crux_core::Command<Effect, ()> = crux_core::Command::request_from_shell(OpA).then_send(|_| ());
/// let Effect::A(req) = cmd.effects().next().unwrap() else { panic!() };
/// let _ = req.operation.clone();
/// ```
/// W02.3 — a request (and with it the right to resolve) cannot be duplicated:
/// ```compile_fail,E0599
/// use crux_verif_witness::ops::*;
/// let mut cmd: crux_core::Command<Effect, ()> = crux_core::Command::request_from_shell(OpA).then_send(|_| ());
/// let Effect::A(req) = cmd.effects().next().unwrap() else { panic!() };
/// let _ = req.clone();
/// ```
pub struct W02;

/// W01.1 twin — a command can be moved:
/// ```no_run
/// use crux_verif_witness::ops::*;
/// let cmd: crux_core::Command<Effect, ()> = crux_core::Command::done();
/// let _moved = cmd;
/// ```
/// W01.1 — a command (and the effects queued in it) cannot be duplicated:
/// ```compile_fail,E0599
/// use crux_verif_witness::ops::*;
/// let cmd: crux_core::Command<Effect, ()> = crux_core::Command::done();
/// let _copy = cmd.clone();
/// ```
pub struct W01;

/// W18.1 twin — clearing a timer once compiles:
/// ```no_run
/// use crux_verif_witness::ops::*;
/// let (_cmd, handle) = crux_time::command::Time::<TimeEffect, ()>::notify_after(std::time::Duration::from_secs(1));
/// handle.clear();
/// ```
/// W18.1 — `clear` consumes the handle: a second clear of the same timer does not compile:
/// ```compile_fail,E0382
/// use crux_verif_witness::ops::*;
/// let (_cmd, handle) = crux_time::command::Time::<TimeEffect, ()>::notify_after(std::time::Duration::from_secs(1));
/// handle.clear();
/// handle.clear();
/// ```
/// W18.2 — a timer handle cannot be cloned:
/// ```compile_fail,E0599
/// use crux_verif_witness::ops::*;
/// let (_cmd, handle) = crux_time::command::Time::<TimeEffect, ()>::notify_after(std::time::Duration::from_secs(1));
/// let _h2 = handle.clone();
/// ```
pub struct W18;

/// W19.1 twin — the validating constructors are public:
/// ```no_run
/// let _ = crux_time::Instant::new(1, 999_999_999);
/// let _ = crux_time::Duration::new(1);
/// ```
/// W19.1 — an `Instant` cannot be built around its validating constructor from outside the crate:
/// ```compile_fail,E0451
/// let _ = crux_time::Instant { seconds: 1, nanos: 2_000_000_000 };
/// ```
/// W19.1b — nor a `Duration`:
/// ```compile_fail,E0451
/// let _ = crux_time::Duration { nanos: 1 };
/// ```
pub struct W19;

pub mod ops {
    use crux_core::{capability::Operation, Request};
    use serde::{Deserialize, Serialize};

    #[derive(Debug, Clone, PartialEq, Serialize, Deserialize)]
    pub struct OpA;
    impl Operation for OpA {
        type Output = u8;
    }

    #[derive(Debug, Clone, PartialEq, Serialize, Deserialize)]
    pub struct OpB;
    impl Operation for OpB {
        type Output = String;
    }

    pub enum Effect {
        A(Request<OpA>),
        B(Request<OpB>),
    }
    impl From<Request<OpA>> for Effect {
        fn from(r: Request<OpA>) -> Self {
            Effect::A(r)
        }
    }
    impl From<Request<OpB>> for Effect {
        fn from(r: Request<OpB>) -> Self {
            Effect::B(r)
        }
    }

    pub enum TimeEffect {
        Time(Request<crux_time::TimeRequest>),
    }
    impl From<Request<crux_time::TimeRequest>> for TimeEffect {
        fn from(r: Request<crux_time::TimeRequest>) -> Self {
            TimeEffect::Time(r)
        }
    }
}
